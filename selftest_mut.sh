#!/bin/bash
# usage: selftest_mut.sh <module-list> <filter> <file> <python-replace-expr>...  ; applies textual mutation to a scratch copy and runs pyvc
set -e
MODS="$1"; FILT="$2"; FILE="$3"; OLD="$4"; NEW="$5"
D=$(mktemp -d /tmp/mutXXXX); cp -r /repo/symmray $D/
python3 - "$D/symmray/$FILE" "$OLD" "$NEW" <<'PY'
import sys
p,old,new=sys.argv[1:4]
s=open(p).read()
assert s.count(old)>=1, "pattern not found"
open(p,'w').write(s.replace(old,new,1))
PY
cd /verif && SYMMRAY_REPO=$D python3-vt -m pyvc.run --modules $MODS --filter "$FILT" -j 6 2>&1 | grep -v conda | grep -E "refuted|unknown|undecided|crash|tasks=" | cut -c1-220 | head -${6:-8}
rm -rf $D
