#!/bin/bash
FILE="$1"; OLD="$2"; NEW="$3"
D=$(mktemp -d /tmp/mutXXXX); cp -r /repo/symmray $D/
python3 - "$D/symmray/$FILE" "$OLD" "$NEW" <<'PY'
import sys
p,old,new=sys.argv[1:4]
s=open(p).read()
assert s.count(old)>=1, "pattern not found"
open(p,'w').write(s.replace(old,new,1))
PY
cd /verif && SYMMRAY_REPO=$D python3-vt -m pyvc.frames 2>&1 | grep -v conda | grep -E "refuted|unknown|crash" | cut -c1-260 | head -4
rm -rf $D
