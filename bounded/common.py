"""Shared infrastructure of the *bounded* tier (Tier B).

Runs under /venv/bin/python (numpy + autoray + symmray from /repo's working tree).
Everything here is written from the property statements and deliberately shares no
logic with symmray: the group arithmetic, the densifier, the validity audit and the
equality test are re-implemented.  Results of this tier are *bounded* evidence and
are never counted as proved.

Vocabulary
----------
array spec   JSON-able dict fully describing an array (self-contained replay):
             {"sym","fermionic","static","indices":[{"cm":[[charge,size],..],"dual":b}],
              "charge", "sectors": "all" | [[c,..],..], "fill_seed", "dtype",
              "oddpos": None|int|[label,..], "pre_ops":[[name, args..],..]}
descriptor   JSON-able dict describing one *case* of a driver (holds array specs and
             operation arguments); `check_case(descriptor)` re-runs exactly that case.
"""

import itertools
import json
import os
import sys
import time
import traceback
import zlib

import numpy as np

sys.path.insert(0, os.environ.get("SYMMRAY_REPO", "/repo"))
import symmray as sr  # noqa: E402

SYMS = ("Z2", "U1", "Z2Z2", "U1U1", "Z4")
SYMS_STATIC = ("Z2", "U1", "Z2Z2", "U1U1")

CHARGE_SETS = {
    "Z2": [0, 1],
    "Z4": [0, 1, 2, 3],
    "U1": [-1, 0, 1, 2],
    "Z2Z2": [(0, 0), (0, 1), (1, 0), (1, 1)],
    "U1U1": [(0, 0), (0, 1), (1, 0), (1, 1), (-1, 1)],
}

# pool of the seeded random generators: also charges whose CPython hashes collide (hash(-1) == hash(-2))
RAND_CHARGE_SETS = dict(CHARGE_SETS, U1=[-2, -1, 0, 1, 2], U1U1=[(0, 0), (0, 1), (1, 0), (1, 1), (-1, 1), (-2, 1), (1, -1)])

ABELIAN_CLS = {
    "Z2": sr.Z2Array,
    "U1": sr.U1Array,
    "Z2Z2": sr.Z2Z2Array,
    "U1U1": sr.U1U1Array,
}
FERMI_CLS = {
    "Z2": sr.Z2FermionicArray,
    "U1": sr.U1FermionicArray,
    "Z2Z2": sr.Z2Z2FermionicArray,
    "U1U1": sr.U1U1FermionicArray,
}


# ----------------------------------------------------------------------------
# independent group arithmetic (the oracle's own; never calls symmray.symmetries)


class G:
    """Reference arithmetic of the five built-in symmetries."""

    @staticmethod
    def zero(sym):
        return (0, 0) if sym in ("Z2Z2", "U1U1") else 0

    @staticmethod
    def add(sym, a, b):
        if sym == "Z2":
            return (a + b) % 2
        if sym == "Z4":
            return (a + b) % 4
        if sym == "U1":
            return a + b
        if sym == "Z2Z2":
            return ((a[0] + b[0]) % 2, (a[1] + b[1]) % 2)
        if sym == "U1U1":
            return (a[0] + b[0], a[1] + b[1])
        raise ValueError(sym)

    @staticmethod
    def neg(sym, a):
        if sym == "Z2":
            return a
        if sym == "Z4":
            return (-a) % 4
        if sym == "U1":
            return -a
        if sym == "Z2Z2":
            return a
        if sym == "U1U1":
            return (-a[0], -a[1])
        raise ValueError(sym)

    @staticmethod
    def par(sym, a):
        if sym in ("Z2", "Z4", "U1"):
            return a % 2
        return (a[0] + a[1]) % 2

    @staticmethod
    def ok(sym, a):
        isint = lambda v: isinstance(v, (int, np.integer)) and not isinstance(v, bool)
        if sym == "Z2":
            return isint(a) and a in (0, 1)
        if sym == "Z4":
            return isint(a) and a in (0, 1, 2, 3)
        if sym == "U1":
            return isint(a)
        if sym == "Z2Z2":
            return isinstance(a, tuple) and len(a) == 2 and all(isint(v) and v in (0, 1) for v in a)
        if sym == "U1U1":
            return isinstance(a, tuple) and len(a) == 2 and all(isint(v) for v in a)
        raise ValueError(sym)

    @staticmethod
    def signed_sum(sym, sector, duals):
        tot = G.zero(sym)
        for c, d in zip(sector, duals):
            tot = G.add(sym, tot, G.neg(sym, c) if d else c)
        return tot


def sym_name(x):
    """Name of the symmetry of a symmray array (class name of the symmetry object)."""
    return type(x.symmetry).__name__


def jcharge(c):
    """charge -> JSON-able"""
    return list(c) if isinstance(c, tuple) else c


def ucharge(c):
    """JSON -> charge"""
    return tuple(c) if isinstance(c, list) else c


# ----------------------------------------------------------------------------
# building arrays from specs


def stable_hash(obj):
    return zlib.crc32(repr(obj).encode())


def fill_block(fill_seed, sector, shape, dtype):
    """Deterministic small-integer block (exact in every float dtype)."""
    rng = np.random.default_rng([int(fill_seed) & 0x7FFFFFFF, stable_hash(sector)])
    x = rng.integers(-3, 4, size=shape).astype("float64")
    # avoid all-zero blocks (they make many checks vacuous)
    if x.size and not x.any():
        x.flat[0] = 1.0
    if "complex" in dtype:
        y = rng.integers(-3, 4, size=shape).astype("float64")
        x = x + 1j * y
    return x.astype(dtype)


def brute_valid_sectors(sym, chargesets, duals, charge):
    """All tuples of available charges whose signed sum is `charge` (oracle)."""
    out = []
    for s in itertools.product(*chargesets):
        if G.signed_sum(sym, s, duals) == charge:
            out.append(s)
    return out


def build_index(ispec):
    cm = {ucharge(c): int(d) for c, d in ispec["cm"]}
    return sr.BlockIndex(cm, dual=bool(ispec["dual"]))


def build_array(spec):
    """Build a symmray array from an array spec (see module docstring)."""
    sym = spec["sym"]
    fermionic = bool(spec.get("fermionic", False))
    static = bool(spec.get("static", True)) and sym in SYMS_STATIC
    dtype = spec.get("dtype", "float64")
    indices = tuple(build_index(i) for i in spec["indices"])
    duals = tuple(ix.dual for ix in indices)
    charge = ucharge(spec.get("charge", jcharge(G.zero(sym))))
    chargesets = [list(ix.chargemap) for ix in indices]
    valid = brute_valid_sectors(sym, chargesets, duals, charge)
    want = spec.get("sectors", "all")
    if want == "all":
        sectors = valid
    else:
        sectors = [tuple(ucharge(c) for c in s) for s in want]
    blocks = {}
    for s in sectors:
        shape = tuple(ix.chargemap[c] for ix, c in zip(indices, s))
        blocks[s] = fill_block(spec.get("fill_seed", 0), s, shape, dtype)
    if spec.get("mixed_block_dtypes") and "complex" in dtype and len(blocks) > 1:
        # an array as produced by  real_array + complex_array  when the real one alone stores the first sector:
        # the first stored block is real, the others complex
        first = next(iter(blocks))
        blocks[first] = np.ascontiguousarray(blocks[first].real)
    kw = {}
    if fermionic:
        op = spec.get("oddpos", None)
        if isinstance(op, list):
            op = [sr.FermionicOperator(ucharge(l)) for l in op]
        elif op is not None:
            op = ucharge(op)
        kw["oddpos"] = op
        cls = FERMI_CLS[sym] if static else sr.FermionicArray
    else:
        cls = ABELIAN_CLS[sym] if static else sr.AbelianArray
    if not static:
        kw["symmetry"] = sym
    x = cls(indices=indices, charge=charge, blocks=blocks, **kw)
    for op in spec.get("pre_ops", ()):
        x = apply_op(x, op)
    return x


def apply_op(x, op):
    """Apply one recorded operation [name, *args] out of place."""
    name, *args = op
    if name == "transpose":
        return x.transpose(tuple(args[0]))
    if name == "phase_flip":
        return x.phase_flip(*args[0])
    if name == "phase_transpose":
        return x.phase_transpose(tuple(args[0]))
    if name == "phase_global":
        return x.phase_global()
    if name == "phase_sector":
        return x.phase_sector(tuple(ucharge(c) for c in args[0]))
    if name == "phase_sync":
        return x.phase_sync()
    if name == "conj":
        return x.conj(**(args[0] if args else {}))
    if name == "dagger":
        return x.dagger(**(args[0] if args else {}))
    if name == "fuse":
        kw = args[1] if len(args) > 1 else {}
        return x.fuse(*[tuple(g) for g in args[0]], **kw)
    if name == "unfuse":
        return x.unfuse(args[0])
    if name == "squeeze":
        return x.squeeze(*args)
    if name == "expand_dims":
        return x.expand_dims(*args)
    if name == "neg":
        return -x
    if name == "scale":
        return x * args[0]
    if name == "drop":  # drop the k-th stored sector (if more than one)
        y = x.copy()
        ks = list(y.blocks)
        if len(ks) > 1:
            del y.blocks[ks[args[0] % len(ks)]]
        return y
    raise ValueError(f"unknown op {op}")


# ----------------------------------------------------------------------------
# views of an array: independent of symmray's own to_dense / check


def eff_phase(x, sector):
    ph = getattr(x, "_phases", None) if getattr(x, "fermionic", False) else None
    if not ph:
        return 1
    return ph.get(sector, 1)


def val_blocks(x):
    """sector -> block with the pending sign multiplied in (the `val` view)."""
    out = {}
    for s, b in x.blocks.items():
        p = eff_phase(x, s)
        out[s] = np.asarray(b) * p if p != 1 else np.asarray(b)
    return out


def index_offsets(ix):
    offs, o = {}, 0
    for c in sorted(ix.chargemap):
        offs[c] = o
        o += ix.chargemap[c]
    return offs, o


def dense_of(x, dtype=None):
    """Independent densifier: charges sorted per axis, blocks pasted at prefix sums,
    pending fermionic signs multiplied in."""
    offs = [index_offsets(ix) for ix in x.indices]
    shape = tuple(o[1] for o in offs)
    vb = val_blocks(x)
    if dtype is None:
        dtype = np.result_type(*[b.dtype for b in vb.values()]) if vb else np.float64
    out = np.zeros(shape, dtype=dtype)
    for s, b in vb.items():
        sl = tuple(
            slice(offs[i][0][c], offs[i][0][c] + x.indices[i].chargemap[c])
            for i, c in enumerate(s)
        )
        out[sl] = b
    return out


def dense_vector(v):
    ks = sorted(v.blocks)
    if not ks:
        return np.zeros((0,))
    return np.concatenate([np.asarray(v.blocks[k]).reshape(-1) for k in ks])


class Invalid(Exception):
    pass


def _audit_index(sym, ix, where, depth=0):
    cm = ix.chargemap
    keys = list(cm)
    if keys != sorted(keys) or len(set(keys)) != len(keys):
        raise Invalid(f"{where}: chargemap keys not strictly increasing: {keys}")
    for c, d in cm.items():
        if not G.ok(sym, c):
            raise Invalid(f"{where}: charge {c!r} not a valid {sym} charge")
        if isinstance(d, bool) or not isinstance(d, (int, np.integer)) or d < 1:
            raise Invalid(f"{where}: size {d!r} of charge {c!r} not a positive int")
    if not isinstance(ix.dual, (bool, np.bool_)):
        raise Invalid(f"{where}: dual flag {ix.dual!r} not a bool")
    si = ix.subinfo
    if si is not None:
        ext = si.extents
        if set(ext) != set(cm):
            raise Invalid(f"{where}: extents keys {sorted(ext)} != chargemap keys {keys}")
        subs = si.indices
        for j, sub in enumerate(subs):
            _audit_index(sym, sub, f"{where}.sub[{j}]", depth + 1)
        for c, e in ext.items():
            if sum(e.values()) != cm[c]:
                raise Invalid(f"{where}: extents of charge {c!r} sum to {sum(e.values())} != {cm[c]}")
            ek = list(e)
            if ek != sorted(ek):
                raise Invalid(f"{where}: sub-sectors of charge {c!r} not sorted: {ek}")
            for t, d in e.items():
                if len(t) != len(subs):
                    raise Invalid(f"{where}: sub-sector {t!r} has wrong length")
                prod = 1
                for tc, sub in zip(t, subs):
                    if tc not in sub.chargemap:
                        raise Invalid(f"{where}: sub-charge {tc!r} of {t!r} not in sub-index")
                    prod *= sub.chargemap[tc]
                if prod != d:
                    raise Invalid(f"{where}: extent {d} of {t!r} != product of sub sizes {prod}")
                # fused charge = signed combination relative to the fused direction
                rel = [sub.dual != ix.dual for sub in subs]
                if G.signed_sum(sym, t, rel) != c:
                    raise Invalid(f"{where}: sub-sector {t!r} does not combine to fused charge {c!r}")


def audit_valid(x):
    """The representation invariant `Valid` of property C01, written from the
    statement.  Raises Invalid(<clause>) or returns None."""
    if isinstance(x, sr.BlockVector):
        for k, b in x.blocks.items():
            if np.ndim(b) != 1:
                raise Invalid(f"vector block {k!r} is not one-dimensional")
        return
    sym = sym_name(x)
    if not G.ok(sym, x.charge):
        raise Invalid(f"total charge {x.charge!r} is not a valid {sym} charge")
    if not isinstance(x.indices, tuple):
        raise Invalid("indices is not a tuple")
    for i, ix in enumerate(x.indices):
        _audit_index(sym, ix, f"index[{i}]")
    duals = tuple(ix.dual for ix in x.indices)
    nd = len(x.indices)
    for s, b in x.blocks.items():
        if not isinstance(s, tuple) or len(s) != nd:
            raise Invalid(f"sector {s!r} has wrong length for ndim {nd}")
        for i, c in enumerate(s):
            if c not in x.indices[i].chargemap:
                raise Invalid(f"sector {s!r}: charge {c!r} not in index {i}")
        if G.signed_sum(sym, s, duals) != x.charge:
            raise Invalid(f"sector {s!r} does not conserve charge {x.charge!r} (duals {duals})")
        want = tuple(x.indices[i].chargemap[c] for i, c in enumerate(s))
        if tuple(np.shape(b)) != want:
            raise Invalid(f"block {s!r} has shape {np.shape(b)} != {want}")
    if getattr(x, "fermionic", False):
        ph = getattr(x, "_phases", {})
        for s, p in ph.items():
            if not isinstance(s, tuple) or len(s) != nd:
                raise Invalid(f"phase key {s!r} has wrong length")
            if G.signed_sum(sym, s, duals) != x.charge:
                raise Invalid(f"phase key {s!r} does not conserve charge")
            if p not in (1, -1):
                raise Invalid(f"phase value {p!r} of {s!r} not +-1")
        op = getattr(x, "_oddpos", ())
        if not isinstance(op, tuple):
            raise Invalid(f"oddpos {op!r} is not a tuple")
        if len(op) % 2 != G.par(sym, x.charge):
            raise Invalid(
                f"label count {len(op)} has different parity from charge {x.charge!r}"
            )


def is_valid(x):
    try:
        audit_valid(x)
        return True, ""
    except Invalid as e:
        return False, str(e)


def index_struct(ix):
    """Hashable full description of an index (for equality / fingerprints)."""
    si = ix.subinfo
    return (
        tuple(ix.chargemap.items()),
        bool(ix.dual),
        None
        if si is None
        else (
            tuple(index_struct(s) for s in si.indices),
            tuple((c, tuple(e.items())) for c, e in sorted(si.extents.items())),
        ),
    )


def labels_of(x):
    return tuple((o.label, bool(o.dual)) for o in getattr(x, "_oddpos", ()))


def arrays_equal(x, y, exact=True, tol=1e-9, check_subinfo=True, why=False):
    """Observable equality of two arrays: indices (tables, directions, sub-index
    info), total charge, labels, and the `val` view; an absent block equals an
    all-zero one."""

    def ret(ok, msg=""):
        return (ok, msg) if why else ok

    if isinstance(x, sr.BlockVector) or isinstance(y, sr.BlockVector):
        if set(x.blocks) != set(y.blocks):
            return ret(False, "vector keys differ")
        for k in x.blocks:
            a, b = np.asarray(x.blocks[k]), np.asarray(y.blocks[k])
            if a.shape != b.shape or not (np.array_equal(a, b) if exact else np.allclose(a, b, atol=tol, rtol=tol)):
                return ret(False, f"vector block {k!r} differs")
        return ret(True)
    if len(x.indices) != len(y.indices):
        return ret(False, "ndim differs")
    if x.charge != y.charge:
        return ret(False, f"charge {x.charge!r} != {y.charge!r}")
    for i, (a, b) in enumerate(zip(x.indices, y.indices)):
        sa, sb = index_struct(a), index_struct(b)
        if not check_subinfo:
            sa, sb = sa[:2], sb[:2]
        if sa != sb:
            return ret(False, f"index {i} differs: {sa} != {sb}")
    if labels_of(x) != labels_of(y):
        return ret(False, f"labels differ: {labels_of(x)} != {labels_of(y)}")
    vx, vy = val_blocks(x), val_blocks(y)
    for s in set(vx) | set(vy):
        a, b = vx.get(s), vy.get(s)
        if a is None:
            a = np.zeros_like(b)
        if b is None:
            b = np.zeros_like(a)
        if a.shape != b.shape:
            return ret(False, f"block {s!r} shapes differ {a.shape} {b.shape}")
        ok = np.array_equal(a, b) if exact else np.allclose(a, b, atol=tol, rtol=tol)
        if not ok:
            return ret(False, f"block {s!r} differs")
    return ret(True)


def snapshot(x):
    """Deep, order-preserving, byte-level state of an operand (C14)."""
    if isinstance(x, sr.BlockVector):
        return ("vec", tuple((k, np.asarray(b).tobytes(), np.asarray(b).dtype.str, np.shape(b)) for k, b in x.blocks.items()))
    return (
        "arr",
        type(x).__name__,
        tuple(index_struct(ix) for ix in x.indices),
        tuple(id(ix) for ix in x.indices),
        x.charge,
        tuple((s, np.asarray(b).tobytes(), np.asarray(b).dtype.str, np.shape(b)) for s, b in x.blocks.items()),
        tuple(getattr(x, "_phases", {}).items()) if getattr(x, "fermionic", False) else None,
        labels_of(x),
    )


def snapshot_diff(a, b):
    if a == b:
        return ""
    if a[0] == "vec":
        return "vector blocks changed"
    names = ["kind", "class", "index tables", "index identities", "charge", "blocks (content/order/dtype)", "phases", "labels"]
    return ", ".join(n for n, u, v in zip(names, a, b) if u != v)


# ----------------------------------------------------------------------------
# universe helpers


def nonempty_subsets(items, max_size=None):
    n = len(items)
    for k in range(1, (max_size or n) + 1):
        for comb in itertools.combinations(items, k):
            yield list(comb)


def gen_index_specs(sym, max_charges=2, sizes=(1, 2), duals=(False, True), charge_pool=None):
    pool = charge_pool if charge_pool is not None else CHARGE_SETS[sym]
    for cs in nonempty_subsets(pool, max_charges):
        for szs in itertools.product(sizes, repeat=len(cs)):
            for d in duals:
                yield {"cm": [[jcharge(c), s] for c, s in zip(cs, szs)], "dual": d}


def rand_index_spec(rng, sym, max_charges=3, sizes=(1, 2, 3), dual=None):
    pool = RAND_CHARGE_SETS[sym]
    k = int(rng.integers(1, min(max_charges, len(pool)) + 1))
    pick = sorted(rng.choice(len(pool), size=k, replace=False).tolist())
    return {
        "cm": [[jcharge(pool[i]), int(rng.choice(sizes))] for i in pick],
        "dual": bool(rng.integers(0, 2)) if dual is None else bool(dual),
    }


def conj_index_spec(ispec):
    return {"cm": ispec["cm"], "dual": not ispec["dual"]}


def spec_valid_sectors(spec):
    sym = spec["sym"]
    chargesets = [[ucharge(c) for c, _ in i["cm"]] for i in spec["indices"]]
    duals = [i["dual"] for i in spec["indices"]]
    charge = ucharge(spec.get("charge", jcharge(G.zero(sym))))
    return brute_valid_sectors(sym, chargesets, duals, charge)


def reachable_charges(sym, index_specs):
    """Total charges for which at least one sector exists."""
    chargesets = [[ucharge(c) for c, _ in i["cm"]] for i in index_specs]
    duals = [i["dual"] for i in index_specs]
    out = []
    for s in itertools.product(*chargesets):
        c = G.signed_sum(sym, s, duals)
        if c not in out:
            out.append(c)
    return out


def rand_array_spec(
    rng,
    sym,
    ndim=None,
    fermionic=False,
    max_charges=3,
    sizes=(1, 2, 3),
    sparsity=0.35,
    dtype="float64",
    static=None,
    charge=None,
    indices=None,
    lazy=False,
    odd_label=None,
):
    """A random array spec with at least one stored sector."""
    if indices is None:
        if ndim is None:
            ndim = int(rng.integers(1, 5))
        indices = [rand_index_spec(rng, sym, max_charges, sizes) for _ in range(ndim)]
    reach = reachable_charges(sym, indices) if indices else [G.zero(sym)]
    if charge is None:
        charge = reach[int(rng.integers(0, len(reach)))]
    spec = {
        "sym": sym,
        "fermionic": fermionic,
        "static": bool(rng.integers(0, 2)) if static is None else static,
        "indices": indices,
        "charge": jcharge(charge),
        "fill_seed": int(rng.integers(0, 2**31 - 1)),
        "dtype": dtype,
    }
    if sym == "Z4":
        spec["static"] = False
    valid = spec_valid_sectors(spec)
    if valid:
        keep = [s for s in valid if rng.random() >= sparsity]
        if not keep:
            keep = [valid[int(rng.integers(0, len(valid)))]]
        spec["sectors"] = "all" if len(keep) == len(valid) else [[jcharge(c) for c in s] for s in keep]
    else:
        spec["sectors"] = []
    if fermionic:
        if G.par(sym, ucharge(spec["charge"])):
            spec["oddpos"] = odd_label if odd_label is not None else int(rng.integers(1, 50))
        if lazy and indices:
            nd = len(indices)
            ops = []
            for _ in range(int(rng.integers(1, 4))):
                r = int(rng.integers(0, 3))
                if r == 0:
                    ops.append(["phase_flip", sorted(rng.choice(nd, size=int(rng.integers(1, nd + 1)), replace=False).tolist())])
                elif r == 1:
                    ops.append(["phase_global"])
                else:
                    ops.append(["phase_transpose", rng.permutation(nd).tolist()])
            spec["pre_ops"] = ops
    return spec


# ----------------------------------------------------------------------------
# recording results


class Recorder:
    """Accumulates the coverage of one bounded contract."""

    def __init__(self, name, domain, bound):
        self.name = name
        self.domain = domain
        self.bound = bound
        self.evaluations = 0
        self.fingerprints = set()
        self.samples = []
        self.failures = []
        self.errors = []
        self.fail_counts = {}

    def case(self, fingerprint, nontrivial=True, sample=None):
        self.evaluations += 1
        if nontrivial:
            self.fingerprints.add(stable_hash(fingerprint))
        if sample is not None and len(self.samples) < 3:
            self.samples.append(sample)

    def fail(self, obligation, what, descriptor, features=None):
        # keep at most 3 examples per (obligation, features) class so that a frequent
        # (e.g. known) class can never crowd a rare one out of the report
        key = (obligation, tuple(sorted((str(k), str(v)) for k, v in (features or {}).items())))
        self.fail_counts[key] = self.fail_counts.get(key, 0) + 1
        if self.fail_counts[key] > 3:
            return
        self.failures.append(
            {
                "contract": self.name,
                "obligation": obligation,
                "what": what,
                "descriptor": descriptor,
                "features": features or {},
            }
        )

    def merge(self, other):
        self.evaluations += other["evaluations"]
        self.fingerprints |= set(other["fingerprints"])
        for s in other["samples"]:
            if len(self.samples) < 3:
                self.samples.append(s)
        self.failures.extend(other["failures"])
        self.errors.extend(other.get("errors", []))

    def dump_partial(self):
        return {
            "evaluations": self.evaluations,
            "fingerprints": list(self.fingerprints),
            "samples": self.samples,
            "failures": self.failures,
            "errors": self.errors,
        }

    def _ordered_failures(self):
        # first example of every (obligation, features) class before any second example, so that a cap
        # can never hide a whole class behind frequent (e.g. known-finding) classes
        rounds = {}
        seen = {}
        for f in self.failures:
            key = (f["obligation"], tuple(sorted((str(k), str(v)) for k, v in (f.get("features") or {}).items())))
            n = seen.get(key, 0)
            seen[key] = n + 1
            rounds.setdefault(n, []).append(f)
        return [f for n in sorted(rounds) for f in rounds[n]]

    def result(self):
        return {
            "contract": self.name,
            "domain": self.domain,
            "bound": self.bound,
            "evaluations": self.evaluations,
            "distinct_nontrivial": len(self.fingerprints),
            "samples": self.samples,
            "failures": self._ordered_failures()[:3000],
            "n_failures": sum(self.fail_counts.values()),
            "failure_classes": [{"obligation": k[0], "features": dict(k[1]), "count": n} for k, n in sorted(self.fail_counts.items(), key=lambda kv: -kv[1])][:100],
            "errors": self.errors[:10],
        }


def _worker(args):
    modname, descs = args
    import importlib

    mod = importlib.import_module(modname)
    out = []
    for d in descs:
        try:
            out.append(("ok", mod.check_case(d)))
        except Exception:
            out.append(("crash", {"descriptor": d, "traceback": traceback.format_exc()[-1500:]}))
    return out


def interleave(*gens):
    """round-robin over generators, so that a wall-clock budget thins every family evenly"""
    its = [iter(g) for g in gens]
    while its:
        nxt = []
        for g in its:
            try:
                yield next(g)
                nxt.append(g)
            except StopIteration:
                pass
        its = nxt


def run_driver(modname, tier, seed, nproc=None, budget_s=None):
    """Generic driver runner.

    A driver module defines
        CONTRACTS = {name: (domain, bound)}
        gen_cases(tier, seed) -> iterable of descriptors (JSON-able dicts, with key "contract")
        check_case(descriptor) -> {"fingerprint":..., "nontrivial":bool, "failures":[(obligation, what, features)], "sample":optional}
    """
    import importlib
    import multiprocessing as mp

    mod = importlib.import_module(modname)
    t0 = time.time()
    if budget_s is None:
        budget_s = float(os.environ.get("VERIF_BUDGET_S", 120 if tier == "quick" else 1500))
    recs = {k: Recorder(k, d, b) for k, (d, b) in mod.CONTRACTS.items()}
    nproc = nproc or int(os.environ.get("VERIF_NPROC", 12))
    chunk, chunks = [], []
    truncated = False
    gen = mod.gen_cases(tier, seed)
    CH = 40

    def consume(results, descs):
        for (kind, res), d in zip(results, descs):
            rec = recs[d["contract"]]
            if kind == "crash":
                rec.errors.append(res)
                continue
            rec.case(res["fingerprint"], res.get("nontrivial", True), res.get("sample"))
            for ob, what, feats in res.get("failures", ()):
                rec.fail(ob, what, d, feats)

    with mp.get_context("fork").Pool(nproc) as pool:
        pending = []
        for d in gen:
            chunk.append(d)
            if len(chunk) >= CH:
                pending.append((chunk, pool.apply_async(_worker, ((modname, chunk),))))
                chunk = []
            # drain finished chunks / keep the queue short
            while len(pending) > 4 * nproc:
                descs, ar_ = pending.pop(0)
                consume(ar_.get(), descs)
            if time.time() - t0 > budget_s:
                truncated = True
                break
        if chunk:
            pending.append((chunk, pool.apply_async(_worker, ((modname, chunk),))))
        for descs, ar_ in pending:
            if time.time() - t0 > budget_s * 1.5 + 20:
                truncated = True
                pool.terminate()
                break
            consume(ar_.get(), descs)
    return {
        "driver": modname,
        "tier": tier,
        "seed": seed,
        "wall_s": round(time.time() - t0, 2),
        "truncated_by_budget": truncated,
        "contracts": [r.result() for r in recs.values()],
    }


def driver_main(modname):
    import argparse

    ap = argparse.ArgumentParser()
    ap.add_argument("--tier", default="quick")
    ap.add_argument("--seed", type=int, default=0)
    ap.add_argument("--out", default=None)
    ap.add_argument("--replay", default=None, help="JSON file holding one descriptor")
    a = ap.parse_args()
    if a.replay:
        import importlib

        mod = importlib.import_module(modname)
        d = json.load(open(a.replay))
        d = d.get("descriptor", d)
        res = mod.check_case(d)
        print(json.dumps(res, default=str, indent=1))
        sys.exit(1 if res.get("failures") else 0)
    res = run_driver(modname, a.tier, a.seed)
    txt = json.dumps(res, default=str)
    if a.out:
        open(a.out, "w").write(txt)
    else:
        print(json.dumps(res, default=str, indent=1)[:6000])
