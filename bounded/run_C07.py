"""C07 (bounded, complete up to the stated bound for the axis-matching routine):
reshape only regroups axes and is undone by reshaping back.

(a) C07.reshape_plan: symmray.abelian_core.calc_reshape_args(shape, newshape, subsizes)
    against an independent shape-level interpreter (bounded/oracles_fuse.reshape_plan_apply).
(b) C07.reshape_array: x.reshape(newshape) on abelian and fermionic arrays.
"""

import itertools

import numpy as np

from bounded.common import *  # noqa: F401,F403
from bounded.common import (
    CHARGE_SETS,
    G,
    Invalid,
    arrays_equal,
    audit_valid,
    build_array,
    driver_main,
    jcharge,
    rand_index_spec,
    reachable_charges,
    spec_valid_sectors,
    sr,
    ucharge,
    val_blocks,
)
from bounded.oracles_fuse import (
    PlanError,
    axis_plan,
    compositions,
    fingerprint_of,
    ordered_group_families,
    reshape_plan_apply,
)

import symmray.abelian_core as _ac

CONTRACTS = {
    "C07.reshape_plan": (
        "calc_reshape_args(shape, newshape, subsizes): the returned plan (axes to unfuse, groupings to fuse, positions to "
        "expand), executed on `shape` by an independent shape-level interpreter, yields `newshape`; groups contiguous, "
        "disjoint, adjacent within a grouping; no exception.  shape over sizes {1,2,3,4,6}; newshape = any subset of the "
        "size-one axes dropped, any merging of adjacent axes, and up to two size-one axes added anywhere; subsizes all None, "
        "or (shapes with <= 3 axes, thorough <= 4) one or two axes carrying sub sizes (every ordered factorisation of the "
        "axis size into 2-3 factors from the alphabet, plus block-sparse ones whose product exceeds the size) with targets "
        "that keep or unfuse those axes and merge/drop/add around them",
        "quick: every shape with <= 4 axes (781 shapes) x every such newshape, 50% seeded sample of the 3125 five-axis "
        "shapes; thorough: every shape with <= 5 axes.  One evaluation = one (shape, merged/dropped target) pair together "
        "with all its added-ones variants, or one (shape, subsizes) pair with all its targets",
    ),
    "C07.reshape_array": (
        "x.reshape(newshape) for abelian and fermionic arrays of rank <= 4 (Z2, U1, Z4, Z2Z2, U1U1) incl. size-one axes with "
        "zero and non-zero charge, already fused axes, sparse sector sets, pending fermionic signs; newshape from the actual "
        "x.shape by dropping size-one axes, merging adjacent axes (product of the current sizes), adding size-one axes, or "
        "unfusing a fused axis: requested rank, no axis larger than requested, same total charge, Valid, same norm and same "
        "multiset of stored magnitudes; merged/squeezed shape and back == original (values, sectors, charges, directions, "
        "labels); reshape to the current shape is the identity",
        "quick: rank <= 3 exhaustive over a list of 8 index kinds per axis (two-charge, one-charge, size-one zero / non-zero "
        "charge, both directions) for Z2 and U1 (the other symmetries: rank <= 2; thorough: rank <= 3), abelian and fermionic, every total charge, sector sets all + seeded sparse, "
        "every drop/merge target; then 15000 VERIF_SEED-seeded random arrays of rank <= 4 over all symmetries incl. pre-fused "
        "axes (up to 6 drop/merge recipes each, every added-one position, unfuse requests); thorough: 300000 random arrays, "
        "<= 3 charges per index; stops at the time budget",
    ),
}

ALPHABET = (1, 2, 3, 4, 6)


# ----------------------------------------------------------------------------
# (a) plan level


def base_targets(shape):
    """Every shape obtained by dropping any subset of the size-one axes and merging
    adjacent axes (deduplicated, deterministic order)."""
    n = len(shape)
    ones = [i for i, s in enumerate(shape) if s == 1]
    out = []
    seen = set()
    for k in range(len(ones) + 1):
        for drop in itertools.combinations(ones, k):
            kept = [s for i, s in enumerate(shape) if i not in drop]
            for comp in compositions(len(kept)):
                t, i = [], 0
                for ln in comp:
                    p = 1
                    for s in kept[i : i + ln]:
                        p *= s
                    t.append(p)
                    i += ln
                t = tuple(t)
                if t not in seen:
                    seen.add(t)
                    out.append(t)
    return out


def with_added_ones(t, max_add=2):
    seen = {t}
    out = [t]
    frontier = [t]
    for _ in range(max_add):
        nxt = []
        for u in frontier:
            for p in range(len(u) + 1):
                v = u[:p] + (1,) + u[p:]
                if v not in seen:
                    seen.add(v)
                    out.append(v)
                    nxt.append(v)
        frontier = nxt
    return out


def subsize_options(s):
    """Ordered factorisations of s into 2-3 alphabet factors, plus four block-sparse
    options (product larger than the size)."""
    exact = []
    for ln in (2, 3):
        for f in itertools.product(ALPHABET, repeat=ln):
            if int(np.prod(f)) == s:
                exact.append(tuple(f))
    sparse = sorted(
        (f for f in itertools.product(ALPHABET, repeat=2) if f[0] * f[1] > s and 1 not in f),
        key=lambda f: (f[0] * f[1], f),
    )[:4]
    return exact + sparse


def _contains_subsizes(newshape, subsizes):
    for sb in subsizes:
        if sb is not None and any(tuple(newshape[j : j + len(sb)]) == tuple(sb) for j in range(len(newshape) - len(sb) + 1)):
            return True
    return False


def _plan_failures(shape, newshape, subsizes, extra=None, out=None):
    """failures of one call; `out`, if given, receives the tracked (shape, subsizes) after the plan"""
    fails = _plan_failures_(shape, newshape, subsizes, out)
    for f in fails:
        f[2].update(extra or {})
    return fails


def _plan_failures_(shape, newshape, subsizes, out):
    try:
        plan = _ac.calc_reshape_args(tuple(shape), tuple(newshape), tuple(subsizes))
    except Exception as e:  # noqa: BLE001
        return [
            (
                "C07.plan_no_exception",
                f"calc_reshape_args({tuple(shape)}, {tuple(newshape)}, {tuple(subsizes)}) raised {type(e).__name__}: {e}",
                {"exception": type(e).__name__, "target_empty": len(newshape) == 0, "has_subsizes": any(s is not None for s in subsizes)},
            )
        ]
    try:
        got, subs_after = reshape_plan_apply(shape, subsizes, plan, track=True)
        if out is not None:
            out.append((got, subs_after))
    except PlanError as e:
        return [
            (
                "C07.plan_wellformed",
                f"calc_reshape_args({tuple(shape)}, {tuple(newshape)}, {tuple(subsizes)}) = {plan}: {e}",
                {"has_subsizes": any(s is not None for s in subsizes)},
            )
        ]
    if got != tuple(newshape):
        return [
            (
                "C07.plan_reaches_target",
                f"calc_reshape_args({tuple(shape)}, {tuple(newshape)}, {tuple(subsizes)}) = {plan} yields {got}",
                {"has_subsizes": any(s is not None for s in subsizes)},
            )
        ]
    return []


def _gen_plan_cases(tier, seed):
    quick = tier == "quick"
    rng = np.random.default_rng([seed, 71])
    for n in range(0, 6):
        for shape in itertools.product(ALPHABET, repeat=n):
            if n == 5 and quick and rng.random() >= 0.5:
                continue
            for t in base_targets(shape):
                yield {"contract": "C07.reshape_plan", "shape": list(shape), "base": list(t)}
    # identity requests on shapes with fused axes (exact and block-sparse sub sizes)
    maxn = 3 if quick else 4
    for n in range(1, maxn + 1):
        for shape in itertools.product(ALPHABET, repeat=n):
            yield {"contract": "C07.reshape_plan", "shape": list(shape), "identity_with_subsizes": True}


def _check_plan(d):
    shape = tuple(d["shape"])
    fails = []
    n = 0
    none = (None,) * len(shape)
    if d.get("identity_with_subsizes"):
        for k in (1, 2):
            for axes in itertools.combinations(range(len(shape)), k):
                for combo in itertools.product(*[subsize_options(shape[a]) for a in axes]):
                    subs = [None] * len(shape)
                    for a, f in zip(axes, combo):
                        subs[a] = f
                    subs = tuple(subs)
                    n += 1
                    fails.extend(
                        _plan_failures(shape, shape, subs, {"kind": "identity", "target_contains_subsizes": _contains_subsizes(shape, subs)})
                    )
        fp = ("plan-identity", shape)
    else:
        for t in with_added_ones(tuple(d["base"]), 2):
            n += 1
            out = []
            added = len(t) - len(d["base"])
            fails.extend(_plan_failures(shape, t, none, {"kind": "forward", "added_ones": added}, out))
            if out and out[0][0] == t and added <= 1:
                # and back: the shape and sub sizes the forward plan produces, asked to return to `shape`
                n += 1
                t1, subs1 = out[0]
                fails.extend(
                    _plan_failures(t1, shape, subs1, {"kind": "back", "added_ones": added, "target_contains_subsizes": False})
                )
        fp = ("plan", shape, tuple(d["base"]))
    return {"fingerprint": repr(fp), "nontrivial": True, "failures": fails[:5], "sample": {"shape": list(shape), "n_targets": n}}


# ----------------------------------------------------------------------------
# (b) array level

INDEX_KINDS = {
    "Z2": [[[0, 2], [1, 1]], [[1, 2]], [[0, 1]], [[1, 1]]],
    "U1": [[[0, 2], [1, 1]], [[-1, 2]], [[0, 1]], [[1, 1]]],
    "Z4": [[[1, 2], [3, 1]], [[2, 2]], [[0, 1]], [[3, 1]]],
    "Z2Z2": [[[[0, 1], 2], [[1, 0], 1]], [[[1, 1], 2]], [[[0, 0], 1]], [[[1, 0], 1]]],
    "U1U1": [[[[0, 1], 2], [[1, 0], 1]], [[[-1, 1], 2]], [[[0, 0], 1]], [[[1, -1], 1]]],
}


def _array_specs(sym, fermionic, ispecs, rng, fill_seed, static, dtype="float64"):
    for charge in reachable_charges(sym, ispecs):
        base = {
            "sym": sym,
            "fermionic": fermionic,
            "static": static and sym != "Z4",
            "indices": ispecs,
            "charge": jcharge(charge),
            "fill_seed": fill_seed,
            "dtype": dtype,
        }
        if fermionic and G.par(sym, charge):
            base["oddpos"] = 5
        valid = spec_valid_sectors(base)
        if not valid:
            continue
        yield dict(base, sectors="all")
        if len(valid) > 1:
            keep = [s for s in valid if rng.random() < 0.5] or [valid[0]]
            if len(keep) < len(valid):
                yield dict(base, sectors=[[jcharge(c) for c in s] for s in keep])


def _recipes(sizes_hint):
    """drop masks over (possibly) size-one axes x merge masks over the gaps"""
    n = len(sizes_hint)
    ones = [i for i, s in enumerate(sizes_hint) if s == 1 or s is None]
    for k in range(len(ones) + 1):
        for drop in itertools.combinations(ones, k):
            m = n - len(drop)
            for comp in compositions(m):
                yield {"drop": list(drop), "merge": list(comp)}


def _gen_array_cases(tier, seed):
    quick = tier == "quick"
    n = 0
    for sym in ("Z2", "U1", "Z4", "Z2Z2", "U1U1"):
        for fermionic in (False, True):
            rng = np.random.default_rng([seed, 72, int(fermionic), ("Z2", "U1", "Z4", "Z2Z2", "U1U1").index(sym)])
            for nd in (1, 2, 3) if (sym in ("Z2", "U1") or not quick) else (1, 2):
                for kinds in itertools.product(range(4), repeat=nd):
                    for duals in itertools.product((False, True), repeat=nd):
                        ispecs = [{"cm": INDEX_KINDS[sym][k], "dual": dl} for k, dl in zip(kinds, duals)]
                        sizes = [sum(s for _, s in i["cm"]) for i in ispecs]
                        n += 1
                        for spec in _array_specs(sym, fermionic, ispecs, rng, n, static=bool(n % 2)):
                            for rec in _recipes(sizes):
                                yield {"contract": "C07.reshape_array", "a": spec, "recipe": rec}
    # random: all symmetries, rank <= 4, pre-fused axes
    rng = np.random.default_rng([seed, 73])
    N = 15000 if quick else 300000
    syms = ("Z2", "U1", "Z4", "Z2Z2", "U1U1")
    for i in range(N):
        sym = syms[int(rng.integers(0, 5))]
        fermionic = bool(rng.integers(0, 2))
        nd = int(rng.choice([2, 3, 4, 4]))
        ispecs = []
        for _ in range(nd):
            r = rng.random()
            pool = CHARGE_SETS[sym]
            if r < 0.2:
                ispecs.append({"cm": [[jcharge(G.zero(sym)), 1]], "dual": bool(rng.integers(0, 2))})
            elif r < 0.4:
                ispecs.append({"cm": [[jcharge(pool[int(rng.integers(0, len(pool)))]), 1]], "dual": bool(rng.integers(0, 2))})
            else:
                ispecs.append(rand_index_spec(rng, sym, 2 if quick else 3, (1, 2, 3)))
        dtype = str(rng.choice(["float64", "float64", "complex128", "float32"]))
        specs = list(_array_specs(sym, fermionic, ispecs, rng, int(rng.integers(1, 2**31 - 1)), static=bool(rng.integers(0, 2)), dtype=dtype))
        if not specs:
            continue
        spec = specs[int(rng.integers(0, len(specs)))]
        sizes = [sum(s for _, s in i["cm"]) for i in ispecs]
        pre = None
        if rng.random() < 0.5 and nd >= 2:
            fams = [f for f in ordered_group_families(nd) if any(len(g) > 1 for g in f)]
            pre = fams[int(rng.integers(0, len(fams)))]
            spec = dict(spec, pre_ops=[["fuse", pre]])
            position, before, after, _ = axis_plan(nd, pre)
            sizes = [sizes[a] for a in before] + [None if len(g) > 1 else sizes[g[0]] for g in pre] + [sizes[a] for a in after]
        recs = list(_recipes(sizes))
        pick = rng.choice(len(recs), size=min(len(recs), 6), replace=False)
        for j in sorted(pick.tolist()):
            yield {"contract": "C07.reshape_array", "a": spec, "recipe": recs[j]}
        if pre:
            yield {"contract": "C07.reshape_array", "a": spec, "recipe": {"unfuse": True}}


def _mags(x):
    vs = [np.abs(np.asarray(b)).ravel() for b in x.blocks.values()]
    if not vs:
        return np.zeros(0)
    v = np.concatenate(vs).astype("float64")
    return np.sort(v[v != 0])


def _norm2(x):
    # integer-valued data: real^2 + imag^2 summed in float64 is exact
    tot = 0.0
    for b in x.blocks.values():
        b = np.asarray(b)
        tot += float(np.sum(b.real.astype("float64") ** 2)) + float(np.sum(b.imag.astype("float64") ** 2))
    return tot


def _forward_failures(x, y, newshape):
    out = []
    if len(y.indices) != len(newshape):
        out.append(("C07.requested_rank", f"reshape{tuple(newshape)} of shape {x.shape} has {len(y.indices)} axes"))
        return out
    ys = tuple(sum(ix.chargemap.values()) for ix in y.indices)
    if any(a > b for a, b in zip(ys, newshape)):
        out.append(("C07.axis_not_larger", f"reshape{tuple(newshape)} of shape {x.shape} has shape {ys}"))
    if y.charge != x.charge:
        out.append(("C07.total_charge", f"total charge {x.charge!r} -> {y.charge!r}"))
    try:
        audit_valid(y)
    except Invalid as e:
        out.append(("C07.valid", f"reshape{tuple(newshape)} of shape {x.shape}: {e}"))
    if _norm2(x) != _norm2(y):
        out.append(("C07.same_norm", f"reshape{tuple(newshape)} of shape {x.shape}: squared norm {_norm2(x)} -> {_norm2(y)}"))
    mx, my = _mags(x), _mags(y)
    if mx.shape != my.shape or not np.array_equal(mx, my):
        out.append(("C07.same_magnitudes", f"reshape{tuple(newshape)} of shape {x.shape}: multiset of stored magnitudes changed"))
    return out


def _check_array(d):
    spec = d["a"]
    rec = d["recipe"]
    x = build_array(spec)
    shape = tuple(sum(ix.chargemap.values()) for ix in x.indices)
    fails = []
    fermionic = bool(spec["fermionic"])
    feats0 = {
        "sym": spec["sym"],
        "fermionic": fermionic,
        "ndim": len(shape),
        "has_fused_axis": any(ix.subinfo is not None for ix in x.indices),
        "has_charged_singleton": any(sum(ix.chargemap.values()) == 1 and list(ix.chargemap)[0] != G.zero(spec["sym"]) for ix in x.indices),
        "fused_size_one_axis": any(ix.subinfo is not None and sum(ix.chargemap.values()) == 1 for ix in x.indices),
        "sparse": spec.get("sectors", "all") != "all",
    }

    def add(ob, what, **kw):
        f = dict(feats0)
        f.update(kw)
        fails.append((ob, what, f))

    if tuple(x.shape) != shape:
        add("C07.shape_attribute", f"x.shape {x.shape} != per-axis totals {shape}")

    targets = []  # (newshape, roundtrip?)
    degenerate = False
    if rec.get("unfuse"):
        # request every fused axis unfused (sub sizes verbatim), one at a time and all together
        fused = [i for i, ix in enumerate(x.indices) if ix.subinfo is not None]
        if not fused:
            degenerate = True
        for sel in [[f] for f in fused] + ([fused] if len(fused) > 1 else []):
            t = []
            for i, ix in enumerate(x.indices):
                if i in sel:
                    t.extend(sum(s.chargemap.values()) for s in ix.subinfo.indices)
                else:
                    t.append(shape[i])
            targets.append((tuple(t), False, ("unfuse", tuple(sel))))
    else:
        drop = rec["drop"]
        if any(a >= len(shape) or shape[a] != 1 for a in drop):
            degenerate = True
        else:
            kept = [s for i, s in enumerate(shape) if i not in drop]
            if sum(rec["merge"]) != len(kept):
                degenerate = True
            else:
                t, i = [], 0
                for ln in rec["merge"]:
                    p = 1
                    for s in kept[i : i + ln]:
                        p *= s
                    t.append(p)
                    i += ln
                t = tuple(t)
                targets.append((t, True, "merge/drop"))
                for p in range(len(t) + 1):
                    targets.append((t[:p] + (1,) + t[p:], False, "add"))
                targets.append(((1,) + t + (1,), False, "add"))
    if degenerate:
        return {"fingerprint": "degenerate", "nontrivial": False, "failures": [], "sample": None}

    def contains_subsizes(newshape, arr=None, skip=()):
        """some fused axis (other than those the request means to unfuse) has sub sizes that occur as a
        contiguous slice of the target: the request is ambiguous for a matcher that looks at sizes only"""
        arr = x if arr is None else arr
        subs = [
            None if (ix.subinfo is None or i in skip) else tuple(sum(t.chargemap.values()) for t in ix.subinfo.indices)
            for i, ix in enumerate(arr.indices)
        ]
        return _contains_subsizes(newshape, subs)

    for newshape, roundtrip, kind in targets:
        if isinstance(kind, tuple):
            kind, sel = kind
            feats0["target_contains_subsizes"] = contains_subsizes(newshape, skip=sel)
        else:
            feats0["target_contains_subsizes"] = contains_subsizes(newshape)
        try:
            y = x.reshape(newshape)
        except Exception as e:  # noqa: BLE001
            add(
                "C07.no_exception",
                f"reshape{newshape} of shape {shape} raised {type(e).__name__}: {e}",
                exception=type(e).__name__,
                target_empty=len(newshape) == 0,
                kind=kind,
            )
            continue
        for ob, what in _forward_failures(x, y, newshape):
            add(ob, what, kind=kind, target_empty=len(newshape) == 0)
        if roundtrip:
            fwd = feats0["target_contains_subsizes"]
            # sub sizes of axes fused by the forward trip match the original shape on purpose; only the
            # fused axes x already had can be matched by accident on the way back
            feats0["target_contains_subsizes"] = bool(fwd or contains_subsizes(shape))
            try:
                z = y.reshape(shape)
            except Exception as e:  # noqa: BLE001
                add("C07.back_no_exception", f"reshape{newshape} then reshape{shape} raised {type(e).__name__}: {e}", exception=type(e).__name__, kind=kind)
                continue
            ok, why = arrays_equal(z, x, exact=True, check_subinfo=False, why=True)
            if not ok:
                add("C07.there_and_back", f"shape {shape} -> {newshape} -> {shape}: {why}", kind=kind, forward_target_contains_subsizes=fwd)
            else:
                for s, b in x.blocks.items():
                    if s not in z.blocks:
                        add("C07.there_and_back", f"shape {shape} -> {newshape} -> {shape}: stored block {s!r} lost", kind=kind)
                        break
                    if np.asarray(z.blocks[s]).dtype != np.asarray(b).dtype:
                        add("C07.there_and_back", f"shape {shape} -> {newshape} -> {shape}: dtype changed", kind=kind)
                        break
    # identity
    feats0["target_contains_subsizes"] = contains_subsizes(shape)
    try:
        w = x.reshape(shape)
        ok, why = arrays_equal(w, x, exact=True, check_subinfo=True, why=True)
        if not ok:
            ok2 = arrays_equal(w, x, exact=True, check_subinfo=False)
            add("C07.identity", f"reshape to the current shape {shape}: {why}", only_subinfo_differs=bool(ok2))
    except Exception as e:  # noqa: BLE001
        add("C07.no_exception", f"reshape{shape} (current shape) raised {type(e).__name__}: {e}", exception=type(e).__name__, kind="identity", target_empty=len(shape) == 0)

    fp = fingerprint_of({"a": spec, "targets": [list(t[0]) for t in targets]})
    return {
        "fingerprint": fp,
        "nontrivial": len(x.blocks) > 0,
        "failures": fails[:6],
        "sample": {"sym": spec["sym"], "fermionic": fermionic, "shape": list(shape), "targets": [list(t[0]) for t in targets][:4], "n_targets": len(targets)},
    }


def gen_cases(tier, seed):
    yield from _gen_plan_cases(tier, seed)
    yield from _gen_array_cases(tier, seed)


def check_case(d):
    if d["contract"] == "C07.reshape_plan":
        return _check_plan(d)
    return _check_array(d)


if __name__ == "__main__":
    driver_main("bounded.run_C07")
