"""Independent Z2-graded (Grassmann) tensor calculator: oracles of C03 / C04 / C10.

Nothing in here calls symmray.  Two evaluators are provided which share no sign
logic with each other:

`GT` + `g_*`      elementwise graded-dense calculator, vectorised over numpy arrays
                  (sign *arrays* built from per-axis position parities).
`bf_eval`         absolute brute force: every tensor is expanded into monomials of
                  anticommuting generators (one per (leg, position), one per label),
                  polynomials are multiplied in the free algebra and reduced with
                  only two rules
                     R1  adjacent generators swap; sign -1 iff both are odd
                     R2  an adjacent pair of generators of the two ends of one bond
                         (or a label and its conjugate) at the same position is
                         replaced by 1 for bra-then-ket, by (-1)^parity for
                         ket-then-bra; different positions give 0.

Model (derived from the statement of C03 and the docstrings of tensordot_fermionic,
conj, fuse and resolve_combined_oddpos)
-----------------------------------------------------------------------------------
A fermionic array with dense elements D[i1..in], labels l1..lm is the algebra element

        T = sum_i  D[i1..in] * l1 l2 .. lm * e1(i1) e2(i2) .. en(in)

where ek(p) is odd iff position p of axis k belongs to a charge of odd parity,
every label generator is odd, a non-dual axis / label is a ket, a dual one a bra.
If len(labels) has the parity of the total charge T is an even element, so tensors
commute and a network has a value independent of the order of its tensors.
Contracting a bond is the linear functional that brings the two generators of the
bond next to each other (R1) and evaluates the pair (R2).  The result is reported
with its labels normal-ordered at the left (dual labels first in decreasing label
order, then non-dual labels in increasing order, conjugate pairs contracted) and its
dangling generators in the requested axis order.
"""

import functools
import itertools

import numpy as np

# ----------------------------------------------------------------------------
# label words: tuples of (label, dual)


def lab_before(a, b):
    """Strict order documented for FermionicOperator: dual (creation) operators
    stand left of non-dual ones; duals in decreasing label order, non-duals in
    increasing label order."""
    (la, da), (lb, db) = a, b
    if da != db:
        return bool(da)
    if da:
        return la > lb
    return la < lb


def _cmp(a, b):
    if lab_before(a, b):
        return -1
    if lab_before(b, a):
        return 1
    return 0


def nf_labels(word):
    """Canonical normal form of a word of (odd) label generators.

    Returns (sign, word').  Every conjugate pair is contracted (the later one is
    moved next to the earlier one, -1 per generator crossed, then R2: -1 iff the
    pair stands ket-then-bra, i.e. the second is dual), the rest is sorted with
    the sign of the sorting permutation."""
    w = [(l, bool(d)) for l, d in word]
    sign = 1
    while True:
        found = None
        for i in range(len(w)):
            for j in range(i + 1, len(w)):
                if w[i][0] == w[j][0]:
                    found = (i, j)
                    break
            if found:
                break
        if not found:
            break
        i, j = found
        if w[i][1] == w[j][1]:
            raise ValueError(f"label generator {w[i]!r} repeated")
        if (j - i - 1) % 2:
            sign = -sign
        if w[j][1]:
            sign = -sign
        del w[j]
        del w[i]
    n = len(w)
    inv = 0
    for i in range(n):
        for j in range(i + 1, n):
            if lab_before(w[j], w[i]):
                inv += 1
    if inv % 2:
        sign = -sign
    w.sort(key=functools.cmp_to_key(_cmp))
    return sign, tuple(w)


def labels_dag(word):
    """Adjoint of a label word: reversed, every generator conjugated."""
    return tuple((l, not d) for l, d in reversed(tuple(word)))


# ----------------------------------------------------------------------------
# elementwise graded dense tensors


class GT:
    """Graded dense tensor: D (ndarray), par (per axis: int array of 0/1 per
    position), dual (per axis bool; True = bra), labels (word of (label, dual)
    standing left of the index generators)."""

    __slots__ = ("D", "par", "dual", "labels")

    def __init__(self, D, par, dual, labels=()):
        self.D = np.asarray(D)
        self.par = tuple(np.asarray(p, dtype=np.int64) for p in par)
        self.dual = tuple(bool(d) for d in dual)
        self.labels = tuple((l, bool(d)) for l, d in labels)
        assert self.D.ndim == len(self.par) == len(self.dual)
        for k, p in enumerate(self.par):
            assert p.shape == (self.D.shape[k],), (p.shape, self.D.shape, k)

    @property
    def ndim(self):
        return self.D.ndim

    def copy(self):
        return GT(self.D.copy(), self.par, self.dual, self.labels)


def _along(vec, ax, n):
    shape = [1] * n
    shape[ax] = -1
    return np.asarray(vec).reshape(shape)


def _total_parity(t):
    """array (broadcastable to D.shape) of the parity of every element position."""
    n = t.ndim
    tot = np.zeros([1] * n, dtype=np.int64) if n else np.zeros((), dtype=np.int64)
    for ax in range(n):
        tot = tot + _along(t.par[ax], ax, n)
    return tot % 2


def g_transpose(t, perm):
    """Graded transpose: new axis k is old axis perm[k]; every element is multiplied
    by (-1)^(number of inversions among its odd positions)."""
    n = t.ndim
    perm = tuple(int(p) for p in perm)
    assert sorted(perm) == list(range(n))
    D = t.D
    for k in range(n):
        for l in range(k + 1, n):
            u, v = perm[k], perm[l]
            if u > v:
                both = _along(t.par[u], u, n) * _along(t.par[v], v, n)
                D = D * (1 - 2 * both)
    return GT(
        np.transpose(D, perm),
        [t.par[p] for p in perm],
        [t.dual[p] for p in perm],
        t.labels,
    )


def g_phase_flip(t, axs):
    """Multiply every element by (-1)^(sum of the parities of its positions on axs)."""
    n = t.ndim
    D = t.D
    for ax in axs:
        D = D * (1 - 2 * _along(t.par[ax % n], ax % n, n))
    return GT(D, t.par, t.dual, t.labels)


def g_scale(t, s):
    return GT(t.D * s, t.par, t.dual, t.labels)


def g_contract(a, b, axes_a, axes_b):
    """Contraction  a[axes_a[j]] with b[axes_b[j]]  per the C03 statement.

    L_a A L_b B: the labels of b cross all of A ((-1)^(|A| len(L_b)) per element),
    a is transposed to [left.., x1..xk], b to [xk..x1, right..] so that the pairs
    are adjacent innermost first, every pair is evaluated (+1 for bra-ket,
    (-1)^parity for ket-bra), the label word is normal-ordered."""
    axes_a = [int(x) % a.ndim for x in axes_a] if a.ndim else []
    axes_b = [int(x) % b.ndim for x in axes_b] if b.ndim else []
    assert len(axes_a) == len(axes_b)
    k = len(axes_a)
    left = [i for i in range(a.ndim) if i not in axes_a]
    right = [i for i in range(b.ndim) if i not in axes_b]
    A = g_transpose(a, left + axes_a)
    B = g_transpose(b, axes_b[::-1] + right)
    nl = len(left)
    DA = A.D
    for j in range(k):
        axa = nl + j
        axb = k - 1 - j
        if A.dual[axa] == B.dual[axb]:
            raise ValueError("contracted legs have the same direction")
        if not np.array_equal(A.par[axa], B.par[axb]):
            raise ValueError("contracted legs have different parity structure")
        if not A.dual[axa]:
            # ket (from a) then bra (from b)
            DA = DA * (1 - 2 * _along(A.par[axa], axa, A.ndim))
    if len(b.labels) % 2:
        DA = DA * (1 - 2 * _total_parity(A))
    C = np.tensordot(DA, B.D, axes=(list(range(nl, nl + k)), list(range(k - 1, -1, -1))))
    s, w = nf_labels(a.labels + b.labels)
    return GT(
        C * s,
        [A.par[i] for i in range(nl)] + [B.par[i] for i in range(k, B.ndim)],
        [A.dual[i] for i in range(nl)] + [B.dual[i] for i in range(k, B.ndim)],
        w,
    )


def g_trace(t):
    """Matrix trace: <i|i> summed; a ket-bra pair costs (-1)^parity; two kets or two
    bras cannot be traced."""
    if t.ndim != 2:
        raise ValueError("trace needs a matrix")
    d0, d1 = t.dual
    if d0 == d1:
        raise ValueError("cannot trace two legs of the same direction")
    diag = np.diagonal(t.D)
    if not d0:
        diag = diag * (1 - 2 * t.par[0])
    return diag.sum()


def g_einsum(t, lhs, rhs):
    """Single tensor einsum with traces and a final permutation.  Every traced pair
    (u < v) is brought to the front as [u, v] by a graded transpose and evaluated."""
    n = t.ndim
    assert len(lhs) == n
    pairs = []
    for c in dict.fromkeys(lhs):
        if c not in rhs:
            js = [i for i, q in enumerate(lhs) if q == c]
            if len(js) != 2:
                raise ValueError("can only trace pairs")
            pairs.append(tuple(js))
    kept = [lhs.index(c) for c in rhs]
    perm = [x for pr in pairs for x in pr] + kept
    T = g_transpose(t, perm)
    D = T.D
    for j, (u, v) in enumerate(pairs):
        if T.dual[2 * j] == T.dual[2 * j + 1]:
            raise ValueError("traced legs have the same direction")
        if not T.dual[2 * j]:
            D = D * (1 - 2 * _along(T.par[2 * j], 2 * j, n))
    letters = "abcdefghijklmnopqrstuvwxyz"
    sub = []
    for j in range(len(pairs)):
        sub += [letters[j], letters[j]]
    outl = [letters[len(pairs) + i] for i in range(len(kept))]
    D = np.einsum("".join(sub + outl) + "->" + "".join(outl), D)
    m = 2 * len(pairs)
    return GT(D, T.par[m:], T.dual[m:], t.labels)


def g_dagger(t):
    """Grassmann adjoint (sum D l1..lm e1..en)^+ = sum conj(D) en^+..e1^+ lm^+..l1^+,
    reported with the labels moved back to the left ((-1)^(|A| m) per element)."""
    n = t.ndim
    D = np.conj(t.D)
    if len(t.labels) % 2:
        D = D * (1 - 2 * _total_parity(t))
    return GT(
        np.transpose(D, tuple(range(n - 1, -1, -1))),
        t.par[::-1],
        [not d for d in t.dual[::-1]],
        labels_dag(t.labels),
    )


def g_network(tensors, legs, out):
    """Fold a network left to right with the elementwise calculator.  `legs[i]` are
    the names of the axes of tensors[i]; a name on two axes is a bond; `out` lists
    the dangling names in the wanted order."""
    cur, cl = None, None
    for t, lg in zip(tensors, legs):
        lg = list(lg)
        t, lg = _g_self_trace(t, lg)
        if cur is None:
            cur, cl = t, lg
            continue
        shared = [x for x in cl if x in lg]
        cur = g_contract(cur, t, [cl.index(x) for x in shared], [lg.index(x) for x in shared])
        cl = [x for x in cl if x not in shared] + [x for x in lg if x not in shared]
        cur, cl = _g_self_trace(cur, cl)
    assert sorted(map(repr, cl)) == sorted(map(repr, out)), (cl, out)
    return g_transpose(cur, [cl.index(x) for x in out])


def _g_self_trace(t, lg):
    dup = [x for x in dict.fromkeys(lg) if lg.count(x) == 2]
    if not dup:
        return t, lg
    names = list(dict.fromkeys(lg))
    letters = {x: "abcdefghijklmnopqrstuvwxyz"[i] for i, x in enumerate(names)}
    lhs = "".join(letters[x] for x in lg)
    keep = [x for x in lg if x not in dup]
    rhs = "".join(letters[x] for x in keep)
    return g_einsum(t, lhs, rhs), keep


# ----------------------------------------------------------------------------
# brute force in the free anticommuting algebra
#
# generator = (odd, name, pos, dual)     name: ("L", label) for labels, else
#                                        the bond / leg name;  pos None for labels


def _tensor_poly(t, lg):
    lab = tuple((1, ("L", l), None, d) for l, d in t.labels)
    poly = {}
    if t.ndim == 0:
        if t.D != 0:
            poly[lab] = t.D[()]
        return poly
    for idx in np.argwhere(t.D != 0):
        idx = tuple(int(i) for i in idx)
        word = lab + tuple((int(t.par[k][p]), lg[k], p, t.dual[k]) for k, p in enumerate(idx))
        poly[word] = t.D[idx]
    return poly


def _poly_mul(P, Q):
    out = {}
    for wp, cp in P.items():
        for wq, cq in Q.items():
            w = wp + wq
            out[w] = out.get(w, 0) + cp * cq
    return out


def _move_left(word, j, i):
    """Move generator at j to position i (< = j) by adjacent swaps (R1).  Returns sign."""
    w = list(word)
    sign = 1
    while j > i:
        if w[j][0] and w[j - 1][0]:
            sign = -sign
        w[j], w[j - 1] = w[j - 1], w[j]
        j -= 1
    return sign, w


def _contract_name(P, name):
    out = {}
    for word, c in P.items():
        js = [i for i, g in enumerate(word) if g[1] == name]
        assert len(js) == 2, (name, word)
        i, j = js
        gi, gj = word[i], word[j]
        if gi[2] != gj[2]:
            continue
        assert gi[0] == gj[0], "bond ends of different parity"
        if gi[3] == gj[3]:
            raise ValueError("bond ends have the same direction")
        sign, w = _move_left(word, j, i + 1)
        # R2 on the adjacent pair w[i], w[i+1]
        if w[i][0] and (not w[i][3]) and w[i + 1][3]:
            sign = -sign
        del w[i + 1]
        del w[i]
        w = tuple(w)
        out[w] = out.get(w, 0) + sign * c
    return {w: c for w, c in out.items() if c != 0}


def _bf_label_nf(labs):
    """Normal-order a list of label generators using only R1 / R2."""
    w = list(labs)
    sign = 1
    changed = True
    while changed:
        changed = False
        for i in range(len(w)):
            for j in range(i + 1, len(w)):
                if w[i][1] == w[j][1]:
                    if w[i][3] == w[j][3]:
                        raise ValueError("label generator repeated")
                    s, w = _move_left(w, j, i + 1)
                    sign *= s
                    if (not w[i][3]) and w[i + 1][3]:
                        sign = -sign
                    del w[i + 1]
                    del w[i]
                    changed = True
                    break
            if changed:
                break
    # bubble sort with adjacent swaps
    done = False
    while not done:
        done = True
        for i in range(len(w) - 1):
            x = (w[i][1][1], w[i][3])
            y = (w[i + 1][1][1], w[i + 1][3])
            if lab_before(y, x):
                w[i], w[i + 1] = w[i + 1], w[i]
                sign = -sign
                done = False
    return sign, tuple((g[1][1], bool(g[3])) for g in w)


def bf_eval(tensors, legs, out, eager=False, max_terms=200000):
    """Absolute value of a network.  Returns {label_word: ndarray over `out`}.
    With eager=True bonds are contracted as soon as both ends are present and like
    terms merged (same value, smaller intermediates)."""
    legs = [list(l) for l in legs]
    allnames = [x for lg in legs for x in lg]
    bonds = [x for x in dict.fromkeys(allnames) if allnames.count(x) == 2]
    dangling = [x for x in allnames if allnames.count(x) == 1]
    assert sorted(map(repr, dangling)) == sorted(map(repr, out)), (dangling, out)
    shapes = {}
    for t, lg in zip(tensors, legs):
        for k, x in enumerate(lg):
            shapes[x] = t.D.shape[k]
    P = {(): 1}
    seen = []
    todo = list(bonds)
    for t, lg in zip(tensors, legs):
        P = _poly_mul(P, _tensor_poly(t, lg))
        if len(P) > max_terms:
            raise MemoryError("brute force too large")
        seen += lg
        if eager:
            for x in list(todo):
                if seen.count(x) == 2:
                    P = _contract_name(P, x)
                    todo.remove(x)
    for x in todo:
        P = _contract_name(P, x)
    dtype = np.result_type(*[t.D.dtype for t in tensors])
    res = {}
    oshape = tuple(shapes[x] for x in out)
    for word, c in P.items():
        w = list(word)
        sign = 1
        # labels to the left, keeping their relative order
        nlab = 0
        for j in range(len(w)):
            if w[j][2] is None:
                s, w = _move_left(w, j, nlab)
                sign *= s
                nlab += 1
        s, lw = _bf_label_nf(w[:nlab])
        sign *= s
        rest = w[nlab:]
        # bubble the dangling generators into the order `out`
        order = {repr(x): i for i, x in enumerate(out)}
        done = False
        while not done:
            done = True
            for i in range(len(rest) - 1):
                if order[repr(rest[i][1])] > order[repr(rest[i + 1][1])]:
                    if rest[i][0] and rest[i + 1][0]:
                        sign = -sign
                    rest[i], rest[i + 1] = rest[i + 1], rest[i]
                    done = False
        pos = tuple(g[2] for g in rest)
        arr = res.get(lw)
        if arr is None:
            arr = res[lw] = np.zeros(oshape, dtype=dtype)
        arr[pos] += sign * c
    return res


def bf_cost(tensors):
    n = 1
    for t in tensors:
        n *= max(1, int(np.count_nonzero(t.D)))
    return n


def bf_matches(res, gt):
    """Does the brute-force result equal the graded tensor `gt` (labels + elements)?"""
    nz = {w: a for w, a in res.items() if np.any(a != 0)}
    if not nz:
        return not np.any(gt.D != 0)
    if len(nz) != 1:
        return False
    ((w, a),) = nz.items()
    return w == gt.labels and a.shape == gt.D.shape and np.array_equal(a, gt.D)


# ----------------------------------------------------------------------------
# adapters to the shared infrastructure (read attributes of symmray objects through
# bounded.common's independent densifier; never call symmray operations)


def axis_parities(sym, chargemap):
    from bounded.common import G

    cs = sorted(chargemap)
    return np.repeat(
        np.array([G.par(sym, c) for c in cs], dtype=np.int64),
        [int(chargemap[c]) for c in cs],
    )


def gt_of(x, sym):
    """Graded tensor of a symmray fermionic array (pending signs included)."""
    from bounded.common import dense_of, labels_of

    return GT(
        dense_of(x),
        [axis_parities(sym, ix.chargemap) for ix in x.indices],
        [ix.dual for ix in x.indices],
        labels_of(x),
    )


def spec_cm(ispec):
    from bounded.common import ucharge

    return {ucharge(c): int(s) for c, s in ispec["cm"]}


def embed_dense(x, exp_indices, dtype=None):
    """Dense view of x laid out on the *expected* indices (contractions may drop
    charges that no stored block uses; those slices are zero)."""
    from bounded.common import val_blocks

    offs = []
    for ispec in exp_indices:
        cm = spec_cm(ispec)
        d, o = {}, 0
        for c in sorted(cm):
            d[c] = (o, cm[c])
            o += cm[c]
        offs.append((d, o))
    vb = val_blocks(x)
    if dtype is None:
        dtype = np.result_type(*[b.dtype for b in vb.values()]) if vb else np.float64
    out = np.zeros(tuple(o for _, o in offs), dtype=dtype)
    for s, b in vb.items():
        sl = []
        for i, c in enumerate(s):
            o, n = offs[i][0][c]
            if b.shape[i] != n:
                raise ValueError(f"block {s!r} has extent {b.shape[i]} on axis {i}, expected {n}")
            sl.append(slice(o, o + n))
        out[tuple(sl)] = b
    return out


def compare_to_gt(r, gt, exp_indices, exp_charge):
    """Compare a symmray result with the oracle value `gt`.  Returns a list of
    (obligation suffix, message); empty = equal."""
    from bounded.common import Invalid, audit_valid, labels_of, ucharge

    fails = []
    if not hasattr(r, "blocks"):
        if gt.ndim != 0:
            return [("shape", f"scalar {r!r} returned for a rank-{gt.ndim} result")]
        if not np.array_equal(np.asarray(r), gt.D):
            fails.append(("elements", f"scalar result {r!r}, oracle {gt.D!r} (labels {gt.labels})"))
        return fails
    try:
        audit_valid(r)
    except Invalid as e:
        fails.append(("valid", f"result not Valid: {e}"))
    if len(r.indices) != gt.ndim:
        return fails + [("shape", f"result rank {len(r.indices)}, oracle {gt.ndim}")]
    if r.charge != exp_charge:
        fails.append(("charge", f"result charge {r.charge!r}, expected {exp_charge!r}"))
    for i, (ix, ispec) in enumerate(zip(r.indices, exp_indices)):
        if bool(ix.dual) != bool(ispec["dual"]):
            fails.append(("indices", f"axis {i}: direction {ix.dual}, expected {ispec['dual']}"))
        cm = spec_cm(ispec)
        for c, n in ix.chargemap.items():
            if cm.get(c) != n:
                fails.append(("indices", f"axis {i}: charge {c!r} size {n}, expected table {cm}"))
    if fails:
        return fails
    lab = labels_of(r)
    try:
        s2, w2 = nf_labels(lab)
    except ValueError as e:
        return [("labels", f"result labels {lab}: {e}")]
    if w2 != gt.labels:
        fails.append(("labels", f"result labels {lab}, oracle {gt.labels}"))
        return fails
    if lab != gt.labels:
        fails.append(("labels_normal_form", f"result labels {lab} are not the normal form {gt.labels}"))
    D = embed_dense(r, exp_indices)
    if not np.array_equal(D * s2, gt.D):
        if np.array_equal(-D * s2, gt.D):
            fails.append(("elements", "result is MINUS the oracle value (global sign)"))
        elif np.array_equal(np.abs(D), np.abs(gt.D)):
            fails.append(("elements", "result differs from the oracle by element signs"))
        else:
            fails.append(("elements", "result differs from the oracle in magnitude"))
    return fails


def same_observable(x, y, exp_indices):
    """Equality of two symmray results up to dropped (all-zero) charges: same
    directions, charge, labels and embedded dense `val` view."""
    from bounded.common import labels_of

    xa, ya = hasattr(x, "blocks"), hasattr(y, "blocks")
    if not xa or not ya:
        vx = embed_dense(x, []) if xa else np.asarray(x)
        vy = embed_dense(y, []) if ya else np.asarray(y)
        return (True, "") if np.array_equal(vx, vy) else (False, f"scalars differ {vx!r} {vy!r}")
    if len(x.indices) != len(y.indices):
        return False, "rank differs"
    if x.charge != y.charge:
        return False, f"charge {x.charge!r} != {y.charge!r}"
    if tuple(i.dual for i in x.indices) != tuple(i.dual for i in y.indices):
        return False, "directions differ"
    try:
        dx, dy = embed_dense(x, exp_indices), embed_dense(y, exp_indices)
    except (KeyError, ValueError) as e:
        return False, f"cannot embed: {e!r}"
    if labels_of(x) != labels_of(y):
        # same element of the algebra written with different label words?
        try:
            (sx, wx), (sy, wy) = nf_labels(labels_of(x)), nf_labels(labels_of(y))
            same = wx == wy and np.array_equal(sx * dx, sy * dy)
        except ValueError:
            same = False
        return False, f"labels differ: {labels_of(x)} != {labels_of(y)}" + (" (LABELS_ONLY: the two results are equal as algebra elements)" if same else "")
    if not np.array_equal(dx, dy):
        if np.array_equal(dx, -dy):
            return False, "values differ by a global sign"
        return False, "values differ"
    return True, ""


# ----------------------------------------------------------------------------
# self test of the oracle (no symmray): the two evaluators must agree


def _rand_gt(rng, ndim, duals=None, labels=(), dims=(1, 2, 3), homogeneous=None):
    shape = [int(rng.choice(dims)) for _ in range(ndim)]
    par = [rng.integers(0, 2, size=s) for s in shape]
    D = rng.integers(-3, 4, size=shape).astype("float64")
    if homogeneous is not None:
        D = D * (_total_parity(GT(D, par, [False] * ndim)) == homogeneous)
    if duals is None:
        duals = [bool(rng.integers(0, 2)) for _ in range(ndim)]
    return GT(D, par, duals, labels)


def selftest(seed=0, n=300):
    rng = np.random.default_rng(seed)
    for it in range(n):
        # transpose
        nd = int(rng.integers(0, 5))
        t = _rand_gt(rng, nd, labels=((3, False),) if it % 2 else ())
        perm = rng.permutation(nd).tolist()
        names = [f"x{i}" for i in range(nd)]
        g = g_transpose(t, perm)
        r = bf_eval([t], [names], [names[p] for p in perm])
        assert bf_matches(r, g), ("transpose", it)
        # contraction of two tensors, arbitrary (inhomogeneous) data
        na, nb = int(rng.integers(1, 4)), int(rng.integers(1, 4))
        k = int(rng.integers(0, min(na, nb) + 1))
        la = [(int(rng.integers(1, 5)), bool(rng.integers(0, 2)))] if rng.integers(0, 2) else []
        lb = [(int(rng.integers(5, 9)), bool(rng.integers(0, 2)))] if rng.integers(0, 2) else []
        if rng.integers(0, 4) == 0 and la:
            lb = [(la[0][0], not la[0][1])]
        a = _rand_gt(rng, na, labels=la, dims=(1, 2))
        axa = rng.permutation(na)[:k].tolist()
        axb = rng.permutation(nb)[:k].tolist()
        shape_b = [int(rng.choice((1, 2))) for _ in range(nb)]
        par_b = [rng.integers(0, 2, size=s) for s in shape_b]
        dual_b = [bool(rng.integers(0, 2)) for _ in range(nb)]
        for x, y in zip(axa, axb):
            shape_b[y] = a.D.shape[x]
            par_b[y] = a.par[x]
            dual_b[y] = not a.dual[x]
        b = GT(rng.integers(-3, 4, size=shape_b).astype("float64"), par_b, dual_b, lb)
        la_names = [f"a{i}" for i in range(na)]
        lb_names = [f"b{i}" for i in range(nb)]
        for j, (x, y) in enumerate(zip(axa, axb)):
            la_names[x] = lb_names[y] = f"c{j}"
        out = [x for x in la_names if x[0] == "a"] + [x for x in lb_names if x[0] == "b"]
        g = g_contract(a, b, axa, axb)
        r0 = bf_eval([a, b], [la_names, lb_names], out)
        r1 = bf_eval([a, b], [la_names, lb_names], out, eager=True)
        assert bf_matches(r0, g), ("contract", it)
        assert bf_matches(r1, g), ("contract eager", it)
        g2 = g_network([a, b], [la_names, lb_names], out)
        assert g2.labels == g.labels and np.array_equal(g2.D, g.D)
        # einsum with one or two traced pairs
        nd = int(rng.integers(2, 5))
        npair = int(rng.integers(1, nd // 2 + 1))
        axes = rng.permutation(nd).tolist()
        t = _rand_gt(rng, nd, dims=(1, 2), labels=la)
        par, dual, shape = list(t.par), list(t.dual), list(t.D.shape)
        lhs = [None] * nd
        for j in range(npair):
            u, v = axes[2 * j], axes[2 * j + 1]
            par[v], dual[v], shape[v] = par[u], not dual[u], shape[u]
            lhs[u] = lhs[v] = "pq"[j]
        free = [i for i in range(nd) if lhs[i] is None]
        for i, f in enumerate(free):
            lhs[f] = "xyz"[i]
        t = GT(rng.integers(-3, 4, size=shape).astype("float64"), par, dual, la)
        rhs = [lhs[f] for f in rng.permutation(free).tolist()] if free else []
        g = g_einsum(t, "".join(lhs), "".join(rhs))
        r = bf_eval([t], [lhs], rhs)
        assert bf_matches(r, g), ("einsum", it, lhs, rhs)
        if nd == 2:
            assert g_trace(t) == g.D[()]
        # evenness: homogeneous tensors with matching label parity commute
        pa, pb = int(rng.integers(0, 2)), int(rng.integers(0, 2))
        a2 = GT(a.D * (_total_parity(a) == pa), a.par, a.dual, [(1, False)] if pa else [])
        b2 = GT(b.D * (_total_parity(b) == pb), b.par, b.dual, [(2, False)] if pb else [])
        r_ab = bf_eval([a2, b2], [la_names, lb_names], out)
        r_ba = bf_eval([b2, a2], [lb_names, la_names], out)
        ga = g_contract(a2, b2, axa, axb)
        assert bf_matches(r_ab, ga) and bf_matches(r_ba, ga), ("commute", it)
    return True


if __name__ == "__main__":
    import sys

    print(selftest(int(sys.argv[1]) if len(sys.argv) > 1 else 0))
