"""C06 (bounded): contraction commutes with fusing; the three contraction strategies agree.

Everything is compared through `arrays_equal` of common (index tables, directions,
sub-index info, charge, labels, sign-resolved values; an absent block == zeros), exactly
(integer-valued data).  Abelian results on pre-fused operands are additionally compared with
numpy on the independent dense form.
"""

import itertools

import numpy as np

from bounded.common import *  # noqa: F401,F403
from bounded.common import G, Invalid, arrays_equal, audit_valid, build_array, driver_main, index_struct, labels_of, sr, stable_hash, val_blocks
from bounded.oracles_abelian import (
    ALL_SYMS,
    MODES,
    compare_with_dense,
    expected_tensordot,
    fuse_axis_map,
    gen_small_arrays,
    gen_small_pairs,
    make_b_specs,
    merge_tables,
    norm_axes,
    prefused_version,
    rand_pair,
    small_index_specs,
    small_pool,
    spec_struct,
    tables_of,
)

CONTRACTS = {
    "C06.modes_agree": (
        "sr.tensordot(a,b,axes,mode) for mode in auto/fused/blockwise on abelian and fermionic pairs (even and odd parity, pending lazy signs, "
        "missing blocks, sub-/super-tables on contracted indices), with and without a free-leg group fused beforehand: same rank, same index "
        "structure incl. sub-index info, same labels, same values; abelian pre-fused results also equal the dense contraction",
        "quick: exhaustive for operands of rank<=2 (k>=1) over index structures with <=2 charges from the first 2 charges, every total charge and sector subset, "
        "abelian and fermionic; rank-3 operand with a pre-fused pair of free legs over all direction patterns; then seeded random pairs up to rank 4, k<=3",
    ),
    "C06.fuse_then_contract": (
        "tensordot(a,b,axes) == tensordot(a2.fuse(axes_a), b2.fuse(axes_b), one pair) with a2,b2 = a.align_axes(b, axes); alignment keeps exactly the "
        "sectors whose contracted sub-sector occurs on the other side; the two fused indices match (table, direction, extents); "
        "fuse strategies insert/concat (abelian; the two strategies give identical fused operands), inner contraction in all three modes; abelian and fermionic",
        "quick: exhaustive rank<=2 small scope (k>=1, every order of the contracted axes) + seeded random up to rank 4, k<=3",
    ),
    "C06.fuse_free_commutes": (
        "fusing a group (>=2, any order) of free legs of one operand before contraction == fusing the corresponding result legs after contraction, "
        "up to charges / sub-sectors that are entirely zero; abelian (insert/concat) and fermionic",
        "quick: exhaustive over rank-3 operands with full 2-charge tables in every direction pattern x every sector subset, + seeded random up to rank 4",
    ),
}


def _with_label(spec, label):
    """Odd-parity fermionic arrays need a label."""
    if spec.get("fermionic") and G.par(spec["sym"], ucharge(spec["charge"])):  # noqa: F405
        spec = dict(spec)
        spec["oddpos"] = label
    return spec


def _fermi(spec, label):
    spec = dict(spec)
    spec["fermionic"] = True
    return _with_label(spec, label)


# ----------------------------------------------------------------------------
# case generation


def _small_prefuse_cases(sym, npool, seed):
    """(i) rank-3 operand (full tables, every direction pattern, every charge, every sector subset)
    contracted over one axis with a rank-1 partner, its two free legs fused in both orders (lone fused leg);
    (ii) the same operands in an outer product with a rank-1 partner, every ordered pair of legs fused
    (fused leg next to a plain free leg); (iii) rank-2 operand with both legs fused, outer product with
    a rank-1 partner on either side."""
    pool = small_pool(sym, npool)
    full_cm = small_index_specs(sym, npool=npool, max_charges=len(pool))
    full_cm = [i for i in full_cm if len(i["cm"]) == len(pool)]  # the full table, both directions
    idx_small = small_index_specs(sym, npool=2)
    outer_b = list(gen_small_arrays(sym, 1, idx_small[:2], seed=seed + 1, n_extra=0))
    for a in gen_small_arrays(sym, 3, full_cm, seed=seed, n_extra=2):
        for ax in range(3):
            free = [i for i in range(3) if i != ax]
            for b in make_b_specs(sym, a, (ax,), (0,), 1, (), pool, None, seed=seed, n_extra=1):
                for group in (free, free[::-1]):
                    yield a, b, [[ax], [0]], {"which": "a", "group": group, "lone": True}
        for b in outer_b[:2]:
            for group in itertools.permutations(range(3), 2):
                yield a, b, [[], []], {"which": "a", "group": list(group), "lone": False}
    for a in gen_small_arrays(sym, 2, idx_small, seed=seed, n_extra=1):
        for b in outer_b:
            yield a, b, [[], []], {"which": "a", "group": [0, 1], "lone": True}
            yield b, a, [[], []], {"which": "b", "group": [1, 0], "lone": True}


def gen_cases(tier, seed):
    quick = tier == "quick"
    npool = 2 if quick else 3
    n = 0
    for sym in ALL_SYMS:
        idx = small_index_specs(sym, npool=npool)
        pool = small_pool(sym, npool)
        for na in (1, 2):
            for nb in (1, 2):
                np_ = npool if na + nb <= 3 else 2
                idx_, pool_ = small_index_specs(sym, npool=np_), small_pool(sym, np_)
                for k in range(1, min(na, nb) + 1):
                    for a, b, axes, vname in gen_small_pairs(sym, na, nb, k, idx_, pool_, seed=seed):
                        n += 1
                        for ferm in (False, True):
                            aa, bb = (a, b) if not ferm else (_fermi(a, 1), _fermi(b, 2))
                            yield {"contract": "C06.modes_agree", "a": aa, "b": bb, "axes": axes, "variant": vname, "prefuse": None}
                            if k >= 2 or (n % 3 == 0):
                                yield {"contract": "C06.fuse_then_contract", "a": aa, "b": bb, "axes": axes, "variant": vname}
        for a, b, axes, pf in _small_prefuse_cases(sym, 2, seed):
            n += 1
            for ferm in (False, True):
                aa, bb = (a, b) if not ferm else (_fermi(a, 1), _fermi(b, 2))
                pf2 = dict(pf, fuse_mode=None if ferm else ("insert", "concat")[n % 2])
                p = {"a": aa, "b": bb, "raw_axes": axes, "prefuse": pf2}
                a2, b2, axes2 = prefused_version(p)
                yield {"contract": "C06.modes_agree", "a": a2, "b": b2, "axes": axes2, "variant": "same", "prefuse": pf2}
                yield {"contract": "C06.fuse_free_commutes", "a": aa, "b": bb, "axes": axes, "prefuse": pf2}
    rng = np.random.default_rng([seed, 606])
    n_rand = 40000 if quick else 1200000
    for i in range(n_rand):
        sym = ALL_SYMS[i % len(ALL_SYMS)]
        ferm = bool((i // 5) % 2)
        lazy = ferm and rng.random() < 0.5
        r = (i // 10) % 6
        if r in (0, 1):
            p = rand_pair(rng, sym, fermionic=ferm, lazy=lazy)
            yield {"contract": "C06.modes_agree", "a": p["a"], "b": p["b"], "axes": p["axes"], "variant": p["variant"], "prefuse": None}
        elif r == 2:
            p = rand_pair(rng, sym, fermionic=ferm, lazy=lazy, prefuse=True)
            a2, b2, axes2 = prefused_version(p)
            yield {"contract": "C06.modes_agree", "a": a2, "b": b2, "axes": axes2, "variant": p["variant"], "prefuse": p["prefuse"]}
        elif r in (3, 4):
            p = rand_pair(rng, sym, fermionic=ferm, lazy=lazy, min_k=1)
            yield {"contract": "C06.fuse_then_contract", "a": p["a"], "b": p["b"], "axes": p["axes"], "variant": p["variant"]}
        else:
            p = rand_pair(rng, sym, fermionic=ferm, lazy=lazy, prefuse=True)
            yield {"contract": "C06.fuse_free_commutes", "a": p["a"], "b": p["b"], "axes": p["raw_axes"], "prefuse": p["prefuse"]}


# ----------------------------------------------------------------------------
# helpers


def _call(fn, *args, **kw):
    try:
        return True, fn(*args, **kw)
    except Exception as e:
        return False, f"{type(e).__name__}: {e}"


def _lib_axes(axes):
    return axes if isinstance(axes, int) else (tuple(axes[0]), tuple(axes[1]))


def _is_struct_msg(msg):
    return not msg.startswith("block ")


def _base_feats(d, a, b):
    ferm = bool(d["a"].get("fermionic", False))
    pf = d.get("prefuse")
    return {
        "sym": d["a"]["sym"],
        "fermionic": ferm,
        "prefused_free_leg": bool(pf),
        "lone_free_leg": bool(pf and pf.get("lone")),
    }


def _details(d, a, b):
    sym = d["a"]["sym"]
    lazy = bool(getattr(a, "_phases", None) or getattr(b, "_phases", None))
    return f" [ranks {a.ndim}x{b.ndim} axes={d['axes']} partner_table={d.get('variant', 'same')} parities={G.par(sym, a.charge)}/{G.par(sym, b.charge)} pending_signs={lazy}]"


def equal_up_to_zero_padding(x, y):
    """Same rank, charge, directions, labels; compatible tables; equal sign-resolved blocks
    where an absent block / charge means zeros."""
    if x.ndim != y.ndim:
        return False, "ndim differs"
    if x.charge != y.charge:
        return False, "charge differs"
    if labels_of(x) != labels_of(y):
        return False, f"labels differ {labels_of(x)} vs {labels_of(y)}"
    for i, (p, q) in enumerate(zip(x.indices, y.indices)):
        if p.dual != q.dual:
            return False, f"direction of axis {i} differs"
        for c, dsz in p.chargemap.items():
            if q.chargemap.get(c, dsz) != dsz:
                return False, f"size of charge {c!r} on axis {i} differs"
    vx, vy = val_blocks(x), val_blocks(y)
    for s in set(vx) | set(vy):
        p, q = vx.get(s), vy.get(s)
        if p is None:
            p = np.zeros_like(q)
        if q is None:
            q = np.zeros_like(p)
        if p.shape != q.shape or not np.array_equal(p, q):
            return False, f"block {s!r} differs"
    return True, ""


# ----------------------------------------------------------------------------
# checks


def check_modes(d):
    a = build_array(d["a"])
    b = build_array(d["b"])
    axes = d["axes"]
    la = _lib_axes(axes)
    feats0 = _base_feats(d, a, b)
    fails = []
    res = {}
    for m in MODES:
        ok, r = _call(sr.tensordot, a, b, la, mode=m, preserve_array=True)
        if not ok:
            fails.append(("C06.modes_agree.no_exception", f"mode={m}: {r}", dict(feats0, mode=m)))
            continue
        res[m] = r
        try:
            audit_valid(r)
        except Invalid as e:
            fails.append(("C06.modes_agree.valid", f"mode={m}: {e}", dict(feats0, mode=m)))
    ref = res.get("blockwise")
    if ref is not None:
        for m in ("fused", "auto"):
            if m not in res:
                continue
            ok, msg = arrays_equal(ref, res[m], exact=True, check_subinfo=True, why=True)
            if not ok:
                ob = "C06.modes_agree_structure" if _is_struct_msg(msg) else "C06.modes_agree_values"
                fails.append((ob, f"mode={m} vs blockwise: {msg}"[:300], dict(feats0, mode=m)))
        if not feats0["fermionic"]:
            full, tabs, duals = expected_tensordot(a, b, axes)
            for suffix, msg in compare_with_dense(ref, full, tabs, duals, G.add(d["a"]["sym"], a.charge, b.charge)):
                fails.append((f"C06.modes_agree.dense_{suffix}", f"blockwise: {msg}", dict(feats0, mode="blockwise")))
    nontrivial = bool(ref is not None and ref.blocks)
    det = _details(d, a, b)
    fails = [(ob, what + det, f) for ob, what, f in fails]
    return {
        "fingerprint": ("modes", spec_struct(d["a"]), spec_struct(d["b"]), repr(axes)),
        "nontrivial": nontrivial,
        "failures": fails[:6],
        "sample": {"sym": d["a"]["sym"], "fermionic": feats0["fermionic"], "shape_a": list(a.shape), "shape_b": list(b.shape), "axes": axes,
                   "prefuse": d.get("prefuse")},
    }


def _expected_alignment(x, y, ax_x, ax_y):
    """Sectors of x whose contracted sub-sector occurs among y's stored sectors."""
    have = {tuple(t[j] for j in ax_y) for t in y.blocks}
    return [s for s in x.blocks if tuple(s[i] for i in ax_x) in have]


def _check_aligned(tag, x, x2, keep, feats, fails):
    if list(x2.blocks) != keep and set(x2.blocks) != set(keep):
        fails.append(("C06.align.sectors", f"{tag}: kept {sorted(map(repr, x2.blocks))} expected {sorted(map(repr, keep))}", feats))
        return
    for s in keep:
        if x2.blocks[s] is not x.blocks[s] and not np.array_equal(x2.blocks[s], x.blocks[s]):
            fails.append(("C06.align.values", f"{tag}: block {s!r} changed", feats))
    for i, (ix, ix2) in enumerate(zip(x.indices, x2.indices)):
        used = {s[i] for s in keep}
        want = {c: dsz for c, dsz in ix.chargemap.items() if c in used}
        if dict(ix2.chargemap) != want or ix2.dual != ix.dual:
            fails.append(("C06.align.indices", f"{tag}: axis {i} table {dict(ix2.chargemap)} expected {want}", feats))
    if x2.charge != x.charge:
        fails.append(("C06.align.charge", f"{tag}: charge changed", feats))


def check_fuse_then_contract(d):
    a = build_array(d["a"])
    b = build_array(d["b"])
    axes = d["axes"]
    axa, axb = norm_axes(axes, a.ndim, b.ndim)
    k = len(axa)
    feats0 = _base_feats(d, a, b)
    ferm = feats0["fermionic"]
    fails = []
    ok, ref = _call(sr.tensordot, a, b, (axa, axb), mode="blockwise", preserve_array=True)
    if not ok:
        return {"fingerprint": ("ftc", spec_struct(d["a"]), spec_struct(d["b"]), repr(axes)), "nontrivial": False,
                "failures": [("C06.fuse_then_contract.no_exception", f"reference blockwise: {ref}", feats0)]}
    # the alignment entry point is called with the axes spelled in every way a caller may spell them: some of them
    # counted from the end of the operand they belong to (deterministic choice per case)
    h = stable_hash((repr(axes), a.ndim, b.ndim))
    spell_a = tuple(x - a.ndim if (h >> i) & 1 else x for i, x in enumerate(axa))
    spell_b = tuple(x - b.ndim if (h >> (i + 8)) & 1 else x for i, x in enumerate(axb))
    ok, r = _call(a.align_axes, b, (spell_a, spell_b))
    if not ok:
        fails.append(("C06.fuse_then_contract.no_exception", f"align_axes: {r}", feats0))
    else:
        a2, b2 = r
        _check_aligned("a", a, a2, _expected_alignment(a, b, axa, axb), feats0, fails)
        _check_aligned("b", b, b2, _expected_alignment(b, a, axb, axa), feats0, fails)
        pa_, pb_ = min(axa), min(axb)
        fused = {}
        for fm in ((None,) if ferm else ("insert", "concat")):
            f1 = dict(feats0, fuse_mode=fm)
            kw = {} if fm is None else {"mode": fm}
            ok1, af = _call(a2.fuse, axa, **kw)
            ok2, bf = _call(b2.fuse, axb, **kw)
            if not (ok1 and ok2):
                fails.append(("C06.fuse_then_contract.no_exception", f"fuse: {af if not ok1 else bf}", f1))
                continue
            fused[fm] = (af, bf)
            if af.ndim != a.ndim - k + 1 or bf.ndim != b.ndim - k + 1:
                fails.append(("C06.fuse_then_contract.fused_rank", f"ranks {af.ndim},{bf.ndim}", f1))
                continue
            ia, ib = af.indices[pa_], bf.indices[pb_]
            if dict(ia.chargemap) != dict(ib.chargemap) or ia.dual == ib.dual or ia.dual != a.indices[axa[0]].dual:
                fails.append(("C06.fused_pair_matches", f"fused tables/directions differ: {dict(ia.chargemap)} dual={ia.dual} vs {dict(ib.chargemap)} dual={ib.dual}", f1))
            elif k >= 2:
                ea = {c: tuple(e.items()) for c, e in ia.subinfo.extents.items()}
                eb = {c: tuple(e.items()) for c, e in ib.subinfo.extents.items()}
                if ea != eb:
                    fails.append(("C06.fused_pair_matches", "fused extents (sub-sector order / sizes) differ between the operands", f1))
            for m2 in MODES:
                f2 = dict(f1, mode=m2)
                ok3, r2 = _call(sr.tensordot, af, bf, ((pa_,), (pb_,)), mode=m2, preserve_array=True)
                if not ok3:
                    fails.append(("C06.fuse_then_contract.no_exception", f"inner contraction: {r2}", f2))
                    continue
                okc, msg = arrays_equal(ref, r2, exact=True, check_subinfo=True, why=True)
                if not okc:
                    ob = "C06.fuse_then_contract.structure" if _is_struct_msg(msg) else "C06.fuse_then_contract.values"
                    fails.append((ob, f"direct vs fused-first ({fm},{m2}): {msg}"[:300], f2))
        if "insert" in fused and "concat" in fused:
            for tag, p_, q_ in (("a", fused["insert"][0], fused["concat"][0]), ("b", fused["insert"][1], fused["concat"][1])):
                oks, msg = arrays_equal(p_, q_, exact=True, check_subinfo=True, why=True)
                if not oks:
                    fails.append(("C06.fuse_strategies_agree", f"{tag}.fuse(mode='insert') != {tag}.fuse(mode='concat'): {msg}"[:300], feats0))
    det = _details(d, a, b)
    fails = [(ob, what + det, f) for ob, what, f in fails]
    return {
        "fingerprint": ("ftc", spec_struct(d["a"]), spec_struct(d["b"]), repr(axes)),
        "nontrivial": bool(ref.blocks) and k >= 1,
        "failures": fails[:6],
        "sample": {"sym": d["a"]["sym"], "fermionic": ferm, "shape_a": list(a.shape), "shape_b": list(b.shape), "axes": axes},
    }


def check_fuse_free(d):
    a = build_array(d["a"])
    b = build_array(d["b"])
    axa, axb = d["axes"]
    pf = d["prefuse"]
    which, group, fm = pf["which"], list(pf["group"]), pf.get("fuse_mode")
    feats0 = _base_feats(d, a, b)
    feats0["fuse_mode"] = fm
    ferm = feats0["fermionic"]
    kw = {} if (fm is None or ferm) else {"mode": fm}
    fails = []
    x = a if which == "a" else b
    m, _ = fuse_axis_map(x.ndim, group)
    free_a = [i for i in range(a.ndim) if i not in axa]
    free_b = [j for j in range(b.ndim) if j not in axb]
    if which == "a":
        group_res = [free_a.index(g) for g in group]
        axa2, axb2 = [m[i] for i in axa], list(axb)
    else:
        group_res = [len(free_a) + free_b.index(g) for g in group]
        axa2, axb2 = list(axa), [m[j] for j in axb]
    pos_res = min(group_res)
    padded = False
    nontrivial = False
    for mode in ("blockwise", "auto"):
        f1 = dict(feats0, mode=mode)
        ok0, r0 = _call(sr.tensordot, a, b, (tuple(axa), tuple(axb)), mode=mode, preserve_array=True)
        ok1, xf = _call(x.fuse, tuple(group), **kw)
        if not ok0 or not ok1:
            fails.append(("C06.fuse_free_commutes.no_exception", f"{r0 if not ok0 else xf}", f1))
            continue
        a1, b1 = (xf, b) if which == "a" else (a, xf)
        ok2, r1 = _call(sr.tensordot, a1, b1, (tuple(axa2), tuple(axb2)), mode=mode, preserve_array=True)
        ok3, r2 = _call(r0.fuse, tuple(group_res), **kw)
        if not ok2 or not ok3:
            fails.append(("C06.fuse_free_commutes.no_exception", f"{r1 if not ok2 else r2}", f1))
            continue
        nontrivial = nontrivial or bool(r0.blocks)
        if r1.ndim != r2.ndim:
            # a leg fused beforehand did not stay fused
            fails.append(("C06.modes_agree_structure", f"mode={mode}: contraction of the pre-fused operand has rank {r1.ndim}, expected {r2.ndim}", f1))
            continue
        okc, msg = arrays_equal(r1, r2, exact=True, check_subinfo=True, why=True)
        if okc:
            continue
        # tables may legitimately differ by sub-sectors / charges that are entirely zero: compare unfused
        padded = True
        i1, i2 = r1.indices[pos_res], r2.indices[pos_res]
        if i1.subinfo is None or i2.subinfo is None:
            fails.append(("C06.fuse_free_commutes.structure", f"mode={mode}: fused result leg lacks sub-index info ({msg})"[:300], f1))
            continue
        oku1, u1 = _call(r1.unfuse, pos_res)
        oku2, u2 = _call(r2.unfuse, pos_res)
        if not oku1 or not oku2:
            fails.append(("C06.fuse_free_commutes.no_exception", f"unfuse: {u1 if not oku1 else u2}", f1))
            continue
        oke, msg2 = equal_up_to_zero_padding(u1, u2)
        if not oke:
            fails.append(("C06.fuse_free_commutes.values", f"mode={mode}: fuse-before vs fuse-after differ beyond zero padding: {msg2} (fused form: {msg})"[:300], f1))
    det = _details(d, a, b)
    fails = [(ob, what + det, f) for ob, what, f in fails]
    return {
        "fingerprint": ("ffc", spec_struct(d["a"]), spec_struct(d["b"]), repr(d["axes"]), which, repr(group), fm),
        "nontrivial": nontrivial,
        "failures": fails[:6],
        "sample": {"sym": d["a"]["sym"], "fermionic": ferm, "shape_a": list(a.shape), "shape_b": list(b.shape), "axes": d["axes"], "prefuse": pf, "padded": padded},
    }


def check_case(d):
    c = d["contract"]
    if c == "C06.modes_agree":
        return check_modes(d)
    if c == "C06.fuse_then_contract":
        return check_fuse_then_contract(d)
    if c == "C06.fuse_free_commutes":
        return check_fuse_free(d)
    raise ValueError(c)


if __name__ == "__main__":
    driver_main("bounded.run_C06")
