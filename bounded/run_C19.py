"""C19 (bounded): edge-wise Hamiltonians add up to the lattice Hamiltonian, each term once;
site descriptions derived from the edges.

Oracle: the Jordan-Wigner lattice Hamiltonian (bounded/oracles_fock.py) written from the model
definition; each returned two-site array is (a) compared with the two-site operator carrying the
coefficients the statement prescribes (t_e, V_e, U_a/deg(a), mu_a/deg(a)) in the documented element
order validated by C18, and (b) embedded into the lattice Fock space from its *own* dense form and
summed, the sum being compared with the lattice Hamiltonian.

ham_tfim_from_edges / ham_heisenberg_from_edges need the optional package `quimb`; it is not
installed in this environment, so they are NOT covered (stated in the bound text below).
"""

import itertools

import numpy as np

from bounded.common import *  # noqa: F401,F403
from bounded.common import G, FERMI_CLS, audit_valid, Invalid, val_blocks, jcharge, ucharge, driver_main, sr
from bounded import oracles_fock as F

try:  # optional dependency of the two spin-model builders
    import quimb  # noqa: F401

    HAVE_QUIMB = True
except Exception:
    HAVE_QUIMB = False

CONTRACTS = {
    "C19.hamiltonian": (
        "ham_fermi_hubbard_spinless_from_edges (t, V, mu; Z2, U1) and ham_fermi_hubbard_from_edges (t, U, mu; Z2, U1, "
        "Z2Z2, U1U1) on simple graphs given as edge lists in arbitrary order/orientation, site labels ints / tuples / "
        "strings, edge coefficients scalar / dict keyed in the given, flipped or mixed orientation / callable, site "
        "coefficients scalar / dict / callable, defaults omitted: one term per edge keyed by the edge as given; each "
        "term equals the two-site operator with that bond's t (V) and U_a/deg(a), mu_a/deg(a); the embedded terms sum to "
        "the Jordan-Wigner lattice Hamiltonian (every bond once, every site's on-site terms totalling its coefficient)",
        "quick: every non-empty edge subset of K4 (all simple graphs on <=4 labelled sites) x model x symmetry x 2 "
        "coefficient-form variants, then seeded random; thorough: + random graphs on 5-6 sites; tolerance 1e-9 "
        "(coefficients multiples of 1/4); "
        + ("ham_tfim/ham_heisenberg: quimb present but not covered here" if HAVE_QUIMB else "ham_tfim_from_edges / ham_heisenberg_from_edges SKIPPED: optional package quimb is not installed"),
    ),
    "C19.site_info": (
        "parse_edges_to_site_info(edges, bond_dim, phys_dim) on the same graphs, labels ints / tuples / strings, "
        "edges in arbitrary order/orientation, phys_dim int or None, default and custom (incl. multi-field) identifiers: "
        "every bond has one index name held by exactly its two end sites with directions 0 / 1 (0 at the smaller site), "
        "coordination == degree, shapes consistent, physical index last, tags and names follow the identifier formats",
        "quick: all simple graphs on <=4 labelled sites x label kinds; thorough: + random graphs to 6 sites; exact",
    ),
}

TOL = 1e-9
K4 = [(0, 1), (0, 2), (0, 3), (1, 2), (1, 3), (2, 3)]

LABELS = {
    "int": [3, 7, 10, 12, 25, 31],
    "tuple": [[0, 1], [0, 0], [1, 0], [2, 1], [1, 1], [0, 2]],
    "str": ["B", "a", "x1", "A", "k10", "k2"],
    "int0": [0, 1, 2, 3, 4, 5],
}


def ulab(l):
    return tuple(l) if isinstance(l, list) else l


# ----------------------------------------------------------------------------
# generation


def quarter(rng, nonzero=True):
    while True:
        v = float(rng.integers(-8, 9)) / 4
        if v or not nonzero:
            return v


def make_desc(rng, model, sym, edges, nsites, label_kind=None, forms=None, defaults=False):
    """edges: list of (i, j) site numbers in the orientation/order handed to the library."""
    label_kind = label_kind or ["int", "tuple", "str", "int0"][int(rng.integers(4))]
    perm = rng.permutation(len(LABELS[label_kind])).tolist()
    used = sorted({v for e in edges for v in e})
    site_labels = {v: LABELS[label_kind][perm[k]] for k, v in enumerate(used)}
    eforms = ("scalar", "dict", "dict_flipped", "dict_mixed", "callable")
    nforms = ("scalar", "dict", "callable")
    if forms is None:
        forms = (eforms[int(rng.integers(5))], eforms[int(rng.integers(5))] if model == "spinless" else nforms[int(rng.integers(3))], nforms[int(rng.integers(3))])
    d = {
        "contract": "C19.hamiltonian",
        "model": model,
        "sym": sym,
        "edges": [list(e) for e in edges],
        "site_labels": [[v, site_labels[v]] for v in used],
        "label_kind": label_kind,
    }
    if defaults:
        d["defaults"] = True
        return d

    def edge_coeff(form):
        if form == "scalar":
            v = quarter(rng)
            return {"form": form, "values": [v] * len(edges)}
        flips = [bool(rng.integers(2)) for _ in edges]
        return {"form": form, "values": [quarter(rng) for _ in edges], "flips": flips}

    def node_coeff(form):
        if form == "scalar":
            v = quarter(rng, nonzero=False)
            return {"form": form, "values": [[s, v] for s in used]}
        return {"form": form, "values": [[s, quarter(rng, nonzero=False)] for s in used]}

    d["t"] = edge_coeff(forms[0])
    if model == "spinless":
        d["V"] = edge_coeff(forms[1])
    else:
        d["U"] = node_coeff(forms[1])
    d["mu"] = node_coeff(forms[2])
    return d


def orient(rng, edges):
    out = [(b, a) if rng.integers(2) else (a, b) for a, b in edges]
    return [out[i] for i in rng.permutation(len(out)).tolist()]


def rand_graph(rng, n):
    allp = list(itertools.combinations(range(n), 2))
    while True:
        m = int(rng.integers(1, len(allp) + 1))
        pick = [allp[i] for i in sorted(rng.choice(len(allp), size=m, replace=False).tolist())]
        if len({v for e in pick for v in e}) == n:
            return pick


def gen_cases(tier, seed):
    quick = tier == "quick"
    eforms = ("scalar", "dict", "dict_flipped", "dict_mixed", "callable")
    nforms = ("scalar", "dict", "callable")
    models = [("spinless", s) for s in ("Z2", "U1")] + [("spinful", s) for s in ("Z2", "U1", "Z2Z2", "U1U1")]
    k = 0
    # all simple graphs on <= 4 labelled sites
    graphs = []
    for m in range(1, 7):
        for sub in itertools.combinations(K4, m):
            graphs.append(list(sub))
    for gi, g in enumerate(graphs):
        for lk in ("int", "tuple", "str"):
            r = np.random.default_rng([seed, 19, 0, gi, len(lk)])
            e = orient(r, g)
            yield {"contract": "C19.site_info", "edges": [list(x) for x in e], "label_kind": lk,
                   "site_labels": [[v, LABELS[lk][(v + gi) % 6]] for v in sorted({v for x in g for v in x})],
                   "bond_dim": 2 + gi % 3, "phys_dim": [2, None, 4][gi % 3], "ids": ["default", "custom", "star"][(gi // 3) % 3] if lk == "tuple" else ["default", "custom"][(gi // 3) % 2]}
    for gi, g in enumerate(graphs):
        for mi, (model, sym) in enumerate(models):
            for v in range(2):
                k += 1
                r = np.random.default_rng([seed, 19, 1, k])
                e = orient(r, g) if (k % 3) else list(g)
                forms = (eforms[k % 5], (eforms if model == "spinless" else nforms)[(k // 5) % (5 if model == "spinless" else 3)], nforms[(k // 2) % 3])
                yield make_desc(r, model, sym, e, 4, label_kind=("int", "tuple", "str", "int0")[k % 4], forms=forms)
        if gi % 8 == 0:
            for model, sym in models:
                k += 1
                r = np.random.default_rng([seed, 19, 2, k])
                yield make_desc(r, model, sym, orient(r, g), 4, defaults=True)
    # seeded random part
    n_rand = 3000 if quick else 20000
    for i in range(n_rand):
        r = np.random.default_rng([seed, 19, 3, i])
        nmax = 4 if quick else 6
        n = int(r.integers(2, nmax + 1))
        g = rand_graph(r, n)
        if i % 4 == 0:
            lk = ("int", "tuple", "str")[int(r.integers(3))]
            e = orient(r, g)
            perm = r.permutation(6).tolist()
            yield {"contract": "C19.site_info", "edges": [list(x) for x in e], "label_kind": lk,
                   "site_labels": [[v, LABELS[lk][perm[v]]] for v in range(n)],
                   "bond_dim": int(r.integers(1, 6)), "phys_dim": [2, None, 4, 3][int(r.integers(4))],
                   "ids": (["default", "custom", "star"] if lk == "tuple" else ["default", "custom"])[int(r.integers(3 if lk == "tuple" else 2))]}
        else:
            model, sym = models[int(r.integers(len(models)))]
            yield make_desc(r, model, sym, orient(r, g), n)


# ----------------------------------------------------------------------------
# checking


class Case:
    def __init__(self, feats):
        self.feats = feats
        self.fails = []

    def bad(self, ob, what, **extra):
        self.fails.append((f"C19.{ob}", what, {**self.feats, **extra}))


def scatter_dense(x, labels_per_axis):
    """Dense tensor of `x` in the original basis order (independent of to_dense)."""
    groups = []
    for labels in labels_per_axis:
        g = {}
        for i, c in enumerate(labels):
            g.setdefault(c, []).append(i)
        groups.append(g)
    if len(x.indices) != len(groups):
        raise ValueError(f"rank {len(x.indices)} != {len(groups)}")
    for k, ix in enumerate(x.indices):
        for c, dd in ix.chargemap.items():
            if len(groups[k].get(c, ())) != dd:
                raise ValueError(f"axis {k}: charge {c!r} has size {dd}, the documented basis gives {len(groups[k].get(c, ()))}")
    out = np.zeros(tuple(len(l) for l in labels_per_axis))
    for s, b in val_blocks(x).items():
        out[np.ix_(*[groups[k][c] for k, c in enumerate(s)])] = b
    return out


def site_basis(model, v):
    if model == "spinless":
        return [[], [[["s", v], "+"]]]
    u, dn = ["u", v], ["d", v]
    return [[], [[dn, "+"]], [[u, "+"]], [[u, "+"], [dn, "+"]]]  # documented: |00>, d+|0>, u+|0>, u+d+|0>


def species(l):
    return 1 if l[0] == "d" else 0


def build_edge_arg(spec, edges_lab):
    """Turn a coefficient spec into the object handed to the library, and the per-edge values."""
    vals = spec["values"]
    if spec["form"] == "scalar":
        return vals[0], vals
    table = {}
    for (a, b), v, fl in zip(edges_lab, vals, spec["flips"]):
        if spec["form"] == "dict":
            table[(a, b)] = v
        elif spec["form"] == "dict_flipped":
            table[(b, a)] = v
        else:  # dict_mixed, callable
            table[(b, a) if fl else (a, b)] = v
    if spec["form"] == "callable":
        return (lambda a, b: table[(a, b)] if (a, b) in table else table[(b, a)]), vals
    return table, vals


def build_node_arg(spec, lab):
    vals = {s: v for s, v in spec["values"]}
    if spec["form"] == "scalar":
        return spec["values"][0][1], vals
    table = {lab[s]: v for s, v in vals.items()}
    if spec["form"] == "callable":
        return (lambda a: table[a]), vals
    return table, vals


def check_hamiltonian(d):
    model, sym = d["model"], d["sym"]
    lab = {v: ulab(l) for v, l in d["site_labels"]}
    edges = [tuple(e) for e in d["edges"]]
    edges_lab = [(lab[a], lab[b]) for a, b in edges]
    sites = sorted(lab)
    deg = {v: sum(v in e for e in edges) for v in sites}
    kw = {}
    if d.get("defaults"):
        tv = [1.0] * len(edges)
        Vv = [0.0] * len(edges)
        Uv = {v: 8.0 for v in sites}
        muv = {v: 0.0 for v in sites}
        forms = ("default",) * 3
    else:
        kw["t"], tv = build_edge_arg(d["t"], edges_lab)
        if model == "spinless":
            kw["V"], Vv = build_edge_arg(d["V"], edges_lab)
        else:
            kw["U"], Uv = build_node_arg(d["U"], lab)
        kw["mu"], muv = build_node_arg(d["mu"], lab)
        forms = (d["t"]["form"], d["V"]["form"] if model == "spinless" else d["U"]["form"], d["mu"]["form"])
    degseq = tuple(sorted(deg.values()))
    feats = {"model": model, "sym": sym, "nsites": len(sites), "nedges": len(edges), "degree_sequence": degseq,
             "label_kind": d.get("label_kind"), "forms": forms, "max_degree": max(degseq)}
    case = Case(feats)
    fn = sr.ham_fermi_hubbard_spinless_from_edges if model == "spinless" else sr.ham_fermi_hubbard_from_edges
    fp = ("ham", model, sym, tuple(edges), d.get("label_kind"), forms)
    try:
        terms = fn(sym, edges_lab, **kw)
    except Exception as e:
        case.bad("no_exception", f"{type(e).__name__}: {e}"[:300], exception=type(e).__name__)
        return {"fingerprint": fp, "nontrivial": True, "failures": case.fails}
    if not isinstance(terms, dict) or list(terms) != edges_lab:
        case.bad("edge_keys", f"keys {list(terms)!r} != edges as given {edges_lab!r}")
        return {"fingerprint": fp, "nontrivial": True, "failures": case.fails}

    # lattice Fock space, fixed mode order: sites ascending, (up, down) inside a site
    if model == "spinless":
        fock = F.Fock([("s", v) for v in sites])
        H = fock.opsum_coo(F.lattice_terms_spinless(edges, tv, Vv, muv))
    else:
        fock = F.Fock([(sp, v) for v in sites for sp in ("u", "d")])
        H = fock.opsum_coo(F.lattice_terms_spinful(edges, tv, Uv, muv))

    emb_terms = []
    n_ = lambda l: [[l, "+"], [l, "-"]]
    for e, (a, b) in enumerate(edges):
        x = terms[edges_lab[e]]
        bases = [site_basis(model, a), site_basis(model, b)]
        pb = F.parse_bases(bases)
        maps = [[F.state_charge(sym, s, species) for s in bb] for bb in pb]
        efeat = {"edge": e, "deg_pair": (deg[a], deg[b]), "flipped_vs_sorted": a > b}
        try:
            audit_valid(x)
        except Invalid as err:
            case.bad("term_valid", str(err), **efeat)
        if type(x) is not FERMI_CLS[sym] or x.charge != G.zero(sym) or tuple(ix.dual for ix in x.indices) != (False, False, True, True):
            case.bad("term_signature", f"{type(x).__name__}, charge {x.charge!r}, duals {[ix.dual for ix in x.indices]}", **efeat)
        try:
            dx = scatter_dense(x, maps * 2)
        except ValueError as err:
            case.bad("term_tables", str(err), **efeat)
            continue
        # (a) the statement's two-site operator with per-bond / per-site coefficients
        if model == "spinless":
            A, B = ["s", a], ["s", b]
            want_terms = [[-tv[e], [[A, "+"], [B, "-"]]], [-tv[e], [[B, "+"], [A, "-"]]], [Vv[e], n_(A) + n_(B)],
                          [-muv[a] / deg[a], n_(A)], [-muv[b] / deg[b], n_(B)]]
        else:
            want_terms = []
            for sp in "ud":
                A, B = [sp, a], [sp, b]
                want_terms += [[-tv[e], [[A, "+"], [B, "-"]]], [-tv[e], [[B, "+"], [A, "-"]]]]
                want_terms += [[-muv[a] / deg[a], n_(A)], [-muv[b] / deg[b], n_(B)]]
            want_terms += [[Uv[a] / deg[a], n_(["u", a]) + n_(["d", a])], [Uv[b] / deg[b], n_(["u", b]) + n_(["d", b])]]
        f2 = F.Fock(F.modes_of(bases))
        E = F.elements_oracle(f2, want_terms, bases)
        if not np.allclose(dx, E, atol=1e-12, rtol=0):
            idx = tuple(np.argwhere(~np.isclose(dx, E, atol=1e-12, rtol=0))[0].tolist())
            onsite = idx[:2] == idx[2:]
            case.bad("edge_term", f"edge {edges_lab[e]!r} element {idx}: library {dx[idx]!r}, prescribed {E[idx]!r}", diagonal_element=bool(onsite), **efeat)
        # (b) embed the term's own dense form: undo the documented bra order (sites not reversed)
        S = F.convention_signs(bases, "reversed")
        M = S[:, :, None, None] * dx
        emb_terms += F.embed_terms(M, bases)
    Hsum = fock.opsum_coo(emb_terms)
    dev, worst = F.coo_max_diff(Hsum, H)
    if dev > TOL:
        r, c = divmod(worst, fock.D)
        case.bad("sum", f"sum of embedded terms differs from the lattice Hamiltonian by {dev:g} at ({r},{c})", diagonal=bool(r == c))
    return {"fingerprint": fp, "nontrivial": bool(H), "failures": case.fails[:6],
            "sample": {"model": model, "sym": sym, "edges": edges_lab, "forms": forms, "degree_sequence": degseq, "H_nonzeros": len(H)}}


def check_site_info(d):
    lab = {v: ulab(l) for v, l in d["site_labels"]}
    edges = [tuple(e) for e in d["edges"]]
    edges_lab = [(lab[a], lab[b]) for a, b in edges]
    sites = sorted(lab)
    deg = {lab[v]: sum(v in e for e in edges) for v in sites}
    bond_dim, phys_dim = d["bond_dim"], d["phys_dim"]
    ids = d.get("ids", "default")
    kw = {}
    site_ind_id, bond_ind_id, site_tag_id = "k{}", "b{}-{}", "I{}"
    if ids == "custom":
        site_ind_id, bond_ind_id, site_tag_id = "phys[{}]", "bond<{}|{}>", "SITE{}"
    elif ids == "star":
        site_ind_id, bond_ind_id, site_tag_id = "k{},{}", "b{}-{}", "I{},{}"
    if ids != "default":
        kw = {"site_ind_id": site_ind_id, "bond_ind_id": bond_ind_id, "site_tag_id": site_tag_id}
    feats = {"label_kind": d.get("label_kind"), "nsites": len(sites), "nedges": len(edges), "phys": phys_dim is not None, "ids": ids}
    case = Case(feats)
    fp = ("info", tuple(edges), d.get("label_kind"), phys_dim is not None, ids)
    try:
        info = sr.parse_edges_to_site_info(edges_lab, bond_dim, phys_dim=phys_dim, **kw)
    except Exception as e:
        case.bad("no_exception", f"{type(e).__name__}: {e}"[:300], exception=type(e).__name__)
        return {"fingerprint": fp, "nontrivial": True, "failures": case.fails}
    if set(info) != set(deg):
        case.bad("info_sites", f"sites {sorted(map(str, info))} != {sorted(map(str, deg))}")
        return {"fingerprint": fp, "nontrivial": True, "failures": case.fails}
    fmt = lambda f, s: f.format(*s) if f.count("{}") > 1 else f.format(s)
    holders = {}
    phys_names = []
    for s, inf in info.items():
        nb = deg[s]
        n = nb + (phys_dim is not None)
        if inf.get("coordination") != nb:
            case.bad("coordination", f"site {s!r}: coordination {inf.get('coordination')!r} != degree {nb}", degree=nb)
        if not (len(inf["inds"]) == len(inf["duals"]) == len(inf["shape"]) == n):
            case.bad("info_lengths", f"site {s!r}: {len(inf['inds'])} inds, {len(inf['duals'])} duals, {len(inf['shape'])} dims, expected {n}")
            continue
        if tuple(inf.get("tags", ())) != (fmt(site_tag_id, s),):
            case.bad("info_tags", f"site {s!r}: tags {inf.get('tags')!r}")
        for j in range(nb):
            holders.setdefault(inf["inds"][j], []).append((s, inf["duals"][j], inf["shape"][j]))
        if phys_dim is not None:
            if inf["inds"][-1] != fmt(site_ind_id, s) or inf["duals"][-1] not in (0, False) or inf["shape"][-1] != phys_dim:
                case.bad("info_phys", f"site {s!r}: last index {inf['inds'][-1]!r} dual {inf['duals'][-1]!r} dim {inf['shape'][-1]!r}")
            phys_names.append(inf["inds"][-1])
    if len(set(phys_names)) != len(phys_names) or set(phys_names) & set(holders):
        case.bad("info_names", "physical index names are not unique / clash with bond names")
    want_bonds = {frozenset(e) for e in edges_lab}
    got_bonds = {}
    for name, hs in holders.items():
        if len(hs) != 2 or hs[0][0] == hs[1][0]:
            case.bad("bond_shared", f"index {name!r} is held by {[h[0] for h in hs]!r}, not by exactly two distinct sites")
            continue
        (sa, da, sha), (sb, db, shb) = hs
        key = frozenset((sa, sb))
        if key not in want_bonds:
            case.bad("bond_ends", f"index {name!r} joins {sa!r} and {sb!r}, which is not an edge")
        if key in got_bonds:
            case.bad("bond_unique", f"edge {sorted(map(str, key))} has two index names")
        got_bonds[key] = name
        if sorted((int(da), int(db))) != [0, 1]:
            case.bad("bond_directions", f"index {name!r}: directions {da!r}, {db!r} are not opposite")
        elif (da if sa < sb else db) != 0:
            case.bad("bond_canonical", f"index {name!r}: the smaller site is not the non-dual end")
        if sha != bond_dim or shb != bond_dim:
            case.bad("bond_shape", f"index {name!r}: dims {sha!r}, {shb!r} != {bond_dim}")
        lo, hi = (sa, sb) if sa < sb else (sb, sa)
        if name != bond_ind_id.format(lo, hi):
            case.bad("bond_name", f"index {name!r} != {bond_ind_id.format(lo, hi)!r}")
    if set(got_bonds) != want_bonds:
        case.bad("bond_missing", f"{len(want_bonds - set(got_bonds))} edges have no shared index")
    return {"fingerprint": fp, "nontrivial": True, "failures": case.fails[:6],
            "sample": {"edges": [list(map(str, e)) for e in edges_lab], "bond_dim": bond_dim, "phys_dim": phys_dim}}


def check_case(d):
    if d["contract"] == "C19.hamiltonian":
        return check_hamiltonian(d)
    if d["contract"] == "C19.site_info":
        return check_site_info(d)
    raise ValueError(d["contract"])


if __name__ == "__main__":
    driver_main("bounded.run_C19")
