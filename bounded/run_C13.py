"""C13 (bounded): truncated SVD keeps exactly what its cutoff and bond limit prescribe.

One case = (matrix, cutoff mode); inside, every bond limit in {-1, 1, .., total+2}
(thinned to {1, 2, 3, n/2, n-1, n, n+1, n+2} for more than 6 singular values) is
combined with every cutoff of a mode-specific list (absolute tiny / huge, just below /
at / just above individual singular values resp. cumulative weights, around and beyond
the total weight, and `no cutoff` -1 / 0.0) and every absorb option.  The kept-set
oracle `kept_set` is written from the docstring of `svd_truncated` and the property
text (bounded/oracles_linalg.py); S is taken from `sr.linalg.svd` (tied to the dense
matrix by C12).
"""

import numpy as np

from bounded.common import *  # noqa: F401,F403
from bounded.common import G, driver_main, interleave, sr, val_blocks
from bounded.oracles_linalg import (
    TOL,
    build_matrix,
    call,
    contract,
    degenerate_matrices,
    wide_and_uneven_matrices,
    has_subinfo,
    kept_set,
    mat_features,
    mat_fp,
    random_matrix,
    resolve_cutoff,
    systematic_matrices,
    total_weight,
    valid_msgs,
)

CONTRACTS = {
    "C13.svd_truncated": (
        "2-D abelian and fermionic arrays (all symmetries, directions, charges, sparsity, rank-deficient, fused from rank 3/4, "
        "pending signs, float64/complex128) incl. exactly degenerate spectra (equal / identity / integer-diagonal blocks in several sectors); "
        "cutoff_mode 1..6 x cutoffs {1e-12, 0.125, 0.5, below/at/above each of <=4 singular values resp. cumulative weights, "
        "(1-1e-7, 1, 1+1e-7, 1.5) x total weight, 1e6, -1, 0.0} x max_bond {-1, 1..total+2 (thinned above 6 values)} x absorb {-1, 0, 1, None}",
        "systematic small scope (thinned) + degenerate family + seeded random; one evaluation = one (matrix, mode) with all "
        "cutoffs x bond limits x absorbs inside; tol 1e-9",
    ),
}

ABSORBS = (None, -1, 0, 1)


def gen_cases(tier, seed):
    quick = tier == "quick"

    def fam(ms, keep=1):
        for n, m in enumerate(ms, 1):
            if quick and keep > 1 and n % keep:
                continue
            for mode in range(1, 7):
                yield {"contract": "C13.svd_truncated", "m": m, "mode": mode}

    rng = np.random.default_rng([13, 1, seed])
    rand = (random_matrix(rng, degenerate=0.3) for _ in range(120 if quick else 9000))
    yield from interleave(
        fam(degenerate_matrices(), 4),
        fam(wide_and_uneven_matrices(), 6),
        fam(systematic_matrices(stride=20 if quick else 2)),
        fam(rand),
    )


def bond_limits(n):
    """-1 and 1..n+2 (thinned in the middle for long spectra)."""
    full = list(range(1, n + 3))
    if n > 6:
        full = sorted({1, 2, 3, n // 2, n - 1, n, n + 1, n + 2})
    return [-1] + full


def cutoff_specs(mode, n, eps=1e-7):
    """Cutoff descriptors for a spectrum of n values (resolved against S at check time).  `eps` is the
    relative margin of the just-below / just-above cutoffs: it must be well above the rounding of the
    dtype in which the library compares (1e-7 for 64-bit data, 1e-3 for 32-bit data)."""
    out = [["abs", -1.0], ["abs", 0.0], ["abs", 1e-12], ["abs", 1e6], ["abs", 0.125], ["abs", 0.5]]
    ks = sorted({0, 1, n // 2, n - 1} & set(range(n)))
    if mode in (1, 2):
        for k in ks:
            for f in (1 - eps, 1.0, 1 + eps):
                out.append(["sval", k, f])
        out.append(["sval", max(n - 1, 0), 0.5])
    else:
        for k in sorted({1, 2, (n + 1) // 2, n - 1} & set(range(1, n + 1))):
            for f in (1 - eps, 1.0, 1 + eps):
                out.append(["cum", k, f])
        out.append(["cum", 1, 0.5])
    for f in (1 - eps, 1.0, 1 + eps, 1.5):
        out.append(["total", f])
    return out


def _sqdiff(p_blocks, x_blocks):
    tot = 0.0
    for s in set(p_blocks) | set(x_blocks):
        a, b = p_blocks.get(s), x_blocks.get(s)
        if a is None:
            tot += float(np.sum(np.abs(b) ** 2))
        elif b is None:
            tot += float(np.sum(np.abs(a) ** 2))
        else:
            if a.shape != b.shape:
                return None
            tot += float(np.sum(np.abs(a - b) ** 2))
    return tot


def _blocks_close(pa, pb, tol, scale):
    for s in set(pa) | set(pb):
        a, b = pa.get(s), pb.get(s)
        if a is None:
            a = np.zeros_like(b)
        if b is None:
            b = np.zeros_like(a)
        if a.shape != b.shape or np.max(np.abs(a - b), initial=0.0) > tol * scale:
            return False
    return True


def check_case(d):
    m, mode = d["m"], int(d["mode"])
    base = mat_features(m)
    x = build_matrix(m)
    tol = TOL[m["spec"].get("dtype", "float64")]
    fused = has_subinfo(x)
    fails = []
    seen = set()

    def fail(ob, what, **extra):
        feats = dict(base, cutoff_mode=mode, cutoff_ge_total=False, tie_at_limit=False)
        feats.update(extra)
        key = (ob, feats["cutoff_ge_total"], feats["tie_at_limit"], extra.get("absorb", "-"))
        if key in seen:
            return
        seen.add(key)
        fails.append((ob, what, feats))

    ok, res = call(sr.linalg.svd, x)
    if not ok:
        return {"fingerprint": ("tsvd", mat_fp(m), mode), "nontrivial": False, "failures": [("C13.no_exception", f"svd: {res}", dict(base, cutoff_mode=mode, cutoff_ge_total=False, tie_at_limit=False))]}
    _, s_full, _ = res
    Sc = {c: np.asarray(v, dtype=float) for c, v in s_full.blocks.items()}
    S = np.concatenate(list(Sc.values())) if Sc else np.zeros(0)
    n = S.size
    xv = val_blocks(x)
    scale = max([1.0] + [float(np.max(np.abs(b))) for b in xv.values() if b.size])
    tot2 = float(np.sum(S**2))
    wtot = total_weight(S, mode)
    prod_cache = {}
    combos = 0
    exact_spectrum = bool(n and np.all(S == np.round(S)) and np.max(S) < 2**20)
    single = str(m["spec"].get("dtype", "float64")) in ("float32", "complex64")

    for max_bond in bond_limits(n):
        counts_by_cutoff = []
        for cspec in cutoff_specs(mode, n, 1e-3 if single else 1e-7):
            cutoff = resolve_cutoff(S, mode, cspec)
            ge_total = bool(mode >= 3 and cutoff > 0 and cutoff >= wtot * (1 - 1e-9))
            where = f"mode={mode} cutoff={cspec}->{cutoff!r} max_bond={max_bond}"
            # ---- oracle (an interval where the cutoff sits on a rounding boundary)
            # integer-valued spectra and dyadic cutoffs: every product / partial sum of the rule is
            # exact in float64, so is the boundary; otherwise allow for rounding at the boundary
            eps = 0.0 if (mode == 1 or (exact_spectrum and (mode in (3, 5) or cutoff * 1024 == int(cutoff * 1024)))) else 1e-11
            if single and mode != 1:
                eps = 1e-5  # the library compares in single precision: partial sums and products are rounded
            if cutoff > 0:
                k_hi, tie_hi = kept_set(S, mode, cutoff * (1 - eps), max_bond)
                k_lo, tie_lo = kept_set(S, mode, cutoff * (1 + eps), max_bond)
            else:
                k_hi, tie_hi = kept_set(S, mode, cutoff, max_bond)
                k_lo, tie_lo = k_hi, tie_hi
            tie = tie_hi or tie_lo
            per_absorb = {}
            for absorb in ABSORBS:
                combos += 1
                ok, res = call(sr.linalg.svd_truncated, x, cutoff=cutoff, cutoff_mode=mode, max_bond=max_bond, absorb=absorb)
                if not ok:
                    fail("C13.no_exception", f"{where} absorb={absorb}: {res}", cutoff_ge_total=ge_total, tie_at_limit=tie)
                    continue
                U, s, VH = res
                if (s is None) != (absorb is not None):
                    fail("C13.return_shape", f"{where} absorb={absorb}: singular values {'missing' if s is None else 'returned'}")
                    continue
                msgs = valid_msgs("truncated factor", U, VH, *(() if s is None else (s,)))
                bl, br = U.indices[1], VH.indices[0]
                if bool(bl.dual) == bool(br.dual):
                    msgs.append("bond has the same direction on both factors")
                if dict(bl.chargemap) != dict(br.chargemap):
                    msgs.append(f"bond tables differ {dict(bl.chargemap)} / {dict(br.chargemap)}")
                ucols = {k[1] for k in U.blocks}
                if len(ucols) != len(U.blocks) or ucols != set(bl.chargemap) or {k[0] for k in VH.blocks} != ucols or any(k[0] != k[1] for k in VH.blocks):
                    msgs.append(f"sectors not removed together: U {sorted(U.blocks)} VH {sorted(VH.blocks)} bond {sorted(bl.chargemap)}")
                if s is not None and (set(s.blocks) != set(bl.chargemap) or any(np.shape(v) != (bl.chargemap[c],) for c, v in s.blocks.items() if c in bl.chargemap)):
                    msgs.append(f"singular-value blocks {[(c, np.shape(v)) for c, v in s.blocks.items()]} do not match the bond table {dict(bl.chargemap)}")
                if not set(bl.chargemap) <= set(Sc):
                    msgs.append("bond charge that is not a column charge of a stored block")
                if msgs:
                    for msg in msgs:
                        fail("C13.valid", f"{where} absorb={absorb}: {msg}", cutoff_ge_total=ge_total, tie_at_limit=tie)
                    continue
                per_absorb[absorb] = (U, s, VH, dict(bl.chargemap))
            if not per_absorb:
                continue
            tables = {a: tuple(sorted(t[3].items(), key=repr)) for a, t in per_absorb.items()}
            if len(set(tables.values())) > 1:
                fail("C13.absorb_same_kept", f"{where}: bond tables depend on absorb: {tables}", cutoff_ge_total=ge_total, tie_at_limit=tie)
            a0 = None if None in per_absorb else next(iter(per_absorb))
            cm = per_absorb[a0][3]
            kept_n = int(sum(cm.values()))
            kept = np.concatenate([Sc[c][: cm[c]] for c in cm]) if cm else np.zeros(0)
            disc = np.concatenate([Sc[c][cm.get(c, 0) :] for c in Sc]) if Sc else np.zeros(0)
            # ---- largest first within each charge
            if None in per_absorb:
                sret = per_absorb[None][1]
                for c, v in sret.blocks.items():
                    v = np.asarray(v, dtype=float)
                    if not np.allclose(v, Sc[c][: v.size], atol=1e-12 * scale, rtol=1e-12):
                        fail("C13.largest_first_per_charge", f"{where}: charge {c!r} returns {v.tolist()} of {Sc[c].tolist()}")
            # ---- kept set
            if cutoff > 0:
                if not (k_lo <= kept_n <= k_hi):
                    fail("C13.kept_set", f"{where}: kept {kept_n} values {np.sort(kept)[::-1].tolist()[:8]} of {np.sort(S)[::-1].tolist()[:10]}; the rule keeps {k_lo if k_lo == k_hi else (k_lo, k_hi)}", cutoff_ge_total=ge_total, tie_at_limit=tie)
                if kept.size and disc.size and kept.min() < disc.max() - 1e-13 * scale:
                    fail("C13.kept_ge_discarded", f"{where}: kept {kept.min()!r} < discarded {disc.max()!r}", cutoff_ge_total=ge_total, tie_at_limit=tie)
                counts_by_cutoff.append((cutoff, kept_n, ge_total, tie))
            else:
                want = n if max_bond < 0 else min(max_bond, n)
                if kept_n != want:
                    fail("C13.kept_set", f"{where}: no cutoff, kept {kept_n} != min(max_bond, total) = {want}", tie_at_limit=tie)
            # ---- products (once per distinct kept table)
            sig = tables[a0]
            if sig in prod_cache:
                continue
            prod_cache[sig] = True
            prods = {}
            for absorb, (U, s, VH, _) in per_absorb.items():
                if absorb is None:
                    ok, left = call(U.multiply_diagonal, s, 1)
                    if not ok:
                        fail("C13.no_exception", f"{where}: multiply_diagonal: {left}", cutoff_ge_total=ge_total, tie_at_limit=tie)
                        continue
                else:
                    left = U
                ok, p = call(contract, left, VH, fused)
                if not ok:
                    fail("C13.no_exception", f"{where} absorb={absorb}: tensordot(U, VH): {p}", cutoff_ge_total=ge_total, tie_at_limit=tie, absorb=str(absorb), empty=not U.blocks)
                    continue
                if p.charge != x.charge or len(p.indices) != 2 or [bool(i.dual) for i in p.indices] != [bool(i.dual) for i in x.indices]:
                    fail("C13.product_structure", f"{where} absorb={absorb}: product has charge {p.charge!r} / wrong directions")
                    continue
                if getattr(x, "fermionic", False) and tuple((o.label, o.dual) for o in p.oddpos) != tuple((o.label, o.dual) for o in x.oddpos):
                    fail("C13.product_structure", f"{where} absorb={absorb}: product labels {p.oddpos} != {x.oddpos}")
                prods[absorb] = val_blocks(p)
            ref = prods.get(None, next(iter(prods.values())) if prods else None)
            for absorb, pb in prods.items():
                if pb is ref:
                    continue
                if not _blocks_close(pb, ref, tol, scale):
                    fail("C13.absorb_products_equal", f"{where}: product with absorb={absorb} differs from absorb={'None' if None in prods else 'first'}", cutoff_ge_total=ge_total, tie_at_limit=tie)
            if ref is not None:
                err2 = _sqdiff(ref, xv)
                want = float(np.sum(disc**2))
                if err2 is None or abs(err2 - want) > tol * (1 + tot2):
                    fail("C13.error_identity", f"{where}: |x - U s VH|^2 = {err2!r} != discarded weight {want!r}", cutoff_ge_total=ge_total, tie_at_limit=tie)
        # ---- monotone in the cutoff (same mode, same bond limit)
        counts_by_cutoff.sort(key=lambda t: t[0])
        for (c1, k1, g1, t1), (c2, k2, g2, t2) in zip(counts_by_cutoff, counts_by_cutoff[1:]):
            if c2 > c1 * (1 + 1e-9) and k2 > k1:
                fail("C13.kept_set", f"not monotone: mode={mode} max_bond={max_bond}: cutoff {c1!r} keeps {k1}, larger cutoff {c2!r} keeps {k2}", cutoff_ge_total=bool(g1 or g2), tie_at_limit=bool(t1 or t2))
    return {
        "fingerprint": ("tsvd", mat_fp(m), mode),
        "nontrivial": n > 0,
        "failures": fails[:12],
        "sample": {"features": base, "mode": mode, "n_singular_values": int(n), "inner_combinations": combos},
    }


if __name__ == "__main__":
    driver_main("bounded.run_C13")
