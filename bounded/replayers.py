"""Native replays of Tier-P counterexamples: each replayer turns a solver model into
concrete arguments and runs the REAL function under /venv/bin/python."""

import re


def _int(model, *names, default=0):
    for n in names:
        for k, v in model.items():
            if k == n or k.startswith(n + "!"):
                try:
                    return int(str(v).replace("(- ", "-").replace(")", ""))
                except ValueError:
                    pass
    return default


def _charge(sym, model, base):
    if sym in ("Z2Z2", "U1U1"):
        return (_int(model, base + "0"), _int(model, base + "1"))
    return _int(model, base)


def replay_c17_laws(spec):
    from bounded.run_C17 import _laws

    m = re.match(r"C17\.(\w+)\.", spec["task"])
    sym = m.group(1)
    model = spec.get("model") or {}
    a, b, c = (_charge(sym, model, x) for x in "abc")
    fails, n = _laws(sym, a, [b, c])
    # also try the other roles
    for x in (b, c):
        f2, _ = _laws(sym, x, [a, b, c])
        fails += f2
    if fails:
        return {"reproduced": True, "input": {"sym": sym, "a": a, "b": b, "c": c}, "note": f"{fails[0][0]}: {fails[0][1]}"}
    return {"reproduced": False, "input": {"sym": sym, "a": a, "b": b, "c": c}, "note": "laws hold natively at the model's charges"}


def replay_c17_get_symmetry(spec):
    import symmray as sr

    bad = []
    for nm in ("Z2", "Z4", "U1", "Z2Z2", "U1U1"):
        try:
            s = sr.get_symmetry(nm)
            if type(s).__name__ != nm or sr.get_symmetry(s) != s or not (s == nm):
                bad.append(nm)
        except Exception as e:
            bad.append(f"{nm}: {e}")
    try:
        sr.get_symmetry("Z3")
        bad.append("unknown name accepted")
    except ValueError:
        pass
    return {"reproduced": bool(bad), "note": "; ".join(map(str, bad)) or "registry behaves"}


REGISTRY = [
    ("C17.get_symmetry", replay_c17_get_symmetry),
    ("C17.", replay_c17_laws),
]
