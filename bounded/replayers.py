"""Native replays of Tier-P counterexamples: each replayer turns a solver model into
concrete arguments and runs the REAL function under /venv/bin/python."""

import re


def _int(model, *names, default=0):
    for n in names:
        for k, v in model.items():
            if k == n or k.startswith(n + "!"):
                try:
                    return int(str(v).replace("(- ", "-").replace(")", ""))
                except ValueError:
                    pass
    return default


def _charge(sym, model, base):
    if sym in ("Z2Z2", "U1U1"):
        return (_int(model, base + "0"), _int(model, base + "1"))
    return _int(model, base)


def replay_c17_laws(spec):
    from bounded.run_C17 import _laws

    m = re.match(r"C17\.(\w+)\.", spec["task"])
    sym = m.group(1)
    model = spec.get("model") or {}
    a, b, c = (_charge(sym, model, x) for x in "abc")
    fails, n = _laws(sym, a, [b, c])
    # also try the other roles
    for x in (b, c):
        f2, _ = _laws(sym, x, [a, b, c])
        fails += f2
    if fails:
        return {"reproduced": True, "input": {"sym": sym, "a": a, "b": b, "c": c}, "note": f"{fails[0][0]}: {fails[0][1]}"}
    return {"reproduced": False, "input": {"sym": sym, "a": a, "b": b, "c": c}, "note": "laws hold natively at the model's charges"}


def replay_c17_get_symmetry(spec):
    import symmray as sr

    bad = []
    for nm in ("Z2", "Z4", "U1", "Z2Z2", "U1U1"):
        try:
            s = sr.get_symmetry(nm)
            if type(s).__name__ != nm or sr.get_symmetry(s) != s or not (s == nm):
                bad.append(nm)
        except Exception as e:
            bad.append(f"{nm}: {e}")
    try:
        sr.get_symmetry("Z3")
        bad.append("unknown name accepted")
    except ValueError:
        pass
    return {"reproduced": bool(bad), "note": "; ".join(map(str, bad)) or "registry behaves"}


def replay_c13_threshold(spec):
    """counterexample of the svd_truncated threshold contract: a block-diagonal matrix with exactly the
    singular values of the model (split over two charge sectors), truncated by the real code; the kept
    values are compared with the rule written from the property statement (oracles_linalg.kept_set)."""
    import re
    from fractions import Fraction

    import numpy as np

    from bounded.common import sr  # the tree under check (SYMMRAY_REPO)
    from bounded.oracles_linalg import kept_set

    w = spec.get("witness") or {}
    if "n" not in w:
        return {"reproduced": False, "note": "no witness values in the solver output"}
    n = int(w["n"])
    if not (1 <= n <= 6):
        return {"reproduced": False, "note": f"the solver's counterexample has {n} singular values (no small one found)"}
    fr = lambda v: float(Fraction(*v)) if isinstance(v, list) else float(v)  # noqa: E731
    vals = [fr(v) for v in w["values_ascending"][:n]]
    cutoff, mb = fr(w["cutoff"]), int(w["max_bond"])
    mode = int(re.search(r"mode(\d)", spec["task"]).group(1))
    if mb >= n or mb <= 0:
        mb = -1
    fails = []
    for split in range(0, n + 1):
        parts = {0: vals[:split], 1: vals[split:]}
        parts = {c: v for c, v in parts.items() if v}
        ix = sr.BlockIndex({c: len(v) for c, v in parts.items()}, dual=False)
        x = sr.Z2Array(indices=(ix, ix.conj()), charge=0, blocks={(c, c): np.diag(np.array(v, dtype="float64")) for c, v in parts.items()})
        try:
            _, s, _ = sr.linalg.svd_truncated(x, cutoff=cutoff, cutoff_mode=mode, max_bond=mb, absorb=None)
            got = sorted((float(t) for b in s.blocks.values() for t in np.asarray(b).ravel()), reverse=True)
        except Exception as e:  # noqa: BLE001
            fails.append({"split": split, "error": f"{type(e).__name__}: {e}"})
            continue
        k, tie = kept_set(vals, mode, cutoff, mb if mb > 0 else None)
        want = sorted(vals, reverse=True)[:k]
        if len(got) != k:
            fails.append({"split": split, "kept": got, "rule_keeps": want, "tie_at_bond_limit": bool(tie)})
    inp = {"singular_values": vals, "cutoff": cutoff, "cutoff_mode": mode, "max_bond": mb}
    if fails:
        return {"reproduced": True, "note": f"svd_truncated keeps {fails[0].get('kept', fails[0])} where the rule keeps {fails[0].get('rule_keeps')}", "input": inp, "failing": fails[:3]}
    return {"reproduced": False, "note": "the real code keeps what the rule permits on the solver's values (floating point may differ from the real-number model)", "input": inp}


def replay_key_covers(spec):
    """frames.key_covers: the injectivity assumption on `hasher` is tested on the real function with keys
    that differ only by the charges -1 / -2 (equal CPython hashes)."""
    if "hasher" not in spec.get("obligation", ""):
        return {"reproduced": False, "note": "no native replay for this structural obligation"}
    from bounded.common import sr  # the tree under check (SYMMRAY_REPO)

    hasher = sr.abelian_core.hasher
    k1, k2 = (((-1, 2),), False, None), (((-2, 2),), False, None)
    same_raw = hasher(k1) == hasher(k2)
    i1, i2 = sr.BlockIndex({-1: 2}, dual=False), sr.BlockIndex({-2: 2}, dual=False)
    same_ix = i1.hashkey() == i2.hashkey()
    return {
        "reproduced": bool(same_raw or same_ix),
        "note": f"hasher gives equal keys for index contents differing by charge -1 / -2: raw tuples {same_raw}, BlockIndex.hashkey {same_ix}",
        "input": {"key_1": repr(k1), "key_2": repr(k2)},
    }


def replay_c07_reshape_plan(spec):
    """counterexample of the calc_reshape_args contract: the solver's sizes are given to the real function;
    the returned plan is applied to the shape (contracts.reshape.apply_plan, integer instance)."""
    from bounded.common import sr  # the tree under check
    from bounded.oracles_fuse import PlanError, reshape_plan_apply

    w = spec.get("witness") or {}
    if "shape" not in w or "error" in w:
        return {"reproduced": False, "note": f"no witness values in the solver output ({w.get('error', '')})"}
    shape = tuple(int(x) for x in w["shape"])
    new = tuple(int(x) for x in w["newshape"])
    subs = tuple(tuple(int(x) for x in sb) if sb else None for sb in w["subsizes"])
    inp = {"shape": shape, "newshape": new, "subsizes": subs}
    f = sr.abelian_core.calc_reshape_args
    f = getattr(f, "__wrapped__", f)
    ob = spec.get("obligation", "")
    try:
        plan = f(shape, new, subs)
    except Exception as e:  # noqa: BLE001
        hit = "no_unexpected_" in ob or "identity" in ob
        return {"reproduced": bool(hit), "note": f"calc_reshape_args{(shape, new, subs)} raises {type(e).__name__}: {e}", "input": inp}
    if "identity" in ob:
        bad = plan != ((), (), ())
        return {"reproduced": bool(bad), "note": f"calc_reshape_args{(shape, new, subs)} = {plan} for a request of the current shape", "input": inp}
    try:
        got = reshape_plan_apply(shape, subs, plan)
    except PlanError as e:
        return {"reproduced": True, "note": f"calc_reshape_args{(shape, new, subs)} = {plan}: malformed plan: {e}", "input": inp}
    bad = tuple(got) != new
    return {"reproduced": bool(bad), "note": f"calc_reshape_args{(shape, new, subs)} = {plan} yields shape {tuple(got)}" + ("" if bad else " (as requested)"), "input": inp}


REGISTRY = [
    ("C07.calc_reshape_args", replay_c07_reshape_plan),
    ("frames.key_covers", replay_key_covers),
    ("C13.svd_truncated.cutoff_threshold", replay_c13_threshold),
    ("C17.get_symmetry", replay_c17_get_symmetry),
    ("C17.", replay_c17_laws),
]
