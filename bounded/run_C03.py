"""C03 (bounded): fermionic operations follow graded (Grassmann) tensor semantics.

Every result of transpose / tensordot (fused, blockwise) / @ / trace / einsum /
phase_flip / to_dense is compared element for element (exactly, integer data) with
the independent graded-tensor calculator of `oracles_fermi` (and, for small cases,
the calculator itself is cross-checked against the brute-force Grassmann algebra:
a disagreement there is a harness crash, not a finding)."""

import itertools
import json

import numpy as np

from bounded.common import *  # noqa: F401,F403
from bounded.common import (
    CHARGE_SETS,
    G,
    Invalid,
    audit_valid,
    build_array,
    conj_index_spec,
    dense_of,
    driver_main,
    jcharge,
    labels_of,
    rand_array_spec,
    rand_index_spec,
    reachable_charges,
    spec_valid_sectors,
    sr,
    stable_hash,
    ucharge,
)
from bounded import oracles_fermi as OF

_B = "quick: <=2 charges per index (rank 3: from a 3-charge pool), block sizes 1-2; thorough: <=3 charges, sizes 1-3; then seeded random up to rank 4, <=3 charges, sizes <=3, sparse, pending signs, multi-label words"
CONTRACTS = {
    "C03.transpose": (
        "x.transpose(perm) of fermionic arrays vs graded transpose: all 5 symmetries (Z4 generic class), every index structure (charge subset x direction) of rank<=3, one even and one odd total charge, all permutations (rank<=4), pending lazy signs, sparse sector sets",
        _B,
    ),
    "C03.tensordot": (
        "symmray.tensordot(a,b,axes,mode) in modes fused/blockwise/auto vs graded contraction incl. labels and global sign: (E1) every index structure of a (rank<=3) with rotating axes/b/mode, (E2) Z2 and U1: every rank pair<=3, every ordered axes choice (0..3 contracted), every direction pattern, all 4 parity combinations, both label orders; scalar results with and without preserve_array",
        _B,
    ),
    "C03.matmul": ("a @ b for rank 1/2 operands, all direction patterns, even/odd, vs graded contraction", _B),
    "C03.trace": ("x.trace() of matrices: bra-ket / ket-bra equal the graded trace, ket-ket / bra-bra raise ValueError; even and odd charge", _B),
    "C03.einsum": ("x.einsum(eq) single array, rank<=4: every choice of 0-2 traced pairs and every output order, both pair orientations, vs graded trace", _B),
    "C03.phase_flip": ("x.phase_flip(*axs): val' = (-1)^(sum of parities on axs) val, every axis subset rank<=3", _B),
    "C03.to_dense": ("x.to_dense() equals the independent densification of the val view (pending signs applied once)", _B),
}

POOL3 = {
    "Z2": [0, 1],
    "Z4": [0, 1, 2],
    "U1": [-1, 0, 1],
    "Z2Z2": [(0, 0), (0, 1), (1, 1)],
    "U1U1": [(0, 0), (0, 1), (1, 0)],
}
SYM_ORDER = ("Z2", "U1", "Z4", "Z2Z2", "U1U1")


# ----------------------------------------------------------------------------
# spec helpers (shared with run_C04 / run_C10)


def index_structs(pool, maxc):
    out = []
    for k in range(1, maxc + 1):
        for cs in itertools.combinations(pool, k):
            for d in (False, True):
                out.append((cs, d))
    return out


def mk_index(st, h, nsz=2):
    cs, d = st
    return {"cm": [[jcharge(c), 1 + stable_hash((h, c)) % nsz] for c in cs], "dual": d}


def lazy_ops(h, nd):
    if nd == 0:
        return [["phase_global"]]
    perms = list(itertools.permutations(range(nd)))
    ops = []
    r = h % 5
    if r in (0, 3):
        ops.append(["phase_flip", sorted({h % nd, (h // 3) % nd})])
    if r in (1, 3, 4):
        ops.append(["phase_global"])
    if r in (2, 4):
        ops.append(["phase_transpose", list(perms[(h // 7) % len(perms)])])
    return ops


def mk_spec(sym, indices, charge, h, label=None, lazy=False, sparse=False, dtype="float64", static=None):
    spec = {
        "sym": sym,
        "fermionic": True,
        "static": bool(h % 2 == 0) if static is None else static,
        "indices": indices,
        "charge": jcharge(charge),
        "fill_seed": h % 1000003,
        "dtype": dtype,
        "sectors": "all",
    }
    if sym == "Z4":
        spec["static"] = False
    if G.par(sym, charge):
        spec["oddpos"] = label if label is not None else 1 + h % 7
    if sparse:
        valid = spec_valid_sectors(spec)
        if len(valid) > 1:
            drop = {h % len(valid), (h // 5) % len(valid)} if len(valid) > 3 else {h % len(valid)}
            spec["sectors"] = [[jcharge(c) for c in s] for i, s in enumerate(valid) if i not in drop]
    if lazy:
        spec["pre_ops"] = lazy_ops(h, len(indices))
    return spec


def charges_by_parity(sym, indices, all_charges=False):
    """one reachable total charge per parity (or all of them)"""
    reach = reachable_charges(sym, indices) if indices else [G.zero(sym)]
    if all_charges:
        return reach[:6]
    out = []
    for p in (0, 1):
        for c in reach:
            if G.par(sym, c) == p:
                out.append(c)
                break
    return out


def pick_charge(sym, indices, parity, h=0):
    reach = reachable_charges(sym, indices) if indices else [G.zero(sym)]
    cs = [c for c in reach if G.par(sym, c) == parity]
    if not cs:
        cs = reach
    return cs[h % len(cs)]


def spec_fp(spec):
    return (
        spec["sym"],
        spec.get("static", True),
        tuple((tuple((repr(c), s) for c, s in i["cm"]), i["dual"]) for i in spec["indices"]),
        repr(spec.get("charge")),
        repr(spec.get("sectors", "all")),
        repr(spec.get("pre_ops", ())),
        repr(spec.get("oddpos")),
        spec.get("dtype", "float64"),
    )


def spec_feats(spec, prefix=""):
    sym = spec["sym"]
    return {
        prefix + "parity": G.par(sym, ucharge(spec.get("charge", jcharge(G.zero(sym))))),
        prefix + "lazy": bool(spec.get("pre_ops")),
        prefix + "sparse": spec.get("sectors", "all") != "all",
        prefix + "static": bool(spec.get("static", True)) and sym != "Z4",
        prefix + "ndim": len(spec["indices"]),
    }


def as_conj(spec):
    """spec of an operand that is *built as a conjugate*: the array described by
    `spec` (same indices / charge parity) but obtained through conj(), so that its
    labels are dual.  (conj is only used to construct the input; the oracle reads
    the resulting array.)"""
    sym = spec["sym"]
    out = dict(spec)
    out["indices"] = [conj_index_spec(i) for i in spec["indices"]]
    out["charge"] = jcharge(G.neg(sym, ucharge(spec["charge"])))
    out["pre_ops"] = list(spec.get("pre_ops", [])) + [["conj"]]
    return out


def ispecs_of(x):
    return [{"cm": [[jcharge(c), int(n)] for c, n in ix.chargemap.items()], "dual": bool(ix.dual)} for ix in x.indices]


def normalise(d):
    """what a JSON round trip does to the descriptor (replay fidelity)"""
    return json.loads(json.dumps(d))


BF_LIMIT = 600


def crosscheck_bf(gts, legs, out, g):
    """harness self-check: brute force == elementwise oracle (raises on mismatch)"""
    if OF.bf_cost(gts) > BF_LIMIT:
        return False
    res = OF.bf_eval(gts, legs, out)
    if not OF.bf_matches(res, g):
        raise AssertionError(f"oracle inconsistency: brute force {res} vs graded {g.D} {g.labels}")
    return True


# ----------------------------------------------------------------------------
# case generation


def _tier(tier):
    if tier == "quick":
        return dict(maxc=2, nsz=2, maxc3=2, pool3=POOL3, all_charges=False, nrand=60000, e2_syms=("Z2", "U1", "Z4"))
    return dict(
        maxc=3,
        nsz=3,
        maxc3=2,
        pool3={s: CHARGE_SETS[s][:4] for s in CHARGE_SETS},
        all_charges=True,
        nrand=250000,
        e2_syms=("Z2", "U1", "Z4", "Z2Z2", "U1U1"),
    )


def _structs_by_rank(sym, T):
    full = index_structs(CHARGE_SETS[sym], T["maxc"])
    maxc3 = T["maxc3"]
    if T["all_charges"] and sym in ("Z2", "U1", "Z4"):
        maxc3 = 3  # thorough: the full "<=3 charges per index" box for rank 3
    small = index_structs(T["pool3"][sym], maxc3)
    return {1: [(s,) for s in full], 2: list(itertools.product(full, repeat=2)), 3: list(itertools.product(small, repeat=3))}


def _einsum_eqs(nd):
    """all equations with 0..2 traced pairs on a rank-nd array: (lhs, rhs, pairs)"""
    out = []
    axes = list(range(nd))
    pairings = [()]
    for u, v in itertools.combinations(axes, 2):
        pairings.append(((u, v),))
        rest = [x for x in axes if x not in (u, v)]
        for p, q in itertools.combinations(rest, 2):
            if u < p:
                pairings.append(((u, v), (p, q)))
    for pr in pairings:
        lhs = [None] * nd
        for j, (u, v) in enumerate(pr):
            lhs[u] = lhs[v] = "xy"[j]
        free = [i for i in axes if lhs[i] is None]
        for i, f in enumerate(free):
            lhs[f] = "abcd"[i]
        for o in itertools.permutations(free):
            out.append(("".join(lhs), "".join(lhs[f] for f in o), pr))
    return out


def gen_cases(tier, seed):
    T = _tier(tier)
    nsz = T["nsz"]
    # ---------------- exhaustive part
    ctr = 0
    for sym in SYM_ORDER:
        S = _structs_by_rank(sym, T)
        full = index_structs(CHARGE_SETS[sym], T["maxc"])
        for nd in (1, 2, 3):
            perms = list(itertools.permutations(range(nd)))
            for st in S[nd]:
                ctr += 1
                h = stable_hash((sym, st, seed if tier != "quick" else 0))
                indices = [mk_index(s, h + i, nsz) for i, s in enumerate(st)]
                for charge in charges_by_parity(sym, indices, T["all_charges"]):
                    ctr += 1
                    a = mk_spec(sym, indices, charge, h + ctr, lazy=(ctr % 3 == 0), sparse=(ctr % 4 == 1))
                    # --- transpose
                    if nd >= 2:
                        for ip, p in enumerate(perms):
                            yield {"contract": "C03.transpose", "a": a, "perm": list(p)}
                            if (ctr + ip) % 2 == 0:
                                # the same permutation with some axes counted from the end (numpy spelling)
                                yield {"contract": "C03.transpose", "a": a, "perm": list(p), "neg_mask": (ctr + ip) % (2**nd - 1) + 1}
                        if ctr % 5 == 0:
                            yield {"contract": "C03.transpose", "a": a, "perm": None}
                    # --- phase_flip / to_dense
                    if nd <= 2 or ctr % 4 == 0:
                        subs = [list(c) for k in range(1, nd + 1) for c in itertools.combinations(range(nd), k)]
                        yield {"contract": "C03.phase_flip", "a": a, "axs": subs[ctr % len(subs)]}
                        if ctr % 3 == 0:
                            yield {"contract": "C03.to_dense", "a": a}
                    # --- tensordot E1: rotating choice of axes / partner / mode
                    k = 1 + ctr % nd
                    pa = list(itertools.permutations(range(nd), k))
                    axa = list(pa[(ctr // 2) % len(pa)])
                    nb = k + (ctr // 3) % (4 - k)
                    pb = list(itertools.permutations(range(nb), k))
                    axb = list(pb[(ctr // 5) % len(pb)])
                    bind = [None] * nb
                    for x, y in zip(axa, axb):
                        bind[y] = conj_index_spec(indices[x])
                    for j in range(nb):
                        if bind[j] is None:
                            bind[j] = mk_index(full[(ctr * 7 + j * 13) % len(full)], h + 31 * j, nsz)
                    pb_par = (ctr // 2) % 2
                    cb = pick_charge(sym, bind, pb_par, ctr)
                    la, lb = ((1, 2), (2, 1), ([[0, 1]], [[0, 0]]), (4, 3))[ctr % 4]
                    a2 = dict(a)
                    if "oddpos" in a2:
                        a2["oddpos"] = la
                    b = mk_spec(sym, bind, cb, h + 17 * ctr, label=lb, lazy=(ctr % 5 == 0), sparse=(ctr % 6 == 2))
                    yield {
                        "contract": "C03.tensordot",
                        "a": a2,
                        "b": b,
                        "axes": [axa, axb],
                        "mode": ("fused", "blockwise", "auto")[ctr % 3 if ctr % 7 == 0 else ctr % 2],
                        "preserve": bool(ctr % 2),
                    }
        # --- matmul / trace : all rank-1/2 direction patterns over all index structures
        for i1, s1 in enumerate(full):
            for i2, s2 in enumerate(full):
                if (i1 + i2) % (1 if len(full) <= 6 else 3) != 0:
                    continue
                ctr += 1
                h = stable_hash((sym, "mm", s1, s2))
                ix1 = mk_index(s1, h, nsz)
                ix2 = mk_index(s2, h + 1, nsz)
                mid = mk_index(full[(ctr * 3) % len(full)], h + 2, nsz)
                shapes = ([ix1, mid], [conj_index_spec(mid), ix2]), ([ix1, mid], [conj_index_spec(mid)]), ([mid], [conj_index_spec(mid), ix2]), ([mid], [conj_index_spec(mid)])
                ia, ib = shapes[ctr % 4]
                for pa_, pb_ in ((0, 0), (1, 0), (0, 1), (1, 1)):
                    a = mk_spec(sym, ia, pick_charge(sym, ia, pa_, ctr), h + pa_, label=(2, 1)[ctr % 2], lazy=(ctr % 3 == 0), sparse=(ctr % 5 == 0))
                    b = mk_spec(sym, ib, pick_charge(sym, ib, pb_, ctr + 1), h + 7 + pb_, label=(1, 2)[ctr % 2], lazy=(ctr % 4 == 0))
                    yield {"contract": "C03.matmul", "a": a, "b": b}
                # trace: second index either conj (legal) or equal direction (must raise)
                for same in (False, True):
                    jx = dict(ix1) if same else conj_index_spec(ix1)
                    for par in (0, 1):
                        inds = [ix1, jx]
                        reach = [c for c in reachable_charges(sym, inds) if G.par(sym, c) == par]
                        if not reach:
                            continue
                        yield {"contract": "C03.trace", "a": mk_spec(sym, inds, reach[0], h + par, lazy=(ctr % 2 == 0))}
        # --- einsum: every pairing / output order, both pair orientations
        for nd in (2, 3, 4):
            for lhs, rhs, pairs in _einsum_eqs(nd):
                for orient in itertools.product((False, True), repeat=len(pairs)):
                    for rep in range(2 if tier == "quick" else 6):
                        ctr += 1
                        h = stable_hash((sym, lhs, rhs, orient, rep))
                        inds = [None] * nd
                        for (u, v), o in zip(pairs, orient):
                            base = mk_index((full[(h + u) % len(full)][0], o), h + u, nsz)
                            inds[u] = base
                            inds[v] = conj_index_spec(base)
                        for i in range(nd):
                            if inds[i] is None:
                                inds[i] = mk_index(full[(h // 3 + 5 * i) % len(full)], h + i, nsz)
                        ch = pick_charge(sym, inds, rep % 2, h)
                        yield {"contract": "C03.einsum", "a": mk_spec(sym, inds, ch, h, lazy=(ctr % 3 == 0), sparse=(ctr % 4 == 0)), "eq": f"{lhs}->{rhs}"}
    # ---------------- E2: axes-exhaustive
    for sym in T["e2_syms"]:
        two = {"Z2": [0, 1], "U1": [0, 1], "Z4": [1, 2], "Z2Z2": [(0, 1), (1, 1)], "U1U1": [(0, 0), (-1, 1), (1, 0)][:2]}[sym]
        for na in (1, 2, 3):
            for nb in (1, 2, 3):
                for k in range(0, min(na, nb) + 1):
                    for axa in itertools.permutations(range(na), k):
                        for axb in itertools.permutations(range(nb), k):
                            if k == 0 and (na + nb) > 4:
                                continue
                            nfree_b = nb - k
                            for da in itertools.product((False, True), repeat=na):
                                for db in itertools.product((False, True), repeat=nfree_b):
                                    ctr += 1
                                    h = stable_hash((sym, na, nb, axa, axb, da, db))
                                    sz = ((1, 1), (2, 1), (1, 2))
                                    ia = [{"cm": [[jcharge(c), s] for c, s in zip(two, sz[(h + i) % 3])], "dual": da[i]} for i in range(na)]
                                    ib = [None] * nb
                                    for x, y in zip(axa, axb):
                                        ib[y] = conj_index_spec(ia[x])
                                    free = [j for j in range(nb) if ib[j] is None]
                                    for j, dd in zip(free, db):
                                        ib[j] = {"cm": [[jcharge(c), s] for c, s in zip(two, sz[(h + 5 + j) % 3])], "dual": dd}
                                    combos = ((0, 0), (0, 1), (1, 0), (1, 1))
                                    if tier == "quick" and sym not in ("Z2", "U1"):
                                        combos = (combos[ctr % 4], combos[(ctr + 1 + ctr // 4 % 3) % 4])
                                    for pa_, pb_ in combos:
                                        ctr += 1
                                        la, lb = ((1, 2), (2, 1))[ctr % 2]
                                        a = mk_spec(sym, ia, pick_charge(sym, ia, pa_, ctr), h + ctr, label=la, lazy=(ctr % 4 == 0), sparse=(ctr % 5 == 0))
                                        b = mk_spec(sym, ib, pick_charge(sym, ib, pb_, ctr // 2), h + 3 * ctr, label=lb, lazy=(ctr % 6 == 0), sparse=(ctr % 7 == 0))
                                        if ctr % 9 == 0:
                                            # partner built as a conjugate: dual label, possibly the conjugate of a's label
                                            b = as_conj(b)
                                            if ctr % 2 and "oddpos" in a and "oddpos" in b:
                                                b["oddpos"] = a["oddpos"]
                                        elif ctr % 9 == 1:
                                            a = as_conj(a)
                                        modes = ("fused", "blockwise") if (sym == "Z2" or tier != "quick") else (("fused", "blockwise")[ctr % 2],)
                                        for mode in modes:
                                            yield {"contract": "C03.tensordot", "a": a, "b": b, "axes": [list(axa), list(axb)], "mode": mode, "preserve": bool(ctr % 2)}
    # ---------------- seeded random part
    rng = np.random.default_rng([seed, 3])
    for it in range(T["nrand"]):
        sym = SYM_ORDER[it % 5]
        kind = it % 10
        dtype = "complex128" if it % 11 == 0 else "float64"
        if kind in (0, 1, 2, 3, 4, 5):
            na, nb = int(rng.integers(1, 5)), int(rng.integers(1, 5))
            k = int(rng.integers(0, min(na, nb, 3) + 1))
            if k == 0 and na + nb > 5:
                k = 1
            a = rand_array_spec(rng, sym, ndim=na, fermionic=True, max_charges=3, sizes=(1, 2, 3), lazy=bool(rng.integers(0, 2)), dtype=dtype)
            axa = rng.permutation(na)[:k].tolist()
            axb = rng.permutation(nb)[:k].tolist()
            inds = [rand_index_spec(rng, sym, 3, (1, 2, 3)) for _ in range(nb)]
            for x, y in zip(axa, axb):
                inds[y] = conj_index_spec(a["indices"][x])
            axes = [axa, axb]
            if k and rng.integers(0, 6) == 0:
                # integer form of axes: last k of a with first k of b
                axes = k
                inds = [rand_index_spec(rng, sym, 3, (1, 2, 3)) for _ in range(nb)]
                for j in range(k):
                    inds[j] = conj_index_spec(a["indices"][na - k + j])
            b = rand_array_spec(rng, sym, fermionic=True, indices=inds, lazy=bool(rng.integers(0, 2)), dtype=dtype)
            _rand_labels(rng, a, b)
            a, b = _rand_conj(rng, a, b)
            d = {"contract": "C03.tensordot", "a": a, "b": b, "axes": axes, "mode": ("fused", "blockwise", "auto")[int(rng.integers(0, 3))], "preserve": bool(rng.integers(0, 2))}
            yield d
        elif kind in (6, 7):
            nd = int(rng.integers(2, 5))
            a = rand_array_spec(rng, sym, ndim=nd, fermionic=True, max_charges=3, sizes=(1, 2, 3), lazy=bool(rng.integers(0, 2)), dtype=dtype)
            yield {"contract": "C03.transpose", "a": a, "perm": rng.permutation(nd).tolist()}
            if kind == 7:
                yield {"contract": "C03.phase_flip", "a": a, "axs": sorted(rng.choice(nd, size=int(rng.integers(1, nd + 1)), replace=False).tolist())}
                yield {"contract": "C03.to_dense", "a": a}
        elif kind == 8:
            nd = int(rng.integers(2, 5))
            eqs = _einsum_eqs(nd)
            lhs, rhs, pairs = eqs[int(rng.integers(0, len(eqs)))]
            inds = [rand_index_spec(rng, sym, 3, (1, 2, 3)) for _ in range(nd)]
            for u, v in pairs:
                inds[v] = conj_index_spec(inds[u])
            a = rand_array_spec(rng, sym, fermionic=True, indices=inds, lazy=bool(rng.integers(0, 2)), dtype=dtype)
            yield {"contract": "C03.einsum", "a": a, "eq": f"{lhs}->{rhs}"}
        else:
            na, nb = int(rng.integers(1, 3)), int(rng.integers(1, 3))
            a = rand_array_spec(rng, sym, ndim=na, fermionic=True, max_charges=3, sizes=(1, 2, 3), lazy=bool(rng.integers(0, 2)), dtype=dtype)
            inds = [rand_index_spec(rng, sym, 3, (1, 2, 3)) for _ in range(nb)]
            inds[0] = conj_index_spec(a["indices"][-1])
            b = rand_array_spec(rng, sym, fermionic=True, indices=inds, lazy=bool(rng.integers(0, 2)), dtype=dtype)
            _rand_labels(rng, a, b)
            a, b = _rand_conj(rng, a, b)
            yield {"contract": "C03.matmul", "a": a, "b": b}


def _rand_conj(rng, a, b):
    """sometimes build an operand as a conjugate (dual labels); single-label operands
    may then carry the conjugate pair l- / l+ (annihilated by the contraction)"""
    r = int(rng.integers(0, 10))
    if r >= 3:
        return a, b
    if r == 0:
        b = as_conj(b)
    elif r == 1:
        a = as_conj(a)
    else:
        a, b = as_conj(a), as_conj(b)
    la, lb = a.get("oddpos"), b.get("oddpos")
    single = lambda l: l is not None and (not isinstance(l, list) or len(l) == 1)  # noqa: E731
    if r in (0, 1) and single(la) and single(lb) and rng.integers(0, 2):
        b["oddpos"] = la
    return a, b


def _rand_labels(rng, a, b):
    """distinct labels on the odd operands: ints, tuple labels, or multi-label words"""
    r = int(rng.integers(0, 6))
    pool = rng.permutation(8).tolist()
    for j, spec in enumerate((a, b)):
        odd = "oddpos" in spec
        mine = pool[4 * j : 4 * j + 4]
        if r <= 2:
            if odd:
                spec["oddpos"] = 1 + mine[0]
        elif r == 3:
            if odd:
                spec["oddpos"] = [[mine[0] % 3, mine[1]]]
        else:
            n = (1 if odd else 0) + 2 * int(rng.integers(0, 2))
            if n:
                spec["oddpos"] = sorted(1 + m for m in mine[:n])
            else:
                spec.pop("oddpos", None)


# ----------------------------------------------------------------------------
# checking


def _exc(e):
    return f"{type(e).__name__}: {str(e)[:200]}"


def _wrap(contract, fails, feats):
    return [(f"{contract}.{suffix}", msg, feats) for suffix, msg in fails]


def check_case(d):
    d = normalise(d)
    c = d["contract"]
    a = d["a"]
    sym = a["sym"]
    xa = build_array(a)
    ga = OF.gt_of(xa, sym)
    feats = {"sym": sym, "op": c.split(".")[1]}
    feats.update(spec_feats(a, "a_"))
    nontrivial = bool(xa.blocks)
    fails = []
    sample = None
    ca = xa.charge
    ia = ispecs_of(xa)

    if c == "C03.transpose":
        perm = d["perm"]
        mask = d.get("neg_mask", 0)
        spelled = None if perm is None else tuple(ax - len(perm) if (mask >> i) & 1 else ax for i, ax in enumerate(perm))
        feats["negative_axes"] = bool(mask)
        fp = ("T", spec_fp(a), repr(spelled))
        try:
            r = xa.transpose(spelled)
        except Exception as e:  # noqa: BLE001
            return {"fingerprint": fp, "nontrivial": nontrivial, "failures": [(c + ".no_exception", _exc(e), feats)]}
        p = list(range(len(a["indices"]) - 1, -1, -1)) if perm is None else perm
        g = OF.g_transpose(ga, p)
        exp = [ia[i] for i in p]
        fl = OF.compare_to_gt(r, g, exp, ca)
        # transposition must keep the full index tables
        if hasattr(r, "indices") and not fl:
            for i, (ix, isp) in enumerate(zip(r.indices, exp)):
                if dict(ix.chargemap) != OF.spec_cm(isp):
                    fl.append(("indices", f"axis {i} table changed: {dict(ix.chargemap)}"))
        if ga.ndim <= 3:
            names = [f"x{i}" for i in range(ga.ndim)]
            crosscheck_bf([ga], [names], [names[i] for i in p], g)
        fails = _wrap(c, fl, feats)
        sample = {"sym": sym, "perm": perm, "spelled": spelled, "charge": a["charge"], "duals": [i["dual"] for i in a["indices"]]}

    elif c == "C03.tensordot":
        b = d["b"]
        xb = build_array(b)
        gb = OF.gt_of(xb, sym)
        axes = d["axes"]
        na, nb = ga.ndim, gb.ndim
        if isinstance(axes, int):
            axa, axb = list(range(na - axes, na)), list(range(axes))
            axes_arg = axes
        else:
            axa, axb = axes
            axes_arg = (tuple(axa), tuple(axb))
        feats.update(spec_feats(b, "b_"))
        feats.update({"mode": d["mode"], "ncon": len(axa), "preserve": d["preserve"], "a_nlabels": len(ga.labels), "b_nlabels": len(gb.labels), "dual_labels": any(dl for _, dl in ga.labels + gb.labels)})
        fp = ("D", spec_fp(a), spec_fp(b), repr(axes), d["mode"], d["preserve"])
        nontrivial = bool(xa.blocks) and bool(xb.blocks)
        try:
            r = sr.tensordot(xa, xb, axes=axes_arg, mode=d["mode"], preserve_array=d["preserve"])
        except Exception as e:  # noqa: BLE001
            return {"fingerprint": fp, "nontrivial": nontrivial, "failures": [(c + ".no_exception", _exc(e), feats)]}
        g = OF.g_contract(ga, gb, axa, axb)
        ib = ispecs_of(xb)
        exp = [ia[i] for i in range(na) if i not in axa] + [ib[i] for i in range(nb) if i not in axb]
        fl = OF.compare_to_gt(r, g, exp, G.add(sym, ca, xb.charge))
        if g.ndim == 0 and d["preserve"] and not hasattr(r, "blocks"):
            fl.append(("shape", "preserve_array=True returned a bare scalar"))
        if g.ndim == 0 and (not d["preserve"]) and hasattr(r, "blocks"):
            fl.append(("shape", "preserve_array=False returned an array for a scalar result"))
        la = [f"a{i}" for i in range(na)]
        lb = [f"b{i}" for i in range(nb)]
        for j, (x, y) in enumerate(zip(axa, axb)):
            la[x] = lb[y] = f"c{j}"
        out = [x for x in la if x[0] == "a"] + [x for x in lb if x[0] == "b"]
        did_bf = crosscheck_bf([ga, gb], [la, lb], out, g)
        nontrivial = nontrivial and bool(np.any(g.D != 0))
        fails = _wrap(c, fl, feats)
        sample = {"sym": sym, "axes": axes, "mode": d["mode"], "charges": [a["charge"], b["charge"]], "labels": [list(map(list, ga.labels)), list(map(list, gb.labels))], "result_labels": list(map(list, g.labels)), "bruteforce_checked": did_bf, "result_nonzero": bool(np.any(g.D != 0))}

    elif c == "C03.matmul":
        b = d["b"]
        xb = build_array(b)
        gb = OF.gt_of(xb, sym)
        feats.update(spec_feats(b, "b_"))
        fp = ("M", spec_fp(a), spec_fp(b))
        try:
            r = xa @ xb
        except Exception as e:  # noqa: BLE001
            return {"fingerprint": fp, "nontrivial": nontrivial, "failures": [(c + ".no_exception", _exc(e), feats)]}
        g = OF.g_contract(ga, gb, [ga.ndim - 1], [0])
        exp = ia[:-1] + ispecs_of(xb)[1:]
        fl = OF.compare_to_gt(r, g, exp, G.add(sym, ca, xb.charge))
        la = [f"a{i}" for i in range(ga.ndim - 1)] + ["c"]
        lb = ["c"] + [f"b{i}" for i in range(1, gb.ndim)]
        crosscheck_bf([ga, gb], [la, lb], la[:-1] + lb[1:], g)
        fails = _wrap(c, fl, feats)
        sample = {"sym": sym, "ranks": [ga.ndim, gb.ndim], "charges": [a["charge"], b["charge"]]}

    elif c == "C03.trace":
        fp = ("Tr", spec_fp(a))
        d0, d1 = ga.dual
        feats["pattern"] = ("bra" if d0 else "ket") + "-" + ("bra" if d1 else "ket")
        try:
            r = xa.trace()
            raised = None
        except ValueError as e:
            raised = e
        except Exception as e:  # noqa: BLE001
            return {"fingerprint": fp, "nontrivial": nontrivial, "failures": [(c + ".no_exception", _exc(e), feats)]}
        if d0 == d1:
            if raised is None:
                fails.append((c + ".raises", f"trace of a {feats['pattern']} matrix returned {r!r} instead of raising ValueError", feats))
        elif raised is not None:
            fails.append((c + ".no_exception", _exc(raised), feats))
        else:
            want = OF.g_trace(ga)
            if hasattr(r, "blocks") or not np.array_equal(np.asarray(r), np.asarray(want)):
                fails.append((c + ".elements", f"trace {r!r}, oracle {want!r}", feats))
            g = OF.g_einsum(ga, "xx", "")
            assert g.D[()] == want
            crosscheck_bf([ga], [["x", "x"]], [], g)
        sample = {"sym": sym, "pattern": feats["pattern"], "charge": a["charge"]}

    elif c == "C03.einsum":
        eq = d["eq"]
        lhs, rhs = eq.split("->")
        feats["eq"] = eq
        fp = ("E", spec_fp(a), eq)
        try:
            r = xa.einsum(eq)
        except Exception as e:  # noqa: BLE001
            return {"fingerprint": fp, "nontrivial": nontrivial, "failures": [(c + ".no_exception", _exc(e), feats)]}
        g = OF.g_einsum(ga, lhs, rhs)
        exp = [ia[lhs.index(q)] for q in rhs]
        fl = OF.compare_to_gt(r, g, exp, ca)
        crosscheck_bf([ga], [list(lhs)], list(rhs), g)
        fails = _wrap(c, fl, feats)
        sample = {"sym": sym, "eq": eq, "duals": [i["dual"] for i in a["indices"]], "charge": a["charge"]}

    elif c == "C03.phase_flip":
        axs = d["axs"]
        fp = ("F", spec_fp(a), repr(axs))
        try:
            r = xa.phase_flip(*axs)
        except Exception as e:  # noqa: BLE001
            return {"fingerprint": fp, "nontrivial": nontrivial, "failures": [(c + ".no_exception", _exc(e), feats)]}
        g = OF.g_phase_flip(ga, axs)
        fl = OF.compare_to_gt(r, g, ia, ca)
        fails = _wrap(c, fl, feats)
        sample = {"sym": sym, "axs": axs}

    elif c == "C03.to_dense":
        fp = ("2D", spec_fp(a))
        try:
            r = xa.to_dense()
        except Exception as e:  # noqa: BLE001
            return {"fingerprint": fp, "nontrivial": nontrivial, "failures": [(c + ".no_exception", _exc(e), feats)]}
        if np.shape(r) != ga.D.shape or not np.array_equal(np.asarray(r), ga.D):
            fails.append((c + ".elements", "to_dense() differs from the densified val view", feats))
        sample = {"sym": sym, "shape": list(ga.D.shape)}
    else:
        raise ValueError(c)
    return {"fingerprint": fp, "nontrivial": nontrivial, "failures": fails[:6], "sample": sample}


if __name__ == "__main__":
    driver_main("bounded.run_C03")
