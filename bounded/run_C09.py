"""C09 (bounded): lazily tracked fermionic signs are unobservable.

A case is a program (bounded/programs.py) split into a *prefix* that produces a fermionic
value x carrying pending signs (slot `t`) and a *suffix* of public operations reading x.
The suffix is run twice: on x as it is, and with x replaced by x.phase_sync().  Everything
the suffix computes must agree (arrays through the harness' own `val` view: indices, charge,
labels and blocks-times-pending-sign; scalars directly; decompositions through the dense
reconstruction and the spectrum, because their factors are only defined up to a gauge).

Obligations
    C09.sync.<clause>              dense_unchanged | table_empty | idempotent | operand_unchanged | inplace | blocks_kept
    C09.op_equal.<opname>          features {"op", "inherited_blockbase_op": bool, "position": 1|2, "prev_op"}
    C09.applied_once.<opname>      same comparison along chains of <= 6 sign-preserving operations
    C09.applied_once.graded_oracle chains of transposes/copies against the graded transpose of dense_of(x)
"""

import numpy as np

from bounded.common import *  # noqa: F401,F403
from bounded.common import G, arrays_equal, dense_of, dense_vector, driver_main, snapshot, snapshot_diff, sym_name, ucharge, val_blocks
from bounded.programs import (
    BLOCKBASE_OPS,
    DECOMP_OPS,
    DEFAULT_WEIGHTS,
    Gen,
    Interp,
    features_of,
    fingerprint,
    is_f,
    kind_of,
    raise_if_gen_crash,
    safe_case,
)

CONTRACTS = {
    "C09.sync": (
        "fermionic arrays (5 symmetries, static/generic classes, rank 0-4, even and odd charge) whose pending-sign table was produced "
        "by 1-6 random sign-introducing calls (transpose, phase_flip, phase_transpose, phase_global, phase_sector, conj with all flag "
        "combinations, dagger), optionally after a fuse, or as the by-product of a contraction / decomposition / unfuse",
        "quick: 1500 arrays; thorough: 30000",
    ),
    "C09.op_equal": (
        "every public operation of the program vocabulary (and pairs of them) applied to a lazy array x and to x.phase_sync(): "
        "x as left or right operand of tensordot (auto/fused/blockwise), @, einsum, trace, fuse/unfuse/reshape/squeeze/expand_dims, "
        "arithmetic, reductions, rank-0 conversions, to_dense, allclose, qr, svd, eigh, solve, svd_truncated",
        "quick: 2 targeted cases per (operation, symmetry, class) + 3000 random pairs; thorough: 20 per cell + 60000",
    ),
    "C09.op_equal_inherited": (
        "the cases of C09.op_equal whose suffix contains an operation inherited unchanged from the block base class (sum, max, min, "
        "abs, sqrt, clip, isfinite, item, float, complex, int, bool), which read the stored blocks without the pending signs on the "
        "original tree (defect F10, repaired in /repo by b46eb69); kept in a record of their own so that a regression there cannot "
        "crowd out other failures; "
        "obligations are still named C09.op_equal.<opname>",
        "as generated for C09.op_equal (about 10 % of its cases)",
    ),
    "C09.applied_once": (
        "chains of <= 6 sign-preserving operations (transposes with and without phase, copies, fuse followed by unfuse) after the "
        "lazy array; each intermediate compared between the lazy and the synchronised run, pure transpose chains also against the "
        "graded transpose of the dense value",
        "quick: 1500 chains; thorough: 30000",
    ),
}

SIGN_WEIGHTS = {"transpose": 3, "phase_flip": 3, "phase_transpose": 3, "phase_global": 1.5, "phase_sector": 1, "conj": 3, "dagger": 2}
CHAIN_WEIGHTS = {"transpose": 5, "copy": 1.5, "fuse": 3}
OP_WEIGHTS = {k: v for k, v in DEFAULT_WEIGHTS.items() if k not in ("construct",)}
TARGET_OPS = [n for n in OP_WEIGHTS] + ["drop_misaligned"]
PREFIX_FOR = {
    "eigh": "herm", "solve": "square", "trace": "square", "matmul": "square", "qr": "square", "svd": "square",
    "svd_truncated": "square", "einsum": "square", "unfuse": "fused", "unfuse_all": "fused", "reshape": "fused",
    "item": "rank0", "float": "rank0", "complex": "rank0", "int": "rank0", "bool": "rank0", "div": "ones", "squeeze": "ones",
}


def has_pending(x):
    return kind_of(x) == "arr" and is_f(x) and any(x.phases.get(s, 1) == -1 for s in x.blocks)


def make_prefix(rng, sym, static, kind, dtype="float64"):
    """Returns (Gen, t) with the value in slot t being the lazy subject, or None."""
    g = Gen(rng, sym, True, static=static, dtype=dtype, no_gauge_chain=True)
    if kind == "rank0":
        # <x|x> kept as a rank-0 array: pending global sign from the label resolution
        nd = int(rng.integers(1, 4))
        while True:
            spec = g.rand_spec(ndim=nd)
            if G.par(sym, ucharge(spec["charge"])) or rng.random() < 0.2:
                break
        g.add_operand(spec)
        cargs = {}
        if rng.random() < 0.5:
            cargs = {"phase_permutation": bool(rng.integers(0, 2)), "phase_dual": bool(rng.integers(0, 2))}
        if not g.emit(["conj", 0, cargs]):
            return None
        ax = list(range(nd))
        order = [1, 0] if rng.random() < 0.7 else [0, 1]
        args = {"b": order[1], "axes": [ax, ax], "preserve_array": True}
        if rng.random() < 0.6:
            args["mode"] = str(rng.choice(["auto", "fused", "blockwise"]))
        if not g.emit(["tensordot", order[0], args]):
            return None
        t = len(g.vals) - 1
        if rng.random() < 0.4:
            g.chain = True
            g.random_step({"phase_global": 1, "transpose": 1, "conj": 1})
            g.chain = False
            t = g.slots("arr")[-1]
        return g, t
    if kind == "derived":
        # pending signs as a by-product of ordinary operations
        g.no_gauge_chain = False
        g.add_operand(g.rand_spec(ndim=int(rng.choice([1, 2, 2, 3, 3]))))
        w = {"tensordot": 4, "qr": 2, "svd": 2, "fuse": 2, "unfuse": 3, "transpose": 2, "conj": 2, "matmul": 2, "einsum": 1, "svd_truncated": 1, "solve": 1}
        for _ in range(int(rng.integers(1, 4))):
            if g.dead or g.random_step(w) is None:
                break
        if g.dead:
            return None
        c = [i for i in g.slots("arr") if has_pending(g.vals[i])]
        if not c:
            return None
        g.no_gauge_chain = True
        for m in g.metas:   # the subject itself may be a factor; what is computed from it is compared on its own terms
            m["gauge"] = False
        return g, int(rng.choice(c))
    if kind in ("square", "herm"):
        g.add_operand(g.square_spec(zero_charge=(kind == "herm") or rng.random() < 0.4))
        if kind == "herm":
            if not g.emit_all([["dagger", 0, {}], ["add", 0, {"b": 1}]]):
                return None
    elif kind == "ones":
        g.add_operand(g.ones_spec(ndim=int(rng.integers(1, 4))))
    elif kind == "solve_rhs":
        a = g.square_spec()
        g.add_operand(a)
        g.add_operand(g.rand_spec(indices=[a["indices"][0]]))
    else:
        g.add_operand(g.rand_spec(ndim=int(rng.choice([1, 2, 2, 3, 3, 4]))))
        if rng.random() < 0.4:
            x = g.vals[0]
            steps, _ = g._partner_steps(0)
            if steps[0][0] == "construct":
                g.add_operand(steps[0][2]["spec"])
                # keep the subject the latest array for the chain below
                g.emit(["copy", 0, {}])
    if kind == "fused" and len(g.vals[0].indices) > 1:
        g.try_op("fuse", slot=g.slots("arr")[-1])
    g.chain = True
    n = int(rng.integers(1, 7))
    for _ in range(n):
        if g.dead or g.random_step(SIGN_WEIGHTS) is None:
            break
    g.chain = False
    if g.dead or not g.slots("arr"):
        return None
    return g, g.slots("arr")[-1]


def lazy_prefix(rng, sym, static, kind, dtype="float64", tries=6):
    """a prefix whose subject really carries a stored -1 (retry a few times)"""
    out = None
    for _ in range(tries):
        out = make_prefix(rng, sym, static, kind, dtype)
        if out is not None and has_pending(out[0].vals[out[1]]):
            return out
    return out


def _desc(contract, g, nprefix, t, tag):
    if contract == "C09.op_equal" and any(s[0] in BLOCKBASE_OPS for s in g.steps[nprefix:]):
        contract = "C09.op_equal_inherited"
    return {"contract": contract, "program": g.program(), "sync_at": {"nprefix": nprefix, "slot": t}, "gen": tag}


def _focus_on(g, t):
    g.focus = {t}
    g.metas[t]["taint"] = True


def gen_cases(tier, seed):
    tnum = 0 if tier == "quick" else 1
    kinds = ["plain", "plain", "plain", "fused", "square", "herm", "ones", "rank0", "solve_rhs", "derived", "derived"]
    syms = ("Z2", "U1", "Z2Z2", "U1U1", "Z4")
    # (1) sync
    n = 1500 if tier == "quick" else 30000
    for k in range(n):
        tag = [tier, seed, "sync", k]

        def make(k=k, tag=tag):
            rng = np.random.default_rng([seed, tnum, 1, k])
            out = lazy_prefix(rng, syms[k % 5], bool(rng.integers(0, 2)), kinds[int(rng.integers(0, len(kinds)))],
                              "complex128" if rng.random() < 0.15 else "float64")
            if out is None:
                return None
            g, t = out
            return _desc("C09.sync", g, len(g.steps), t, tag)

        yield from safe_case("C09.sync", tag, make)
    # (2) targeted single operations (optionally followed by a second one)
    reps = 2 if tier == "quick" else 20
    k = 0
    for rep in range(reps):
        for sym in syms:
            for static in (True, False):
                if sym == "Z4" and static:
                    continue
                for op in TARGET_OPS:
                    k += 1
                    tag = [tier, seed, "single", k, op]

                    def make(k=k, op=op, sym=sym, static=static, rep=rep, tag=tag):
                        rng = np.random.default_rng([seed, tnum, 2, k])
                        kind = PREFIX_FOR.get(op, "plain")
                        if op == "solve" and rng.random() < 0.5:
                            kind = "solve_rhs"
                        if kind == "plain" and rng.random() < 0.25:
                            kind = "derived"
                        out = lazy_prefix(rng, sym, static, kind)
                        if out is None:
                            return None
                        g, t = out
                        npre = len(g.steps)
                        _focus_on(g, t)
                        if not g.try_op(op) and not g.try_op(op):
                            return None
                        if rep % 2 == 1 and not g.dead:
                            g.random_step(OP_WEIGHTS)
                        return _desc("C09.op_equal", g, npre, t, tag)

                    yield from safe_case("C09.op_equal", tag, make)
    # (2') random pairs
    n = 3000 if tier == "quick" else 60000
    for k in range(n):
        tag = [tier, seed, "pair", k]

        def make(k=k, tag=tag):
            rng = np.random.default_rng([seed, tnum, 3, k])
            out = lazy_prefix(rng, syms[k % 5], bool(rng.integers(0, 2)), kinds[int(rng.integers(0, len(kinds)))],
                              "complex128" if rng.random() < 0.1 else "float64")
            if out is None:
                return None
            g, t = out
            npre = len(g.steps)
            _focus_on(g, t)
            for _ in range(2):
                if g.dead or g.random_step(OP_WEIGHTS) is None:
                    break
            if len(g.steps) == npre:
                return None
            return _desc("C09.op_equal", g, npre, t, tag)

        yield from safe_case("C09.op_equal", tag, make)
    # (3) applied exactly once
    n = 1500 if tier == "quick" else 30000
    for k in range(n):
        tag = [tier, seed, "chain", k]

        def make(k=k, tag=tag):
            rng = np.random.default_rng([seed, tnum, 4, k])
            out = lazy_prefix(rng, syms[k % 5], bool(rng.integers(0, 2)), "plain" if rng.random() < 0.8 else "fused")
            if out is None:
                return None
            g, t = out
            npre = len(g.steps)
            _focus_on(g, t)
            # the chain continues from the subject: make it the latest array
            if g.slots("arr")[-1] != t:
                g.emit(["copy", t, {}])
            g.chain = True
            only_transposes = rng.random() < 0.4
            for _ in range(int(rng.integers(1, 7))):
                if g.dead:
                    break
                name = g.random_step({"transpose": 5, "copy": 1} if only_transposes else CHAIN_WEIGHTS)
                if name == "fuse" and not g.dead:
                    g.try_op("unfuse_all" if rng.random() < 0.5 else "unfuse")   # round trip
            return _desc("C09.applied_once", g, npre, t, tag)

        yield from safe_case("C09.applied_once", tag, make)


# ----------------------------------------------------------------------------
# comparison


def _close(a, b, exact):
    a, b = np.asarray(a), np.asarray(b)
    if a.shape != b.shape:
        return False
    if exact:
        return bool(np.array_equal(a, b, equal_nan=True))
    return bool(np.allclose(a, b, atol=1e-9, rtol=1e-9, equal_nan=True))


def _diag(v, ix):
    """diagonal matrix of a block vector laid out along index `ix` (sorted charges; absent block = zeros)"""
    parts = []
    for c in sorted(ix.chargemap):
        b = v.blocks.get(c)
        if b is None:
            parts.append(np.zeros(ix.chargemap[c]))
        else:
            b = np.asarray(b).reshape(-1)
            if b.size != ix.chargemap[c]:
                raise AssertionError("vector block does not fit the bond")
            parts.append(b)
    return np.diag(np.concatenate(parts)) if parts else np.zeros((0, 0))


def reconstruct(op, res):
    """gauge-independent content of a decomposition: (dense reconstruction, spectrum or None)"""
    if op == "qr":
        q, r = res
        return dense_of(q) @ dense_of(r), None
    if op == "eigh":
        w, v = res
        dv = dense_of(v)
        return dv @ _diag(w, v.indices[1]) @ dv.conj().T, np.sort(dense_vector(w))
    if len(res) == 3:
        u, s, vh = res
        du = dense_of(u)
        return du @ _diag(s, u.indices[1]) @ dense_of(vh), np.sort(dense_vector(s))
    u, vh = res
    return dense_of(u) @ dense_of(vh), None


def compare_results(op, ra, rb, exact):
    """'' if the two result lists agree, else a description"""
    if len(ra) != len(rb):
        return f"number of results differs ({len(ra)} vs {len(rb)})"
    if op in DECOMP_OPS:
        for a, b in zip(ra, rb):
            if kind_of(a) != kind_of(b):
                return "result kinds differ"
            if kind_of(a) == "arr":
                # structure of the factors must agree even if their gauge need not
                if [tuple(ix.chargemap.items()) for ix in a.indices] != [tuple(ix.chargemap.items()) for ix in b.indices] or a.charge != b.charge:
                    return "factor structure differs"
        (da, sa), (db, sb) = reconstruct(op, ra), reconstruct(op, rb)
        if not _close(da, db, False):
            return f"reconstructions differ (max abs {np.abs(da - db).max() if da.shape == db.shape else 'shape'})"
        if sa is not None and not _close(sa, sb, False):
            return "spectra differ"
        return ""
    for n, (a, b) in enumerate(zip(ra, rb)):
        ka, kb = kind_of(a), kind_of(b)
        if ka != kb:
            return f"result {n}: kinds differ ({ka} vs {kb})"
        if ka in ("arr", "vec"):
            ok, why = arrays_equal(a, b, exact=exact, tol=1e-9, why=True)
            if not ok:
                return f"result {n}: {why}"
        elif ka == "bool":
            if bool(a) != bool(b):
                return f"result {n}: {a} vs {b}"
        else:
            if not _close(a, b, exact):
                return f"result {n}: lazy gives {a!r}, synchronised gives {b!r}"
    return ""


def _perm_sign(parities, perm):
    inv = 0
    for k in range(len(perm)):
        for l in range(k + 1, len(perm)):
            if perm[k] > perm[l] and parities[perm[k]] and parities[perm[l]]:
                inv += 1
    return -1 if inv % 2 else 1


def graded_transpose_check(x, steps, final):
    """final must be the graded transpose of x under the composite of `steps` (transposes with
    phase=True contribute the inversion parity of the odd positions, phase=False and copies none)."""
    sym = sym_name(x)
    nd = len(x.indices)
    blocks = {s: b for s, b in val_blocks(x).items()}
    for op, slot, args in steps:
        if op == "copy":
            continue
        axes = args.get("axes")
        perm = tuple(range(nd - 1, -1, -1)) if axes is None else tuple(axes)
        new = {}
        for s, b in blocks.items():
            par = [G.par(sym, c) for c in s]
            sg = _perm_sign(par, perm) if args.get("phase", True) else 1
            new[tuple(s[p] for p in perm)] = sg * np.transpose(b, perm)
        blocks = new
    got = val_blocks(final)
    if set(got) != set(blocks):
        return "sector sets differ from the graded transpose"
    for s in got:
        if not np.array_equal(got[s], blocks[s]):
            return f"block {s!r} is not the graded transpose of the dense value"
    return ""


def check_sync(x, fails, feats):
    s0 = snapshot(x)
    xs = x.phase_sync()
    d = snapshot_diff(s0, snapshot(x))
    if d:
        fails.append(("C09.sync.operand_unchanged", f"out-of-place phase_sync changed its operand: {d}", feats))
    if xs is x:
        fails.append(("C09.sync.operand_unchanged", "out-of-place phase_sync returned its operand", feats))
    if not np.array_equal(dense_of(x), dense_of(xs)):
        fails.append(("C09.sync.dense_unchanged", "dense_of(x) != dense_of(x.phase_sync())", feats))
    ok, why = arrays_equal(x, xs, exact=True, why=True)
    if not ok:
        fails.append(("C09.sync.dense_unchanged", f"x and x.phase_sync() differ: {why}", feats))
    if list(xs.blocks) != list(x.blocks):
        fails.append(("C09.sync.blocks_kept", "phase_sync changed the set/order of stored sectors", feats))
    if xs._phases != {}:
        fails.append(("C09.sync.table_empty", f"table after sync: {xs._phases}", feats))
    s1 = snapshot(xs)
    xss = xs.phase_sync()
    if snapshot_diff(s1, snapshot(xs)) or not arrays_equal(xss, xs, exact=True) or xss._phases != {}:
        fails.append(("C09.sync.idempotent", "second phase_sync changed something", feats))
    for s, b in xs.blocks.items():
        if not np.array_equal(np.asarray(b), np.asarray(x.blocks[s]) * x.phases.get(s, 1)):
            fails.append(("C09.sync.dense_unchanged", f"block {s!r} of the synchronised array is not sign * stored block", feats))
            break
    y = x.copy()
    r = y.phase_sync(inplace=True)
    if r is not y:
        fails.append(("C09.sync.inplace", "phase_sync(inplace=True) did not return the receiver", feats))
    if y._phases != {} or not arrays_equal(y, xs, exact=True):
        fails.append(("C09.sync.inplace", "in-place sync differs from out-of-place sync", feats))
    if snapshot_diff(s0, snapshot(x)):
        fails.append(("C09.sync.operand_unchanged", "in-place sync of a copy changed the original", feats))


def check_case(d):
    raise_if_gen_crash(d)
    prog = d["program"]
    npre, t = d["sync_at"]["nprefix"], d["sync_at"]["slot"]
    contract = d["contract"]
    A, B = Interp(prog), Interp(prog)
    for it in (A, B):
        while it.k < npre:
            r = it.exec_next()
            if r.exc is not None:
                # the prefix is not this contract's subject (C01 owns exceptions)
                return {"fingerprint": fingerprint(prog, t), "nontrivial": False, "failures": []}
    x = A.vals[t]
    nontrivial = has_pending(x)
    base = {"sym": sym_name(x), "static": bool(x.static_symmetry), "ndim": len(x.indices), "parity": int(G.par(sym_name(x), x.charge)),
            "nphases": len(x.phases)}
    fails = []
    if contract == "C09.sync":
        check_sync(x, fails, dict(base, op="phase_sync", inherited_blockbase_op=False))
        return {"fingerprint": fingerprint(prog, t), "nontrivial": nontrivial, "failures": fails[:6],
                "sample": {"sym": base["sym"], "prefix": [s[0] for s in prog["steps"]], "nphases": len(x.phases)}}
    B.vals[t] = B.vals[t].phase_sync()
    tag = "applied_once" if contract == "C09.applied_once" else "op_equal"
    prev = None
    pos = 0
    while not A.done():
        step = A.peek()
        op = step[0]
        pos += 1
        feats = features_of(A.vals, step)
        feats.update(base)
        feats.update(op=op, inherited_blockbase_op=op in BLOCKBASE_OPS, position=pos, prev_op=prev)
        ra, rb = A.exec_next(), B.exec_next()
        if ra.exc is not None or rb.exc is not None:
            if (ra.exc is None) != (rb.exc is None) or type(ra.exc) is not type(rb.exc):
                fails.append((f"C09.{tag}.{op}", f"step {ra.k} {op} {step[2]}: lazy run -> {ra.exc!r}, synchronised run -> {rb.exc!r}", feats))
            break
        exact = not any(A.metas[j]["inexact"] for j in ra.slots) and op not in ("norm", "sqrt")
        why = compare_results(op, ra.results, rb.results, exact)
        if why:
            fails.append((f"C09.{tag}.{op}", f"step {ra.k} {op} {step[2]}: {why}", feats))
            break   # later steps only inherit the difference
        prev = op
    if contract == "C09.applied_once" and not fails and not A.dead:
        suffix = prog["steps"][npre:]
        # follow the chain: each step reads the previous array result, starting at t
        chain_ok = all(s[0] in ("transpose", "copy") for s in suffix) and suffix
        if chain_ok:
            cur = t
            nvals = len(prog["operands"])
            # slots of results: recompute by replay bookkeeping
            slots = []
            it = Interp(prog)
            while not it.done():
                r = it.exec_next()
                slots.append(r.slots)
            steps = []
            for k, s in enumerate(suffix):
                if s[1] != cur:
                    steps = None
                    break
                steps.append(s)
                cur = slots[npre + k][0]
            if steps:
                why = graded_transpose_check(x, steps, A.vals[cur])
                if why:
                    fails.append(("C09.applied_once.graded_oracle", why, dict(base, op="transpose", inherited_blockbase_op=False)))
    if not fails and not A.dead:
        # the pending-sign table belongs to one array: applying the pending signs of one value in place
        # must not touch the table of any other live value (else that value's signs are applied zero times)
        arrs = []
        for j, v in enumerate(A.vals):
            if hasattr(v, "phases") and hasattr(v, "phase_sync") and not any(v is w for _, w in arrs):
                arrs.append((j, v))
        before = {j: dict(v.phases) for j, v in arrs}
        for i, (j, v) in enumerate(arrs):
            if not before[j]:
                continue
            v.phase_sync(inplace=True)
            for j2, w in arrs[i + 1:]:
                if dict(w.phases) != before[j2]:
                    fails.append(("C09.applied_once.sign_table_not_shared", f"applying the pending signs of value {j} in place changed the pending-sign table of value {j2}",
                                  dict(base, op="phase_sync", inherited_blockbase_op=False, shared_table=True)))
                    break
            if fails:
                break
    return {
        "fingerprint": fingerprint(prog, t),
        "nontrivial": nontrivial,
        "failures": fails[:6],
        "sample": {"sym": base["sym"], "prefix": [s[0] for s in prog["steps"][:npre]], "suffix": [s[0] for s in prog["steps"][npre:]],
                   "nphases": len(x.phases)},
    }


if __name__ == "__main__":
    driver_main("bounded.run_C09")
