"""C04 (bounded): the value of a fermionic tensor network, its overall sign and the
labels left on it do not depend on the contraction route.

A case is one network (2-4 tensors) plus a list of explicit routes.  Every route is
executed with symmray; all results must be observably equal (labels included) and
equal to the value computed by the independent graded calculator (`g_network`), which
itself is cross-checked against the brute-force Grassmann algebra for small networks.
"""

import itertools
import json

import numpy as np

from bounded.common import *  # noqa: F401,F403
from bounded.common import (
    CHARGE_SETS,
    G,
    build_array,
    conj_index_spec,
    driver_main,
    jcharge,
    labels_of,
    rand_index_spec,
    reachable_charges,
    sr,
    stable_hash,
    ucharge,
)
from bounded import oracles_fermi as OF
from bounded.run_C03 import as_conj, mk_spec, normalise, pick_charge, spec_feats, spec_fp

CONTRACTS = {
    "C04.routes_conj_labels": (
        "as C04.routes but some odd tensors are built as conjugates, so label words mix dual and non-dual operators: (i) all label values distinct, (ii) a label and its conjugate on two different tensors (pair annihilation along some routes); pairs, 3-chain, triangle; Z2 and U1 (+ random all symmetries)",
        "every parity assignment with >=1 odd tensor, every non-empty conjugation mask over the odd tensors, rotating label assignments; all contraction orders x operand orders with rotating variants",
    ),
    "C04.routes": (
        "networks of 2-4 fermionic tensors (pairs with 1-3 bonds, 3-chain, triangle, 4-chain, 4-cycle; 0/1 dangling leg per tensor in every pattern), every bond orientation, every even/odd assignment, every assignment of distinct labels (ints and tuples) to the odd tensors, sparse operands, pending signs; routes: every pairwise contraction order x both operand orders, with rotating variants (axis-pair listing order, fermionically pre-transposed operands, one-bond-then-trace instead of simultaneous multi-bond contraction, fused/blockwise); all routes equal each other and the graded oracle (brute-force Grassmann value for small cases)",
        "quick: Z2 exhaustive as stated (4-tensor networks: all parities/orientations, 24 routes each), other symmetries every k-th structure; bond tables of 2 charges, block sizes 1-2; thorough: all symmetries, all routes; then seeded random networks with <=3 charges per leg, sizes <=3",
    ),
}

# topologies: (name, number of tensors, bonds)
TOPOS = [
    ("pair1", 2, [(0, 1)]),
    ("pair2", 2, [(0, 1), (0, 1)]),
    ("pair3", 2, [(0, 1), (0, 1), (0, 1)]),
    ("chain3", 3, [(0, 1), (1, 2)]),
    ("tri", 3, [(0, 1), (1, 2), (2, 0)]),
    ("tri2", 3, [(0, 1), (0, 1), (1, 2), (2, 0)]),
    ("chain4", 4, [(0, 1), (1, 2), (2, 3)]),
    ("cycle4", 4, [(0, 1), (1, 2), (2, 3), (3, 0)]),
]

# two-charge leg tables containing both parities
LEG_TABLES = {
    "Z2": [[0, 1]],
    "U1": [[0, 1], [-1, 0], [1, 2]],
    "Z4": [[0, 1], [1, 2], [2, 3], [0, 3]],
    "Z2Z2": [[(0, 0), (0, 1)], [(0, 1), (1, 1)], [(1, 0), (1, 1)]],
    "U1U1": [[(0, 0), (0, 1)], [(1, 0), (1, 1)], [(-1, 1), (0, 0)]],
}

LETTERS = "abcdefghijklmnopqrstuvwxyzABCDEFGHIJKLMNOPQRSTUVWXYZ"


# ----------------------------------------------------------------------------
# executing a route with symmray


class ScalarMismatch(Exception):
    pass


def exec_route(arrays, legs, route, out):
    """Run one route.  Steps: ["dot", i, j, names, pre_i, pre_j, mode, rest]
    contracts slot i (left operand) with slot j over the bonds `names` (in this
    listing order) after the optional fermionic pre-transposes; the other shared
    bonds `rest` are then traced on the result with einsum.  The result is appended
    as a new slot.  The last slot, transposed to the leg order `out`, is returned."""
    slots = [(x, list(l)) for x, l in zip(arrays, legs)]
    for st in route:
        _, i, j, names, pi, pj, mode, rest = st
        xa, la = slots[i]
        xb, lb = slots[j]
        if pi is not None:
            xa = xa.transpose(tuple(pi))
            la = [la[p] for p in pi]
        if pj is not None:
            xb = xb.transpose(tuple(pj))
            lb = [lb[p] for p in pj]
        axa = [la.index(n) for n in names]
        axb = [lb.index(n) for n in names]
        kw = {"mode": mode} if mode else {}
        r = sr.tensordot(xa, xb, axes=(tuple(axa), tuple(axb)), preserve_array=True, **kw)
        if r.ndim == 0 and not rest:
            # closed network: the plain-number form of the same contraction must carry the same sign
            num = sr.tensordot(xa, xb, axes=(tuple(axa), tuple(axb)), **kw)
            ref = dense_of(r)
            if not np.allclose(np.asarray(num), np.asarray(ref).reshape(()), rtol=0, atol=0):
                raise ScalarMismatch(f"scalar result {num!r} != value of the rank-0 array {np.asarray(ref).reshape(()).item()!r} (operands {i},{j})")
        lr = [x for k, x in enumerate(la) if k not in axa] + [x for k, x in enumerate(lb) if k not in axb]
        if rest:
            names_u = list(dict.fromkeys(lr))
            let = {x: LETTERS[k] for k, x in enumerate(names_u)}
            keep = [x for x in lr if x not in rest]
            eq = "".join(let[x] for x in lr) + "->" + "".join(let[x] for x in keep)
            r = r.einsum(eq, preserve_array=True)
            lr = keep
        slots.append((r, lr))
    x, l = slots[-1]
    assert sorted(l) == sorted(out), (l, out)
    perm = [l.index(n) for n in out]
    if perm != list(range(len(perm))):
        x = x.transpose(tuple(perm))
    return x


# ----------------------------------------------------------------------------
# generating routes


def base_routes(legs, allow_outer=False):
    """every sequence of pairwise merges (pairs sharing a bond, unless allow_outer)
    with both operand orders: list of [(left slot, right slot, shared names), ...]"""
    n = len(legs)

    def rec(active, nxt):
        if len(active) == 1:
            yield []
            return
        for i, j in itertools.combinations(sorted(active), 2):
            if not allow_outer and not any(x in active[j] for x in active[i]):
                continue
            for p, q in ((i, j), (j, i)):
                lp, lq = active[p], active[q]
                sh = [x for x in lp if x in lq]
                new = [x for x in lp if x not in sh] + [x for x in lq if x not in sh]
                rest = {k: v for k, v in active.items() if k not in (i, j)}
                rest[nxt] = new
                for tail in rec(rest, nxt + 1):
                    yield [(p, q, sh)] + tail

    return list(rec({i: list(l) for i, l in enumerate(legs)}, n))


def _perm_from(h, n):
    if n <= 1:
        return list(range(n))
    if n > 5:
        return np.random.default_rng(int(h) & 0x7FFFFFFF).permutation(n).tolist()
    ps = list(itertools.permutations(range(n)))
    return list(ps[h % len(ps)])


def apply_variant(legs, base, kind, h):
    """turn a base route into explicit steps with the variant `kind`:
    0 plain / 1 permuted listing, blockwise / 2 pre-transposed operands, fused /
    3 sequential (first bond by tensordot, others traced) / 4 everything at once"""
    slot_legs = {i: list(l) for i, l in enumerate(legs)}
    nxt = len(legs)
    steps = []
    kinds_used = set()
    for si, (p, q, sh) in enumerate(base):
        hh = stable_hash((h, si, kind))
        names = list(sh)
        pi = pj = None
        mode = None
        rest = []
        if kind in (1, 4) and len(names) > 1:
            names = [names[k] for k in _perm_from(hh, len(names))]
            if names != list(sh):
                kinds_used.add("listing")
        if kind in (1, 4):
            mode = "blockwise"
        if kind in (2, 4):
            pi = _perm_from(hh // 7, len(slot_legs[p]))
            pj = _perm_from(hh // 11, len(slot_legs[q]))
            kinds_used.add("pretranspose")
            if kind == 2:
                mode = "fused"
        if kind in (3, 4) and len(names) > 1:
            m = 1 + (hh // 13) % (len(names) - 1)
            names, rest = names[:m], names[m:]
            kinds_used.add("sequential")
        steps.append(["dot", p, q, names, pi, pj, mode, rest])
        lp, lq = slot_legs[p], slot_legs[q]
        slot_legs[nxt] = [x for x in lp if x not in sh] + [x for x in lq if x not in sh]
        nxt += 1
    return steps, sorted(kinds_used)


def sample_base_routes(legs, h, count):
    """`count` distinct random merge sequences (for networks too large to enumerate);
    deterministic in h.  Pairs sharing a bond are preferred; operand order random."""
    rng = np.random.default_rng(int(h) & 0x7FFFFFFF)
    n = len(legs)
    out = []
    for _ in range(count * 4):
        active = {i: list(l) for i, l in enumerate(legs)}
        nxt = n
        route = []
        while len(active) > 1:
            pairs = [(i, j) for i, j in itertools.combinations(sorted(active), 2) if any(x in active[j] for x in active[i])]
            if not pairs:
                pairs = list(itertools.combinations(sorted(active), 2))
            i, j = pairs[int(rng.integers(0, len(pairs)))]
            if rng.integers(0, 2):
                i, j = j, i
            lp, lq = active.pop(i), active.pop(j)
            sh = [x for x in lp if x in lq]
            active[nxt] = [x for x in lp if x not in sh] + [x for x in lq if x not in sh]
            route.append((i, j, sh))
            nxt += 1
        if route not in out:
            out.append(route)
        if len(out) >= count:
            break
    return out


def gen_routes(legs, h, max_base=None, all_variants=False, allow_outer=False, sample=False):
    if sample:
        base = sample_base_routes(legs, h, max_base)
        routes = []
        for ri, b in enumerate(base):
            steps, _ = apply_variant(legs, b, (h + ri) % 5, h + ri)
            if steps not in routes:
                routes.append(steps)
        return routes
    base = base_routes(legs, allow_outer)
    if max_base is not None and len(base) > max_base:
        # deterministic spread
        step = len(base) / max_base
        off = h % len(base)
        base = [base[(off + int(k * step)) % len(base)] for k in range(max_base)]
    routes = []
    for ri, b in enumerate(base):
        kinds = range(5) if all_variants else [(h + ri) % 5]
        for kind in kinds:
            steps, _ = apply_variant(legs, b, kind, h + ri)
            if steps not in routes:
                routes.append(steps)
    # always have the plain left-to-right route first
    plain, _ = apply_variant(legs, base_routes(legs, allow_outer)[0], 0, 0)
    if plain in routes:
        routes.remove(plain)
    return [plain] + routes


# ----------------------------------------------------------------------------
# building networks


def make_network(sym, topo, dang, orient, parities, labels, h, nsz=2, lazy=False, sparse=False, tables=None, dtype="float64", dang_duals=None, conj_mask=None):
    name, n, bonds = topo
    tabs = tables or LEG_TABLES[sym]
    legs = [[] for _ in range(n)]
    idx = [[] for _ in range(n)]

    def table(k):
        cs = tabs[stable_hash((h, "t", k)) % len(tabs)]
        big = stable_hash((h, "s", k)) % 10
        return [[jcharge(c), (1 + stable_hash((h, k, c)) % nsz) if big >= 6 else 1] for c in cs]

    for bi, (i, j) in enumerate(bonds):
        ix = {"cm": table(bi), "dual": bool(orient[bi])}
        legs[i].append(f"b{bi}")
        idx[i].append(ix)
        legs[j].append(f"b{bi}")
        idx[j].append(conj_index_spec(ix))
    q = 0
    for t in range(n):
        for r in range(dang[t]):
            dd = bool(dang_duals[q]) if dang_duals is not None else bool(stable_hash((h, "dd", t, r)) % 2)
            legs[t].append(f"d{t}{r}")
            idx[t].append({"cm": table(100 + 10 * t + r), "dual": dd})
            q += 1
    specs = []
    for t in range(n):
        perm = _perm_from(stable_hash((h, "lp", t)), len(legs[t]))
        legs[t] = [legs[t][p] for p in perm]
        idx[t] = [idx[t][p] for p in perm]
        ch = pick_charge(sym, idx[t], parities[t], h + t)
        lab = labels[t]
        if lab is None and G.par(sym, ch):
            # requested parity unreachable on these legs: the tensor is odd after all
            lab = [[9, 50 + t]] if any(isinstance(l, list) for l in labels) else 50 + t
        specs.append(
            mk_spec(sym, idx[t], ch, h + 101 * t, label=lab, lazy=lazy and (stable_hash((h, "lz", t)) % 2 == 0), sparse=sparse and (stable_hash((h, "sp", t)) % 2 == 0), dtype=dtype)
        )
        if conj_mask is not None and conj_mask[t]:
            specs[-1] = as_conj(specs[-1])
    return specs, legs


def label_assignments(parities, tuple_labels=False, cap=None, h=0):
    """every assignment of distinct labels 1..m to the m odd tensors"""
    odd = [i for i, p in enumerate(parities) if p]
    m = len(odd)
    perms = list(itertools.permutations(range(1, m + 1))) or [()]
    if cap is not None and len(perms) > cap:
        off = h % len(perms)
        perms = [perms[(off + k * (len(perms) // cap)) % len(perms)] for k in range(cap)]
    out = []
    for pm in perms:
        lab = [None] * len(parities)
        for i, l in zip(odd, pm):
            lab[i] = [[l % 2, l]] if tuple_labels else l
        out.append(lab)
    return out


def dangling_patterns(n, maxd=1):
    return list(itertools.product(range(maxd + 1), repeat=n))


def gen_cases(tier, seed):
    quick = tier == "quick"
    ctr = 0
    for sym in ("Z2", "U1", "Z4", "Z2Z2", "U1U1"):
        for topo in TOPOS:
            name, n, bonds = topo
            nb = len(bonds)
            if quick:
                stride = 1 if sym == "Z2" else (3 if n <= 3 else 16)
                if n == 4 and sym in ("Z2Z2", "U1U1"):
                    stride = 40
            else:
                stride = 1 if (sym in ("Z2", "U1") or n <= 3) else 3
            dps = dangling_patterns(n)
            if n == 2:
                dps = dps + [(2, 0), (0, 2), (2, 1)]
            if n == 4:
                dps = [(0, 0, 0, 0), (1, 0, 0, 1), (1, 1, 1, 1), (0, 1, 0, 0)] if quick else dps
            k = 0
            for dang in dps:
                if any(sum(1 for b in bonds if t in b) + dang[t] > 4 for t in range(n)):
                    continue
                for orient in itertools.product((0, 1), repeat=nb):
                    for parities in itertools.product((0, 1), repeat=n):
                        if sum(dang) == 0 and sum(parities) % 2:
                            continue  # closed network of odd parity: identically zero
                        for labels in label_assignments(parities, tuple_labels=False, cap=(6 if not quick or n <= 3 else 3), h=ctr):
                            k += 1
                            if k % stride:
                                continue
                            ctr += 1
                            h = stable_hash((sym, name, dang, orient, parities, repr(labels)))
                            lab = labels
                            if ctr % 5 == 0:
                                lab = [None if l is None else [[l % 2, l]] for l in labels]
                            specs, legs = make_network(sym, topo, dang, orient, parities, lab, h, nsz=2 if quick else 3, lazy=(ctr % 3 == 0), sparse=(ctr % 4 == 0))
                            if n <= 2:
                                routes = gen_routes(legs, h, all_variants=True, allow_outer=False)
                            elif n == 3:
                                routes = gen_routes(legs, h, all_variants=not quick, allow_outer=(ctr % 7 == 0))
                            else:
                                routes = gen_routes(legs, h, max_base=24 if quick else None)
                            yield {"contract": "C04.routes", "sym": sym, "topo": name, "tensors": specs, "legs": legs, "routes": routes}
    # ---------------- conjugated tensors: dual labels, conjugate label pairs
    for sym in ("Z2", "U1") if quick else ("Z2", "U1", "Z4", "Z2Z2", "U1U1"):
        for topo in TOPOS[:5]:
            name, n, bonds = topo
            nb = len(bonds)
            k = 0
            for dang in dangling_patterns(n):
                for parities in itertools.product((0, 1), repeat=n):
                    odd = [i for i, p in enumerate(parities) if p]
                    if not odd or (sum(dang) == 0 and len(odd) % 2):
                        continue
                    for cm_bits in itertools.product((0, 1), repeat=len(odd)):
                        if not any(cm_bits):
                            continue
                        for shared in (False, True):
                            if shared and (len(odd) < 2 or len(set(cm_bits)) < 2):
                                continue
                            k += 1
                            ctr += 1
                            if quick and sym != "Z2" and k % 3:
                                continue
                            h = stable_hash((sym, name, "cj", dang, parities, cm_bits, shared))
                            orient = [(h >> i) & 1 for i in range(nb)]
                            mask = [False] * n
                            for i, bit in zip(odd, cm_bits):
                                mask[i] = bool(bit)
                            vals = _perm_from(h // 3, len(odd))
                            labels = [None] * n
                            for i, v in zip(odd, vals):
                                labels[i] = 1 + v
                            if shared:
                                # a conjugated and a plain tensor carry the same label value
                                i0 = next(i for i in odd if mask[i])
                                i1 = next(i for i in odd if not mask[i])
                                labels[i1] = labels[i0]
                            if ctr % 4 == 0:
                                labels = [None if l is None else [[l % 2, l]] for l in labels]
                            specs, legs = make_network(sym, topo, dang, orient, parities, labels, h, nsz=2, lazy=(ctr % 3 == 0), sparse=(ctr % 5 == 0), conj_mask=mask)
                            routes = gen_routes(legs, h, all_variants=(n == 2), allow_outer=True)
                            yield {"contract": "C04.routes_conj_labels", "sym": sym, "topo": name, "tensors": specs, "legs": legs, "routes": routes, "shared_label_values": shared}
    # ---------------- seeded random networks
    rng = np.random.default_rng([seed, 4])
    nrand = 1500 if quick else 40000
    for it in range(nrand):
        sym = ("Z2", "U1", "Z4", "Z2Z2", "U1U1")[it % 5]
        topo = TOPOS[int(rng.integers(0, len(TOPOS)))]
        name, n, bonds = topo
        dang = [int(rng.integers(0, 2)) for _ in range(n)]
        for t in range(n):
            while sum(1 for b in bonds if t in b) + dang[t] > 4:
                dang[t] -= 1
        orient = rng.integers(0, 2, size=len(bonds)).tolist()
        parities = rng.integers(0, 2, size=n).tolist()
        labs = rng.permutation(9)[:n].tolist()
        tl = bool(rng.integers(0, 4) == 0)
        labels = [([[l % 3, l]] if tl else 1 + l) if p else None for l, p in zip(labs, parities)]
        pool = CHARGE_SETS[sym]
        tables = []
        for _ in range(4):
            kk = int(rng.integers(1, min(3, len(pool)) + 1))
            tables.append([pool[i] for i in sorted(rng.choice(len(pool), size=kk, replace=False).tolist())])
        h = int(rng.integers(0, 2**31 - 1))
        specs, legs = make_network(sym, topo, dang, orient, parities, labels, h, nsz=3, lazy=bool(rng.integers(0, 2)), sparse=bool(rng.integers(0, 2)), tables=tables, dtype="complex128" if it % 13 == 0 else "float64")
        routes = gen_routes(legs, h, max_base=10, all_variants=(n == 2), allow_outer=bool(rng.integers(0, 5) == 0))
        if it % 4 == 3:
            mask = rng.integers(0, 2, size=n).astype(bool).tolist()
            specs = [as_conj(sp) if m else sp for sp, m in zip(specs, mask)]
            yield {"contract": "C04.routes_conj_labels", "sym": sym, "topo": name, "tensors": specs, "legs": legs, "routes": routes, "shared_label_values": False}
            continue
        yield {"contract": "C04.routes", "sym": sym, "topo": name, "tensors": specs, "legs": legs, "routes": routes}


# ----------------------------------------------------------------------------
# checking

BF_FULL = 700
BF_EAGER = 4000


def network_oracle(gts, legs, out):
    """graded value of the network; cross-checked against brute force when small.
    Returns (GT, how)"""
    g = OF.g_network(gts, legs, out)
    cost = OF.bf_cost(gts)
    how = "graded"
    if cost <= BF_FULL:
        res = OF.bf_eval(gts, legs, out)
        how = "graded+bruteforce"
    elif cost <= BF_EAGER * 40 and max(t.D.size for t in gts) <= 40:
        try:
            res = OF.bf_eval(gts, legs, out, eager=True, max_terms=BF_EAGER)
            how = "graded+bruteforce(eager)"
        except MemoryError:
            res = None
    else:
        res = None
    if res is not None and not OF.bf_matches(res, g):
        raise AssertionError(f"oracle inconsistency: brute force {res} vs graded {g.D} {g.labels}")
    return g, how


def route_feats(route):
    f = set()
    for st in route:
        if st[4] is not None or st[5] is not None:
            f.add("pretranspose")
        if st[7]:
            f.add("sequential")
        if st[6]:
            f.add(st[6])
        if not st[3]:
            f.add("outer")
    return sorted(f)


def _has_conj_pair(arrays):
    seen = {}
    for x in arrays:
        for l, dl in labels_of(x):
            seen.setdefault(repr(l), set()).add(dl)
    return any(len(v) == 2 for v in seen.values())


def check_network(d, arrays, contract="C04"):
    """shared by C04 and C10: run all routes of d on `arrays`, compare with the
    graded oracle and with each other.  Returns (failures, g, how, results)"""
    sym = d["sym"]
    legs = d["legs"]
    allnames = [x for lg in legs for x in lg]
    out = sorted(x for x in allnames if allnames.count(x) == 1)
    gts = [OF.gt_of(x, sym) for x in arrays]
    g, how = network_oracle(gts, legs, out)
    exp = []
    for name in out:
        for spec_legs, x in zip(legs, arrays):
            if name in spec_legs:
                ix = x.indices[spec_legs.index(name)]
                exp.append({"cm": [[jcharge(c), int(s)] for c, s in ix.chargemap.items()], "dual": bool(ix.dual)})
    charge = G.zero(sym)
    for x in arrays:
        charge = G.add(sym, charge, x.charge)
    feats0 = {
        "sym": sym,
        "topo": d.get("topo"),
        "n": len(arrays),
        "parities": [G.par(sym, x.charge) for x in arrays],
        "lazy": any(bool(getattr(x, "_phases", None)) for x in arrays),
        "labels": [[list(map(str, l)) for l in labels_of(x)] for x in arrays],
        "dual_labels": any(dl for x in arrays for _, dl in labels_of(x)),
        "conj_label_pair": _has_conj_pair(arrays),
    }
    fails = []
    first = None
    results = []
    for ri, route in enumerate(d["routes"]):
        feats = dict(feats0, route=ri, route_kinds=route_feats(route), order=[[s[1], s[2]] for s in route])
        try:
            r = exec_route(arrays, legs, route, out)
        except Exception as e:  # noqa: BLE001
            fails.append((f"{contract}.no_exception", f"route {ri}: {type(e).__name__}: {str(e)[:200]}", feats))
            continue
        results.append(r)
        fl = OF.compare_to_gt(r, g, exp, charge)
        for suffix, msg in fl:
            fails.append((f"{contract}.value.{suffix}", f"route {ri} {route}: {msg}", feats))
        if first is None:
            first = r
        else:
            ok, why = OF.same_observable(first, r, exp)
            if not ok:
                ob = "route_independence.labels_only" if "LABELS_ONLY" in why else "route_independence"
                fails.append((f"{contract}.{ob}", f"route {ri} {route} differs from route 0 {d['routes'][0]}: {why}", feats))
    return fails, g, how, results


def _dedupe(fails):
    """keep the first failure of every obligation (a network has many routes)"""
    seen, out = set(), []
    for f in fails:
        if f[0] not in seen:
            seen.add(f[0])
            out.append(f)
    return out


def check_case(d):
    d = normalise(d)
    arrays = [build_array(s) for s in d["tensors"]]
    fails, g, how, _ = check_network(d, arrays, d["contract"])
    # Networks in which a label and its conjugate sit on different tensors are OUTSIDE the
    # quantifier of C04 ("distinct ... odd-position labels"): there the label word left on the
    # result may differ between routes by a sign-compensated, algebraically equal word.  Such
    # label-word-only differences are recorded as information, not as failures.
    n_out = len([f for f in fails if f[2].get("conj_label_pair") and (f[0].endswith("labels_only") or f[0].endswith("labels_normal_form"))])
    fails = [f for f in fails if not (f[2].get("conj_label_pair") and (f[0].endswith("labels_only") or f[0].endswith("labels_normal_form")))]
    fp = ("N", d["sym"], d.get("topo"), tuple(spec_fp(s) for s in d["tensors"]), repr(d["legs"]), stable_hash(repr(d["routes"])))
    return {
        "fingerprint": fp,
        "nontrivial": bool(np.any(g.D != 0)),
        "failures": _dedupe(fails)[:6],
        "sample": {"sym": d["sym"], "topo": d.get("topo"), "legs": d["legs"], "charges": [s["charge"] for s in d["tensors"]], "n_routes": len(d["routes"]), "oracle": how, "result_labels": [list(map(str, l)) for l in g.labels], "nonzero": bool(np.any(g.D != 0)), "label_word_differences_outside_quantifier": n_out},
    }


if __name__ == "__main__":
    driver_main("bounded.run_C04")
