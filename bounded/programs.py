"""Random *programs* over the public symmray API: generator + interpreter.

A program is self-contained JSON:

    {"operands": [<array spec> | <vector spec>, ...],
     "steps":    [[opname, slot, args], ...]}

The interpreter keeps a list of values (arrays, BlockVectors, scalars, dense
ndarrays).  Operands fill slots 0..n-1; every step applies ONE public operation
to the value in `slot` (further operand slots are named in `args` under the keys
"b" / "v") and appends its result(s) — tuples are appended element-wise, `None`
members dropped.  Steps with ``args["inplace"] = True`` mutate the value in
`slot` through the library's own in-place switch and append nothing.

The generator (class `Gen`) *executes* the program while it builds it, so that
every step is applicable to the live values: contractible axis pairs are found
by matching the index tables and opposite directions, only axes with sub-index
information are unfused, only size-one zero-charge axes are squeezed, only 2-D
values are decomposed, ...  All arguments are concrete, so that re-running a
descriptor is deterministic.

The applicability predicates below are the harness' own (written against the
documented preconditions), they never call symmray's `matches`/`check`.
"""

import json
import operator
import traceback

import numpy as np

from bounded.common import (  # noqa: F401
    CHARGE_SETS,
    G,
    build_array,
    conj_index_spec,
    index_struct,
    is_valid,
    jcharge,
    labels_of,
    rand_array_spec,
    rand_index_spec,
    sr,
    sym_name,
    ucharge,
    val_blocks,
)

LETTERS = "abcdefghijklmnop"
SLOT_KEYS = ("b", "v")

# operations that offer an in-place switch (C14 second clause)
INPLACE_OPS = (
    "transpose", "conj", "dagger", "squeeze", "expand_dims", "fuse", "unfuse",
    "unfuse_all", "reshape", "multiply_diagonal", "sync_charges", "phase_flip",
    "phase_transpose", "phase_sector", "phase_global", "phase_sync",
    "drop_misaligned", "add", "sub", "mul", "div", "scale",
)
# defined on the block base class, i.e. on raw blocks (defect F10 for lazy fermionic arrays until /repo b46eb69)
BLOCKBASE_OPS = ("sum", "max", "min", "abs", "sqrt", "clip", "isfinite", "item", "float", "complex", "int", "bool")
DECOMP_OPS = ("qr", "svd", "eigh", "svd_truncated")
INEXACT_OPS = DECOMP_OPS + ("solve", "norm", "sqrt")
SIGN_OPS = ("transpose", "phase_flip", "phase_transpose", "phase_global", "conj", "dagger", "phase_sector")


# ----------------------------------------------------------------------------
# value helpers


def kind_of(v):
    if isinstance(v, sr.AbelianArray):
        return "arr"
    if isinstance(v, sr.BlockVector):
        return "vec"
    if isinstance(v, (bool, np.bool_)):
        return "bool"
    if isinstance(v, np.ndarray) and v.ndim > 0:
        return "dense"
    return "scalar"


def is_f(x):
    return bool(getattr(x, "fermionic", False))


def ix_spec(ix):
    return {"cm": [[jcharge(c), int(d)] for c, d in ix.chargemap.items()], "dual": bool(ix.dual)}


def _sub_match(p, q):
    if bool(p.dual) == bool(q.dual):
        return False
    return all(q.chargemap.get(c, d) == d for c, d in p.chargemap.items())


def ix_match(p, q):
    """Harness' own 'contractible' predicate: opposite directions, charge tables
    agree on their common charges (and share at least one), sub-index information
    either absent on both or matching."""
    if bool(p.dual) == bool(q.dual):
        return False
    common = [c for c in p.chargemap if c in q.chargemap]
    if not common:
        return False
    if any(p.chargemap[c] != q.chargemap[c] for c in common):
        return False
    sp, sq = p.subinfo, q.subinfo
    if (sp is None) != (sq is None):
        return False
    if sp is not None:
        if len(sp.indices) != len(sq.indices):
            return False
        if not all(_sub_match(u, v) and (u.subinfo is None) and (v.subinfo is None) for u, v in zip(sp.indices, sq.indices)):
            return False
        if any(sp.extents[c] != sq.extents[c] for c in common):
            return False
    return True


def labels_ok(a, b):
    """Two fermionic arrays can be contracted iff no label occurs twice with the
    same direction in the concatenated label word."""
    la = labels_of(a) + labels_of(b)
    return len(set(la)) == len(la)


def same_struct(a, b):
    return (
        type(a) is type(b)
        and len(a.indices) == len(b.indices)
        and a.charge == b.charge
        and all(index_struct(p) == index_struct(q) for p, q in zip(a.indices, b.indices))
        and labels_of(a) == labels_of(b)
    )


def nblocks(x):
    return len(x.blocks)


def strip_fill(obj):
    """Structure of a descriptor without fill data (for fingerprints)."""
    if isinstance(obj, dict):
        return {k: strip_fill(v) for k, v in obj.items() if k not in ("fill_seed", "gen")}
    if isinstance(obj, (list, tuple)):
        return [strip_fill(v) for v in obj]
    return obj


def fingerprint(prog, extra=None):
    return json.dumps([strip_fill(prog), extra], sort_keys=True, default=str)


def safe_case(contract, tag, make):
    """Run one case builder of a driver's gen_cases.  A crash of the *generator* (harness
    bug) becomes a descriptor whose check raises - it is then reported as a checker crash
    of this one case instead of aborting the whole driver run."""
    try:
        d = make()
    except Exception:
        d = {"contract": contract, "gen_crash": traceback.format_exc()[-1500:], "gen": tag}
    if d is not None:
        yield d


def raise_if_gen_crash(d):
    if "gen_crash" in d:
        raise RuntimeError("the case generator crashed:\n" + d["gen_crash"])


def build_vector(spec):
    rng = np.random.default_rng([int(spec.get("fill_seed", 0)) & 0x7FFFFFFF, 77])
    blocks = {}
    for c, n in spec["blocks"]:
        v = rng.integers(1, 4, size=(int(n),)).astype("float64")
        if spec.get("signed", True):
            v = v * rng.choice([-1.0, 1.0], size=(int(n),))
        blocks[ucharge(c)] = v.astype(spec.get("dtype", "float64"))
    return sr.BlockVector(blocks)


def build_value(spec):
    if spec.get("kind") == "vector":
        return build_vector(spec)
    return build_array(spec)


def mutated_slots(step):
    """slots an in-place step is allowed to change"""
    op, slot, args = step
    if not (args.get("inplace") or op == "apply_to_arrays"):
        return []
    return [slot] + ([args["b"]] if op == "drop_misaligned" else [])


def step_inputs(step):
    op, slot, args = step
    out = [] if slot is None else [slot]
    for k in SLOT_KEYS:
        if k in args:
            out.append(args[k])
    return out


# ----------------------------------------------------------------------------
# executing one step: `make_thunk` decodes the arguments (harness code) and
# returns a closure that performs ONLY library calls.


class LibraryError(Exception):
    """A symmray call raised on an applicable step."""

    def __init__(self, step, exc):
        super().__init__(f"{type(exc).__name__}: {exc}")
        self.step = step
        self.exc = exc


def _tup(a):
    return None if a is None else tuple(a)


def make_thunk(vals, step):
    op, slot, args = step
    x = None if slot is None else vals[slot]
    inplace = bool(args.get("inplace", False))
    ikw = {"inplace": True} if inplace else {}
    via = bool(args.get("via", False))

    if op == "construct":
        return lambda: build_array(args["spec"])
    if op == "construct_vector":
        return lambda: build_vector(args)
    if op == "copy":
        return lambda: x.copy()
    if op == "drop_block":  # harness helper: a copy without its k-th stored block
        def f():
            y = x.copy()
            ks = list(y.blocks)
            del y.blocks[ks[args["k"] % len(ks)]]
            return y
        return f
    if op == "transpose":
        axes = _tup(args.get("axes"))
        kw = dict(ikw)
        if "phase" in args:
            kw["phase"] = args["phase"]
        if via:
            return lambda: sr.transpose(x, axes, **kw)
        return lambda: x.transpose(axes, **kw)
    if op == "conj":
        kw = {k: args[k] for k in ("phase_permutation", "phase_dual") if k in args}
        kw.update(ikw)
        if via:
            return lambda: sr.conj(x, **kw)
        return lambda: x.conj(**kw)
    if op == "dagger":
        kw = {k: args[k] for k in ("phase_dual",) if k in args}
        kw.update(ikw)
        if args.get("prop") and not inplace:
            return lambda: x.H
        return lambda: x.dagger(**kw)
    if op == "fuse":
        groups = [tuple(g) for g in args["groups"]]
        kw = {k: args[k] for k in ("mode", "expand_empty") if k in args}
        kw.update(ikw)
        if via:
            return lambda: sr.fuse(x, *groups)
        return lambda: x.fuse(*groups, **kw)
    if op == "unfuse":
        return lambda: x.unfuse(args["axis"], **ikw)
    if op == "unfuse_all":
        return lambda: x.unfuse_all(**ikw)
    if op == "reshape":
        shp = tuple(args["newshape"])
        if via:
            return lambda: sr.reshape(x, shp, **ikw)
        return lambda: x.reshape(shp, **ikw)
    if op == "squeeze":
        ax = args.get("axis")
        ax = tuple(ax) if isinstance(ax, list) else ax
        if via:
            return lambda: sr.squeeze(x, ax)
        return lambda: x.squeeze(ax, **ikw)
    if op == "expand_dims":
        kw = dict(ikw)
        if "c" in args:
            kw["c"] = ucharge(args["c"])
        if "dual" in args:
            kw["dual"] = args["dual"]
        if via:
            return lambda: sr.expand_dims(x, args["axis"])
        return lambda: x.expand_dims(args["axis"], **kw)
    if op == "sync_charges":
        return lambda: x.sync_charges(**ikw)
    if op == "neg":
        return lambda: -x
    if op == "scale":
        s, form = args["s"], args.get("form", "mul")
        if isinstance(s, list):
            s = complex(*s)
        if inplace:
            fn = {"mul": operator.imul, "div": operator.itruediv, "add": operator.iadd, "sub": operator.isub, "pow": operator.ipow}[form]
            return lambda: fn(x, s)
        return {
            "mul": lambda: x * s,
            "rmul": lambda: s * x,
            "div": lambda: x / s,
            "add": lambda: x + s,
            "radd": lambda: s + x,
            "sub": lambda: x - s,
            "rsub": lambda: s - x,
            "rdiv": lambda: s / x,
            "pow": lambda: x**s,
        }[form]
    if op in ("add", "sub", "mul", "div"):
        b = vals[args["b"]]
        if inplace:
            fn = {"add": operator.iadd, "sub": operator.isub, "mul": operator.imul, "div": operator.itruediv}[op]
        else:
            fn = {"add": operator.add, "sub": operator.sub, "mul": operator.mul, "div": operator.truediv}[op]
        return lambda: fn(x, b)
    if op == "phase_flip":
        return lambda: x.phase_flip(*args["axs"], **ikw)
    if op == "phase_transpose":
        return lambda: x.phase_transpose(_tup(args.get("axes")), **ikw)
    if op == "phase_global":
        return lambda: x.phase_global(**ikw)
    if op == "phase_sector":
        sec = tuple(ucharge(c) for c in args["sector"])
        return lambda: x.phase_sector(sec, **ikw)
    if op == "phase_sync":
        return lambda: x.phase_sync(**ikw)
    if op == "apply_to_arrays":  # in-place by definition (no flag); pure function
        s = args["s"]
        def f():
            x.apply_to_arrays(lambda a: a * s)
            return x
        return f
    if op == "to_dense":
        return lambda: x.to_dense()
    if op == "allclose":
        b = vals[args["b"]]
        return lambda: x.allclose(b)
    if op in ("norm", "sum", "max", "min", "abs", "sqrt", "isfinite"):
        if via and op in ("sum", "max", "min", "abs", "sqrt", "isfinite"):
            return lambda: getattr(sr, op)(x)
        if via and op == "norm":
            return lambda: sr.linalg.norm(x)
        return lambda: getattr(x, op)()
    if op == "clip":
        if via:
            return lambda: sr.clip(x, args["lo"], args["hi"])
        return lambda: x.clip(args["lo"], args["hi"])
    if op == "item":
        return lambda: x.item()
    if op in ("float", "complex", "int", "bool"):
        fn = {"float": float, "complex": complex, "int": int, "bool": bool}[op]
        return lambda: fn(x)
    if op == "trace":
        if via:
            return lambda: sr.trace(x)
        return lambda: x.trace()
    if op == "einsum":
        kw = {"preserve_array": True} if args.get("preserve_array") else {}
        if via and not kw:
            return lambda: sr.einsum(args["eq"], x)
        return lambda: x.einsum(args["eq"], **kw)
    if op == "multiply_diagonal":
        v = vals[args["v"]]
        if via:
            return lambda: sr.multiply_diagonal(x, v, args["axis"])
        return lambda: x.multiply_diagonal(v, args["axis"], **ikw)
    if op in ("align_axes", "drop_misaligned"):
        b = vals[args["b"]]
        axes = (tuple(args["axes"][0]), tuple(args["axes"][1]))
        if op == "drop_misaligned":
            return lambda: sr.abelian_core.drop_misaligned_sectors(x, b, axes[0], axes[1], **ikw)
        if via:
            return lambda: sr.align_axes(x, b, axes)
        return lambda: x.align_axes(b, axes)
    if op == "tensordot":
        b = vals[args["b"]]
        axes = args["axes"]
        axes = axes if isinstance(axes, int) else (tuple(axes[0]), tuple(axes[1]))
        kw = {}
        if "mode" in args:
            kw["mode"] = args["mode"]
        if args.get("preserve_array"):
            kw["preserve_array"] = True
        return lambda: sr.tensordot(x, b, axes, **kw)
    if op == "matmul":
        b = vals[args["b"]]
        return lambda: x @ b
    if op == "qr":
        if args.get("stabilized"):
            return lambda: sr.linalg.qr(x, stabilized=True)
        return lambda: sr.linalg.qr(x)
    if op == "svd":
        return lambda: sr.linalg.svd(x)
    if op == "eigh":
        return lambda: sr.linalg.eigh(x)
    if op == "solve":
        b = vals[args["b"]]
        return lambda: sr.linalg.solve(x, b)
    if op == "svd_truncated":
        kw = {k: args[k] for k in ("cutoff", "cutoff_mode", "max_bond", "absorb") if k in args}
        return lambda: sr.linalg.svd_truncated(x, **kw)
    raise ValueError(f"unknown op {op!r}")


def normalise(res):
    if isinstance(res, tuple):
        return [r for r in res if r is not None]
    return [res]


def step_meta(step, metas):
    """Bookkeeping flags of the results of a step, a pure function of the step and
    the flags of its inputs (so generator and checker agree):
    gauge   - factor of a decomposition (not unique; compare reconstructions)
    inexact - went through LAPACK / sqrt (compare with tolerance)
    """
    op = step[0]
    ins = [metas[i] for i in step_inputs(step)]
    return {
        "gauge": op in DECOMP_OPS or any(m["gauge"] for m in ins),
        "inexact": op in INEXACT_OPS or any(m["inexact"] for m in ins),
    }


class StepResult:
    __slots__ = ("k", "step", "results", "slots", "exc", "inplace")

    def __init__(self, k, step, results=(), slots=(), exc=None, inplace=False):
        self.k, self.step, self.results, self.slots, self.exc, self.inplace = k, step, list(results), list(slots), exc, inplace


class Interp:
    """Steps through a program.  Harness errors propagate; library errors are
    returned in StepResult.exc (and the program cannot be continued)."""

    def __init__(self, prog):
        self.prog = prog
        self.vals = [build_value(o) for o in prog["operands"]]
        self.metas = [{"gauge": False, "inexact": False} for _ in self.vals]
        self.k = 0
        self.dead = False

    @property
    def steps(self):
        return self.prog["steps"]

    def done(self):
        return self.dead or self.k >= len(self.steps)

    def peek(self):
        return self.steps[self.k]

    def exec_next(self):
        step = self.steps[self.k]
        k = self.k
        thunk = make_thunk(self.vals, step)
        inplace = bool(step[2].get("inplace")) or step[0] == "apply_to_arrays"
        try:
            res = thunk()
        except Exception as e:  # raised inside symmray
            self.dead = True
            return StepResult(k, step, exc=e, inplace=inplace)
        self.k += 1
        results = normalise(res)
        if inplace:
            return StepResult(k, step, results, [], inplace=True)
        m = step_meta(step, self.metas)
        slots = list(range(len(self.vals), len(self.vals) + len(results)))
        self.vals.extend(results)
        self.metas.extend(dict(m) for _ in results)
        return StepResult(k, step, results, slots)


def features_of(vals, step):
    """Input features of a step for known-finding matchers."""
    op, slot, args = step
    f = {"op": op}
    x = None if slot is None else vals[slot]
    if op == "construct":
        sp = args["spec"]
        f.update(fermionic=bool(sp.get("fermionic")), sym=sp["sym"], static=bool(sp.get("static", True)))
    if x is not None and kind_of(x) == "arr":
        f.update(
            fermionic=is_f(x),
            sym=sym_name(x),
            static=bool(getattr(x, "static_symmetry", False)),
            ndim=len(x.indices),
            nblocks=len(x.blocks),
            lazy=bool(is_f(x) and x.phases),
            has_subinfo=any(ix.subinfo is not None for ix in x.indices),
        )
        if is_f(x):
            f["parity"] = int(G.par(sym_name(x), x.charge))
    elif x is not None:
        f["operand_kind"] = kind_of(x)
    for k in ("mode", "inplace", "via", "preserve_array", "absorb", "cutoff_mode", "form"):
        if k in args:
            f[k] = args[k]
    if op == "expand_dims" and "c" in args and x is not None and kind_of(x) == "arr":
        f["explicit_charge"] = True
        f["explicit_odd_charge"] = bool(G.par(sym_name(x), ucharge(args["c"])))
    if op == "solve" and x is not None and is_f(x):
        f["a_parity"] = int(G.par(sym_name(x), x.charge))
        b = vals[args["b"]]
        f["b_parity"] = int(G.par(sym_name(b), b.charge))
    if op == "fuse":
        f["has_singlet_group"] = any(len(g) == 1 for g in args["groups"])
        f["has_empty_group"] = any(len(g) == 0 for g in args["groups"])
    return f


# ----------------------------------------------------------------------------
# generator


DEFAULT_WEIGHTS = {
    "copy": 1, "transpose": 4, "conj": 3, "dagger": 2, "fuse": 5, "unfuse": 4, "unfuse_all": 1,
    "reshape": 3, "squeeze": 2, "expand_dims": 3, "sync_charges": 1, "neg": 1, "scale": 2,
    "add": 2, "sub": 1.5, "mul": 1.5, "div": 0.7, "phase_flip": 1.5, "phase_transpose": 1.5,
    "phase_global": 1, "phase_sector": 1, "phase_sync": 1, "to_dense": 0.7, "allclose": 0.7,
    "norm": 0.7, "sum": 0.4, "max": 0.3, "min": 0.3, "abs": 0.5, "sqrt": 0.3, "clip": 0.4, "isfinite": 0.2,
    "item": 0.5, "float": 0.5, "complex": 0.3, "int": 0.2, "bool": 0.2,
    "trace": 1.5, "einsum": 2.5, "multiply_diagonal": 2.5,
    "align_axes": 1.5, "tensordot": 7, "matmul": 2.5, "qr": 2, "svd": 2, "eigh": 2, "solve": 2,
    "svd_truncated": 2.5, "construct": 0.7,
}

SCALARS = [2, -1, 0.5, 3.0, -2.5]


class Gen:
    def __init__(self, rng, sym, fermionic, static=True, dtype="float64", sizes=(1, 2), max_charges=2,
                 f12_rate=0.0, no_gauge_chain=False, allow_empty=True):
        self.rng = rng
        self.sym = sym
        self.fermionic = fermionic
        self.static = static and sym != "Z4"
        self.dtype = dtype
        self.sizes = sizes
        self.max_charges = max_charges
        self.f12_rate = f12_rate
        self.no_gauge_chain = no_gauge_chain
        self.allow_empty = allow_empty
        self.operands = []
        self.steps = []
        self.vals = []
        self.metas = []   # gauge / inexact / invalid / taint
        self.dead = False
        self.label = 0
        self.contains_f12 = False   # a fermionic expand_dims with explicit odd charge was generated (known defect F12)
        self.contains_f13 = False   # a solve with fermionic odd-parity matrix was generated (known defect F13)
        self.focus = None   # set of slots; a step must read at least one of them
        self.chain = False  # primary operand must be the latest array value
        self.inplace_rate = 0.0

    # -- bookkeeping ---------------------------------------------------------
    def program(self):
        return {"operands": list(self.operands), "steps": [list(s) for s in self.steps]}

    def next_label(self):
        self.label += 1
        return 10 + self.label

    def _push(self, v, meta):
        if kind_of(v) in ("arr", "vec"):
            ok, _ = is_valid(v)
            meta["invalid"] = not ok
        else:
            meta["invalid"] = False
        if kind_of(v) in ("arr", "vec") and any(np.asarray(b).dtype == bool for b in v.blocks.values()):
            meta["unusable"] = True   # result of isfinite: not an arithmetic value
        self.vals.append(v)
        self.metas.append(meta)
        return len(self.vals) - 1

    def add_operand(self, spec):
        self.operands.append(spec)
        return self._push(build_value(spec), {"gauge": False, "inexact": False, "taint": False})

    def rand_spec(self, ndim=None, indices=None, charge=None, lazy=None, label=None):
        rng = self.rng
        if lazy is None:
            lazy = self.fermionic and rng.random() < 0.5
        return rand_array_spec(
            rng, self.sym, ndim=ndim, fermionic=self.fermionic, max_charges=self.max_charges, sizes=self.sizes,
            sparsity=float(rng.choice([0.0, 0.3, 0.6])), dtype=self.dtype, static=self.static, charge=charge,
            indices=indices, lazy=lazy, odd_label=self.next_label() if label is None else label,
        )

    def square_spec(self, zero_charge=False):
        """2-D operand [s, conj(s)] with equal block sizes (square blocks for every total charge)"""
        rng = self.rng
        pool = CHARGE_SETS[self.sym]
        k = int(rng.integers(1, 3))
        pick = sorted(rng.choice(len(pool), size=k, replace=False).tolist())
        sz = int(rng.integers(1, 3))
        s = {"cm": [[jcharge(pool[i]), sz] for i in pick], "dual": bool(rng.integers(0, 2))}
        return self.rand_spec(indices=[s, conj_index_spec(s)], charge=G.zero(self.sym) if zero_charge else None)

    def ones_spec(self, ndim=None):
        """operand whose indices all have total size one"""
        rng = self.rng
        pool = CHARGE_SETS[self.sym]
        nd = int(rng.integers(0, 4)) if ndim is None else ndim
        idx = []
        for _ in range(nd):
            c = pool[int(rng.integers(0, len(pool)))] if rng.random() < 0.5 else G.zero(self.sym)
            idx.append({"cm": [[jcharge(c), 1]], "dual": bool(rng.integers(0, 2))})
        return self.rand_spec(indices=idx)

    def slots(self, kind="arr"):
        out = []
        for i, v in enumerate(self.vals):
            if kind_of(v) != kind or self.metas[i].get("invalid") or self.metas[i].get("unusable"):
                continue
            if self.no_gauge_chain and self.metas[i]["gauge"]:
                continue
            out.append(i)
        return out

    def shuffled(self, seq):
        seq = list(seq)
        self.rng.shuffle(seq)
        return seq

    def partners(self, i, pred):
        """slots of arrays (same family as i) satisfying pred, focus members first
        when i itself is not in focus"""
        a = self.vals[i]
        c = [j for j in self.slots("arr") if type(self.vals[j]) is type(a) and pred(self.vals[j], j)]
        c = self.shuffled(c)
        if self.focus is not None and i not in self.focus:
            c.sort(key=lambda j: j not in self.focus)
        return c

    # -- running a generated step -------------------------------------------
    def emit(self, step):
        """execute and record one step; False if the library raised"""
        tainted = any(self.metas[i]["taint"] for i in step_inputs(step))
        thunk = make_thunk(self.vals, step)
        self.steps.append(step)
        op, slot, args = step
        if op == "expand_dims" and "c" in args and is_f(self.vals[slot]) and G.par(self.sym, ucharge(args["c"])):
            self.contains_f12 = True
        if op == "solve" and is_f(self.vals[slot]) and G.par(self.sym, self.vals[slot].charge):
            self.contains_f13 = True
        try:
            res = thunk()
        except Exception:
            self.dead = True
            return False
        if args.get("inplace") or op == "apply_to_arrays":
            for j in mutated_slots(step):
                ok, _ = is_valid(self.vals[j]) if kind_of(self.vals[j]) in ("arr", "vec") else (True, "")
                self.metas[j]["invalid"] = not ok
            return True
        m = step_meta(step, self.metas)
        for r in normalise(res):
            mm = dict(m)
            mm["taint"] = tainted
            j = self._push(r, mm)
            if self.focus is not None and tainted:
                self.focus.add(j)
        return True

    def emit_all(self, steps):
        for s in steps:
            if not self.emit(s):
                return False
        return True

    def try_op(self, name, slot=None):
        """Try to generate + run one step (or macro) of operation `name`.  Returns
        True if something was emitted."""
        fn = getattr(self, "g_" + name)
        if name in ("construct",):
            cands = [None]
        elif slot is not None:
            cands = [] if (self.metas[slot].get("unusable") or self.metas[slot].get("invalid")) else [slot]
        else:
            cands = self.shuffled(self.slots("arr") + (self.slots("vec") if name in VEC_OPS else []))
            if self.chain:
                arrs = self.slots("arr")
                cands = arrs[-1:] if arrs else []
            elif self.focus is not None and self.rng.random() < 0.8:
                cands.sort(key=lambda j: j not in self.focus)
        for i in cands[:6]:
            out = fn(i)
            if out is None:
                continue
            steps = out if isinstance(out, list) else [[name, i, out]]
            if self.focus is not None:
                # the macro as a whole must read a focus value
                reads = {j for s in steps for j in step_inputs(s) if j < len(self.vals)}
                if not (reads & self.focus):
                    continue
            self.emit_all(steps)
            return True
        return False

    def random_step(self, weights=None, tries=30):
        weights = DEFAULT_WEIGHTS if weights is None else weights
        names = [n for n in weights if weights[n] > 0]
        p = np.array([weights[n] for n in names], dtype=float)
        p /= p.sum()
        for _ in range(tries):
            name = names[int(self.rng.choice(len(names), p=p))]
            if self.try_op(name):
                return name
        return None

    # -- per-operation generators: return args | [steps] | None ---------------
    def _arr(self, i):
        v = self.vals[i]
        return v if kind_of(v) == "arr" else None

    def _maybe_inplace(self, name, args):
        if self.inplace_rate and name in INPLACE_OPS and self.rng.random() < self.inplace_rate:
            args = dict(args)
            args.pop("via", None)
            args.pop("prop", None)
            args["inplace"] = True
        return args

    def g_copy(self, i):
        return {}

    def g_transpose(self, i):
        x = self._arr(i)
        if x is None:
            return None
        rng = self.rng
        nd = len(x.indices)
        args = {"axes": None if rng.random() < 0.15 else [int(p) for p in rng.permutation(nd)]}
        if is_f(x) and rng.random() < 0.25:
            args["phase"] = bool(rng.random() < 0.3)
        if rng.random() < 0.15:
            args["via"] = True
        return self._maybe_inplace("transpose", args)

    def g_conj(self, i):
        x = self._arr(i)
        if x is None:
            return None
        args = {}
        if is_f(x):
            if self.rng.random() < 0.7:
                args["phase_permutation"] = bool(self.rng.integers(0, 2))
            if self.rng.random() < 0.7:
                args["phase_dual"] = bool(self.rng.integers(0, 2))
        if self.rng.random() < 0.15:
            args["via"] = True
        return self._maybe_inplace("conj", args)

    def g_dagger(self, i):
        x = self._arr(i)
        if x is None:
            return None
        args = {}
        if is_f(x) and self.rng.random() < 0.5:
            args["phase_dual"] = bool(self.rng.integers(0, 2))
        elif self.rng.random() < 0.15:
            args["prop"] = True
        return self._maybe_inplace("dagger", args)

    def g_fuse(self, i):
        x = self._arr(i)
        rng = self.rng
        if x is None or len(x.indices) < 1 or nblocks(x) == 0:
            return None
        nd = len(x.indices)
        mode = None
        if not is_f(x) and rng.random() < 0.6:
            mode = str(rng.choice(["auto", "insert", "concat"]))
        # concat mode with single-axis groups was defect F6 (repaired in /repo by 0a5997b): generated at a reduced
        # rate; features "mode" and "has_singlet_group" identify such steps should the defect come back
        min_g = 2 if (mode == "concat" and rng.random() < 0.6) else 1
        if nd < min_g:
            return None
        axes = self.shuffled(range(nd))
        groups = []
        ng = int(rng.integers(1, 4))
        pos = 0
        for _ in range(ng):
            if nd - pos < min_g:
                break
            sz = int(rng.integers(min_g, min(3, nd - pos) + 1)) if rng.random() < 0.85 else nd - pos
            groups.append([int(a) for a in axes[pos:pos + sz]])
            pos += sz
        if not groups:
            return None
        if rng.random() < 0.5:
            groups = [sorted(g) for g in groups]
        args = {"groups": groups}
        if mode is not None:
            args["mode"] = mode
        if rng.random() < 0.06 and mode != "concat":
            groups.insert(int(rng.integers(0, len(groups) + 1)), [])
            if rng.random() < 0.3:
                args["expand_empty"] = False
        elif rng.random() < 0.1 and mode is None:
            args["via"] = True
        return self._maybe_inplace("fuse", args)

    def g_unfuse(self, i):
        x = self._arr(i)
        if x is None:
            return None
        c = [k for k, ix in enumerate(x.indices) if ix.subinfo is not None]
        if not c:
            return None
        return self._maybe_inplace("unfuse", {"axis": int(self.rng.choice(c))})

    def g_unfuse_all(self, i):
        x = self._arr(i)
        if x is None or (not any(ix.subinfo is not None for ix in x.indices) and self.rng.random() < 0.8):
            return None
        return self._maybe_inplace("unfuse_all", {})

    def g_reshape(self, i):
        x = self._arr(i)
        rng = self.rng
        if x is None or nblocks(x) == 0 or len(x.indices) == 0:
            return None
        shape = [int(ix.size_total) for ix in x.indices]
        if any(d == 0 for d in shape):
            return None
        nd = len(shape)
        new = []
        k = 0
        # The library parses the target greedily from the left and prefers "unfuse" whenever the sub-sizes of an
        # axis match the next target dims, so a target is only *unambiguously* derivable if
        #  R1  no axis that the plan keeps/regroups has sub-sizes equal to the target dims at its position, and
        #  R2  new singleton dims are not mixed with existing size-one axes (either could be matched first), and
        #  R3  a plan that unfuses something does not also fuse groups containing size-one axes (the parser treats
        #      those axes as "squeezed" singletons of their own, which shifts the group boundaries).
        # (Sparse fused axes - size smaller than the product of their sub-sizes - make such clashes possible;
        #  on ambiguous targets reshape raises ValueError/IndexError, see the driver report.)
        may_insert = not any(d == 1 for d in shape)
        kept = []   # (axis, position in target) of axes not unfused by the plan
        n_unfuse, ones_in_group = 0, False
        if may_insert and rng.random() < 0.1:
            new.append(1)
        while k < nd:
            r = rng.random()
            ix = x.indices[k]
            if ix.subinfo is not None and r < 0.45:
                new.extend(int(s.size_total) for s in ix.subinfo.indices)
                n_unfuse += 1
                k += 1
            elif r < 0.75 and k + 1 < nd:
                g = int(rng.integers(2, min(3, nd - k) + 1))
                ones_in_group = ones_in_group or any(d == 1 for d in shape[k:k + g])
                kept.extend((kk, len(new)) for kk in range(k, k + g))
                new.append(int(np.prod(shape[k:k + g])))
                k += g
            else:
                kept.append((k, len(new)))
                new.append(shape[k])
                k += 1
            if may_insert and rng.random() < 0.12:
                new.append(1)
        if n_unfuse and ones_in_group:
            return None
        for kk, j in kept:
            si = x.indices[kk].subinfo
            if si is not None:
                sub = [int(q.size_total) for q in si.indices]
                if new[j:j + len(sub)] == sub:
                    return None
        if new == shape:
            return None
        args = {"newshape": new}
        if rng.random() < 0.15:
            args["via"] = True
        return self._maybe_inplace("reshape", args)

    def g_squeeze(self, i):
        x = self._arr(i)
        if x is None:
            return None
        zero = G.zero(self.sym)
        ok = [k for k, ix in enumerate(x.indices) if dict(ix.chargemap) == {zero: 1}]
        ones = [k for k, ix in enumerate(x.indices) if ix.size_total == 1]
        if not ok:
            return None
        r = self.rng.random()
        if r < 0.25 and ok == ones:
            args = {"axis": None}
        elif r < 0.5 and len(ok) > 1:
            args = {"axis": sorted(int(a) for a in self.rng.choice(ok, size=2, replace=False))}
        else:
            args = {"axis": int(self.rng.choice(ok))}
        if self.rng.random() < 0.15:
            args["via"] = True
        return self._maybe_inplace("squeeze", args)

    def g_expand_dims(self, i):
        x = self._arr(i)
        rng = self.rng
        if x is None or len(x.indices) >= 5:
            return None
        nd = len(x.indices)
        ax = int(rng.integers(0, nd + 1))
        if rng.random() < 0.2:
            ax = ax - (nd + 1)
        args = {"axis": ax}
        r = rng.random()
        if r < 0.35:
            pool = CHARGE_SETS[self.sym]
            if is_f(x):
                if rng.random() < self.f12_rate:
                    pool = [c for c in pool if G.par(self.sym, c)]   # deliberate F12 probe
                else:
                    pool = [c for c in pool if not G.par(self.sym, c)]
            args["c"] = jcharge(pool[int(rng.integers(0, len(pool)))])
        if rng.random() < 0.4:
            args["dual"] = bool(rng.integers(0, 2))
        if len(args) == 1 and rng.random() < 0.2:
            args["via"] = True
        return self._maybe_inplace("expand_dims", args)

    def g_sync_charges(self, i):
        x = self._arr(i)
        return None if x is None else self._maybe_inplace("sync_charges", {})

    def g_neg(self, i):
        return {}

    def g_scale(self, i):
        v = self.vals[i]
        rng = self.rng
        s = SCALARS[int(rng.integers(0, len(SCALARS)))]
        if kind_of(v) == "vec":
            form = str(rng.choice(["mul", "div", "add", "sub", "radd", "rsub", "pow"]))
            if form == "pow":
                s = 2
        else:
            form = str(rng.choice(["mul", "rmul", "div"]))
        args = {"s": s, "form": form}
        if form in ("mul", "div", "add", "sub", "pow"):
            args = self._maybe_inplace("scale", args)
        return args

    def _like_steps(self, i):
        """steps creating a fresh array with the structure of value i (if expressible)"""
        x = self.vals[i]
        if any(ix.subinfo is not None for ix in x.indices) or len(x.indices) == 0:
            return None
        lab = labels_of(x)
        if any(d for _, d in lab) or len(lab) > 1:
            return None
        spec = self.rand_spec(indices=[ix_spec(ix) for ix in x.indices], charge=x.charge, label=lab[0][0] if lab else None)
        if type(build_array(spec)) is not type(x):
            return None
        return [["construct", None, {"spec": spec}]]

    def _binary(self, name, i):
        x = self.vals[i]
        rng = self.rng
        if kind_of(x) == "vec":
            c = [j for j in self.slots("vec") if set(self.vals[j].blocks) == set(x.blocks) and all(
                np.shape(self.vals[j].blocks[k]) == np.shape(x.blocks[k]) for k in x.blocks)]
            if name == "mul" or not c:
                return None
            j = int(rng.choice(c))
            if name == "div" and any((np.asarray(b) == 0).any() for b in self.vals[j].blocks.values()):
                return None
            return self._maybe_inplace(name, {"b": j})
        if kind_of(x) != "arr":
            return None

        def pred(b, j):
            if not same_struct(x, b):
                return False
            if name in ("sub", "div") and set(b.blocks) != set(x.blocks):
                return False
            if name == "div":
                if not all(ix.size_total == 1 for ix in x.indices):
                    return False
                if any((np.asarray(v) == 0).any() for v in b.blocks.values()):
                    return False
            return True

        if name == "div" and not all(ix.size_total == 1 for ix in x.indices):
            return None
        c = self.partners(i, pred)
        pre = []
        if (not c or rng.random() < 0.35) and name in ("add", "mul"):
            pre = self._like_steps(i)
            if pre:
                return pre + [[name, i, self._maybe_inplace(name, {"b": len(self.vals)})]]
        if not c:
            if name == "div" and any((np.asarray(v) == 0).any() for v in x.blocks.values()):
                return None
            # derive a partner: scaled copy (and for add/mul possibly with a block dropped)
            if name in ("add", "mul") and nblocks(x) > 1 and rng.random() < 0.5:
                pre = [["drop_block", i, {"k": int(rng.integers(0, 8))}]]
            else:
                pre = [["scale", i, {"s": 2, "form": "mul"}]]
            return pre + [[name, i, self._maybe_inplace(name, {"b": len(self.vals)})]]
        args = {"b": int(c[0])}
        if name != "div":   # array / array has no in-place form
            args = self._maybe_inplace(name, args)
        return args

    def g_add(self, i):
        return self._binary("add", i)

    def g_sub(self, i):
        return self._binary("sub", i)

    def g_mul(self, i):
        return self._binary("mul", i)

    def g_div(self, i):
        return self._binary("div", i)

    def g_phase_flip(self, i):
        x = self._arr(i)
        if x is None or not is_f(x) or len(x.indices) == 0:
            return None
        nd = len(x.indices)
        k = int(self.rng.integers(1, nd + 1))
        return self._maybe_inplace("phase_flip", {"axs": sorted(int(a) for a in self.rng.choice(nd, size=k, replace=False))})

    def g_phase_transpose(self, i):
        x = self._arr(i)
        if x is None or not is_f(x):
            return None
        nd = len(x.indices)
        args = {"axes": None if self.rng.random() < 0.15 else [int(p) for p in self.rng.permutation(nd)]}
        return self._maybe_inplace("phase_transpose", args)

    def g_phase_global(self, i):
        x = self._arr(i)
        if x is None or not is_f(x):
            return None
        return self._maybe_inplace("phase_global", {})

    def g_phase_sector(self, i):
        x = self._arr(i)
        if x is None or not is_f(x) or nblocks(x) == 0:
            return None
        ks = list(x.blocks)
        s = ks[int(self.rng.integers(0, len(ks)))]
        return self._maybe_inplace("phase_sector", {"sector": [jcharge(c) for c in s]})

    def g_phase_sync(self, i):
        x = self._arr(i)
        if x is None or not is_f(x):
            return None
        return self._maybe_inplace("phase_sync", {})

    def g_apply_to_arrays(self, i):
        return {"s": 2}

    def g_to_dense(self, i):
        v = self.vals[i]
        if kind_of(v) == "vec" and not v.blocks:
            return None
        if kind_of(v) == "arr" and any(ix.size_total == 0 for ix in v.indices):
            return None
        return {}

    def g_allclose(self, i):
        x = self._arr(i)
        if x is None:
            return None
        c = self.partners(i, lambda b, j: same_struct(x, b))
        return {"b": int(c[0])} if c else None

    def _reduction(self, i):
        v = self.vals[i]
        if kind_of(v) not in ("arr", "vec") or len(v.blocks) == 0:
            return None
        return {"via": True} if (kind_of(v) == "arr" and self.rng.random() < 0.2) else {}

    g_norm = g_sum = g_max = g_min = g_abs = g_isfinite = lambda self, i: self._reduction(i)

    def g_sqrt(self, i):
        v = self.vals[i]
        if kind_of(v) not in ("arr", "vec") or len(v.blocks) == 0:
            return None
        bl = val_blocks(v) if kind_of(v) == "arr" else v.blocks
        if any((np.real(np.asarray(b)) < 0).any() or np.iscomplexobj(b) for b in bl.values()):
            # sqrt "on abs"
            return [["abs", i, {}], ["sqrt", len(self.vals), {}]]
        return {}

    def g_clip(self, i):
        v = self.vals[i]
        if kind_of(v) not in ("arr", "vec") or len(v.blocks) == 0 or any(np.iscomplexobj(b) for b in v.blocks.values()):
            return None
        return {"lo": -1.0, "hi": 2.0}

    def _scalar_conv(self, name, i):
        x = self._arr(i)
        if x is None or nblocks(x) != 1 or any(np.size(b) != 1 for b in x.blocks.values()):
            return None
        if name in ("float", "int") and any(np.iscomplexobj(b) for b in x.blocks.values()):
            return None
        return {}

    def g_item(self, i):
        return self._scalar_conv("item", i)

    def g_float(self, i):
        return self._scalar_conv("float", i)

    def g_complex(self, i):
        return self._scalar_conv("complex", i)

    def g_int(self, i):
        return self._scalar_conv("int", i)

    def g_bool(self, i):
        return self._scalar_conv("bool", i)

    def g_trace(self, i):
        x = self._arr(i)
        if x is None or len(x.indices) != 2 or not ix_match(*x.indices):
            return None
        return {"via": True} if self.rng.random() < 0.2 else {}

    def g_einsum(self, i):
        x = self._arr(i)
        rng = self.rng
        if x is None or len(x.indices) == 0:
            return None
        nd = len(x.indices)
        pairs = [(p, q) for p in range(nd) for q in range(p + 1, nd) if ix_match(x.indices[p], x.indices[q])]
        pairs = self.shuffled(pairs)
        used, chosen = set(), []
        for p, q in pairs:
            if p in used or q in used:
                continue
            if rng.random() < 0.75:
                chosen.append((p, q))
                used.update((p, q))
        if not chosen and rng.random() < 0.6:
            return None
        lhs = [None] * nd
        li = 0
        for p, q in chosen:
            lhs[p] = lhs[q] = LETTERS[li]
            li += 1
        free = []
        for k in range(nd):
            if lhs[k] is None:
                lhs[k] = LETTERS[li]
                free.append(LETTERS[li])
                li += 1
        free = self.shuffled(free)
        args = {"eq": "".join(lhs) + "->" + "".join(free)}
        if not free and rng.random() < 0.5:
            args["preserve_array"] = True
        elif rng.random() < 0.15:
            args["via"] = True
        return args

    def _vector_for(self, x, axis):
        ix = x.indices[axis]
        rng = self.rng
        items = list(ix.chargemap.items())
        keep = [it for it in items if rng.random() < 0.8] or items[:1]
        return {"kind": "vector", "blocks": [[jcharge(c), int(d)] for c, d in keep], "fill_seed": int(rng.integers(0, 2**31 - 1))}

    def g_multiply_diagonal(self, i):
        x = self._arr(i)
        rng = self.rng
        if x is None or len(x.indices) == 0 or nblocks(x) == 0:
            return None
        # an existing vector (e.g. singular values) that fits some axis?
        fits = []
        for j in self.slots("vec"):
            v = self.vals[j]
            if not v.blocks:
                continue
            for ax, ix in enumerate(x.indices):
                cm = ix.chargemap
                common = [c for c in v.blocks if c in cm]
                if common and all(np.size(v.blocks[c]) == cm[c] for c in common):
                    fits.append((j, ax))
        if fits and rng.random() < 0.7:
            j, ax = fits[int(rng.integers(0, len(fits)))]
            args = {"v": int(j), "axis": int(ax)}
            if rng.random() < 0.15:
                args["via"] = True
            return self._maybe_inplace("multiply_diagonal", args)
        ax = int(rng.integers(0, len(x.indices)))
        spec = self._vector_for(x, ax)
        return [["construct_vector", None, spec], ["multiply_diagonal", i, self._maybe_inplace("multiply_diagonal", {"v": len(self.vals), "axis": ax})]]

    def _match_axes(self, a, b, allow_same_axis_obj=True):
        pairs = [(p, q) for p in range(len(a.indices)) for q in range(len(b.indices)) if ix_match(a.indices[p], b.indices[q])]
        pairs = self.shuffled(pairs)
        ua, ub, chosen = set(), set(), []
        for p, q in pairs:
            if p in ua or q in ub:
                continue
            if a is b and (p in ub or q in ua or p == q):
                continue
            chosen.append((p, q))
            ua.add(p)
            ub.add(q)
        return chosen

    def _partner_steps(self, i, full=False):
        """steps that create a contraction partner for value i; returns (steps, slot)"""
        x = self.vals[i]
        rng = self.rng
        nd = len(x.indices)
        n = len(self.vals)
        plain = [k for k, ix in enumerate(x.indices) if ix.subinfo is None and ix.chargemap]
        if plain and (rng.random() < 0.5 or any(d for _, d in labels_of(x))) and not full:
            # fresh operand sharing conjugated index specs on a subset of axes
            k = int(rng.integers(1, len(plain) + 1))
            share = [int(a) for a in rng.choice(plain, size=k, replace=False)]
            specs = [conj_index_spec(ix_spec(x.indices[a])) for a in share]
            for _ in range(int(rng.integers(0, 3))):
                if len(specs) < 4:
                    specs.append(rand_index_spec(rng, self.sym, self.max_charges, self.sizes))
            specs = self.shuffled(specs)
            return [["construct", None, {"spec": self.rand_spec(indices=specs)}]], n
        # conj of a transposed copy
        steps = [["transpose", i, {"axes": [int(p) for p in rng.permutation(nd)]}]]
        cargs = {}
        if is_f(x) and rng.random() < 0.5:
            cargs = {"phase_permutation": bool(rng.integers(0, 2)), "phase_dual": bool(rng.integers(0, 2))}
        steps.append(["conj", n, cargs])
        return steps, n + 1

    def g_tensordot(self, i):
        a = self._arr(i)
        rng = self.rng
        if a is None:
            return None
        fam = lambda b, j: (not is_f(a)) or labels_ok(a, b)  # noqa: E731
        c = [j for j in self.partners(i, fam) if self._match_axes(a, self.vals[j])]
        pre = []
        if c and rng.random() < 0.8:
            j = int(c[0])
            b = self.vals[j]
            swap = False
        elif len(a.indices) > 0 and rng.random() < 0.85:
            pre, j = self._partner_steps(i)
            # need the live partner to choose axes: run the prefix now
            if not self.emit_all(pre):
                return []
            pre = []
            b = self.vals[j]
            if is_f(a) and not labels_ok(a, b):
                return []
            swap = rng.random() < 0.4
        else:
            # outer product with anything compatible
            cc = self.partners(i, fam)
            if not cc:
                return None
            j = int(cc[0])
            args = {"b": j, "axes": 0 if rng.random() < 0.5 else [[], []]}
            if len(a.indices) + len(self.vals[j].indices) > 5:
                return None
            if rng.random() < 0.5:
                args["mode"] = str(rng.choice(["auto", "fused", "blockwise"]))
            return pre + [["tensordot", i, args]]
        li, ri = (j, i) if swap else (i, j)
        L, R = self.vals[li], self.vals[ri]
        pairs = self._match_axes(L, R)
        if not pairs:
            return [] if not c else None
        k = len(pairs) if rng.random() < 0.5 else int(rng.integers(1, len(pairs) + 1))
        pairs = pairs[:k]
        if len(L.indices) + len(R.indices) - 2 * k > 5:
            return []
        ax_a = [int(p) for p, _ in pairs]
        ax_b = [int(q) for _, q in pairs]
        nda, ndb = len(L.indices), len(R.indices)
        if ax_a == list(range(nda - k, nda)) and ax_b == list(range(k)) and rng.random() < 0.5:
            axes = k
        else:
            if rng.random() < 0.2:
                ax_a = [p - nda if rng.random() < 0.5 else p for p in ax_a]
            axes = [ax_a, ax_b]
        args = {"b": int(ri), "axes": axes}
        if rng.random() < 0.75:
            args["mode"] = str(rng.choice(["auto", "fused", "blockwise"]))
        if nda + ndb - 2 * k == 0 and rng.random() < 0.5:
            args["preserve_array"] = True
        return [["tensordot", int(li), args]]

    def g_matmul(self, i):
        a = self._arr(i)
        if a is None or len(a.indices) not in (1, 2):
            return None

        def pred(b, j):
            return len(b.indices) in (1, 2) and ix_match(a.indices[-1], b.indices[0]) and ((not is_f(a)) or labels_ok(a, b))

        c = self.partners(i, pred)
        if c:
            return {"b": int(c[0])}
        ix = a.indices[-1]
        if ix.subinfo is not None or not ix.chargemap:
            return None
        specs = [conj_index_spec(ix_spec(ix))]
        if self.rng.random() < 0.7:
            specs.append(rand_index_spec(self.rng, self.sym, self.max_charges, self.sizes))
        return [["construct", None, {"spec": self.rand_spec(indices=specs)}], ["matmul", i, {"b": len(self.vals)}]]

    def g_align_axes(self, i, name="align_axes"):
        a = self._arr(i)
        if a is None:
            return None
        for j in self.partners(i, lambda b, j: True):
            pairs = self._match_axes(a, self.vals[j])
            if pairs:
                k = int(self.rng.integers(1, len(pairs) + 1))
                args = {"b": int(j), "axes": [[int(p) for p, _ in pairs[:k]], [int(q) for _, q in pairs[:k]]]}
                if name == "align_axes" and self.rng.random() < 0.2:
                    args["via"] = True
                if name == "drop_misaligned" and j != i:
                    args = self._maybe_inplace(name, args)
                return args
        return None

    def g_drop_misaligned(self, i):
        return self.g_align_axes(i, "drop_misaligned")

    def _is2d(self, i):
        x = self._arr(i)
        if x is None or len(x.indices) != 2 or nblocks(x) == 0:
            return None
        return x

    def g_qr(self, i):
        if self._is2d(i) is None:
            return None
        return {"stabilized": True} if self.rng.random() < 0.3 else {}

    def g_svd(self, i):
        return None if self._is2d(i) is None else {}

    def g_svd_truncated(self, i):
        if self._is2d(i) is None:
            return None
        rng = self.rng
        args = {}
        if rng.random() < 0.6:
            args["cutoff"] = float(rng.choice([-1.0, 1e-10, 0.1, 0.5, 2.0, 1e3]))
            args["cutoff_mode"] = int(rng.integers(1, 7))
        if rng.random() < 0.6:
            args["max_bond"] = int(rng.choice([-1, 1, 2, 3, 5]))
        if rng.random() < 0.8:
            ab = [-1, 0, 1, None, "left", "both", "right"][int(rng.integers(0, 7))]
            args["absorb"] = ab
        return args

    def _hermitian_blocks(self, x):
        for s, b in val_blocks(x).items():
            if b.ndim != 2 or b.shape[0] != b.shape[1] or not np.array_equal(b, b.conj().T):
                return False
        return True

    def g_eigh(self, i):
        x = self._is2d(i)
        if x is None or x.charge != G.zero(self.sym):
            return None
        p, q = x.indices
        if bool(p.dual) == bool(q.dual) or dict(p.chargemap) != dict(q.chargemap):
            return None
        if (p.subinfo is None) != (q.subinfo is None):
            return None
        if self._hermitian_blocks(x):
            return {}
        if p.subinfo is not None and index_struct(p)[2] != index_struct(q.conj())[2]:
            return None
        if labels_of(x):
            return None
        # h = m + m.dagger(), then eigh(h)
        n = len(self.vals)
        return [["dagger", i, {}], ["add", i, {"b": n}], ["eigh", n + 1, {}]]

    def g_solve(self, i):
        a = self._is2d(i)
        if a is None:
            return None
        for s, b in a.blocks.items():
            b = np.asarray(b)
            if b.shape[0] != b.shape[1] or abs(np.linalg.det(b)) < 1e-6:
                return None
        p = a.indices[0]
        if p.subinfo is not None:
            return None

        def pred(b, j):
            return len(b.indices) == 1 and index_struct(b.indices[0]) == index_struct(p) and nblocks(b) > 0

        c = self.partners(i, pred)
        if c and self.rng.random() < 0.5:
            return {"b": int(c[0])}
        spec = self.rand_spec(indices=[ix_spec(p)])
        return [["construct", None, {"spec": spec}], ["solve", i, {"b": len(self.vals)}]]

    def g_construct(self, i):
        arrs = self.slots("arr")
        if arrs and self.rng.random() < 0.7:
            j = int(self.rng.choice(arrs))
            if len(self.vals[j].indices):
                steps, _ = self._partner_steps(j)
                if steps[0][0] == "construct":
                    return steps
        return [["construct", None, {"spec": self.rand_spec(ndim=int(self.rng.integers(1, 4)))}]]


VEC_OPS = ("copy", "neg", "scale", "add", "sub", "div", "norm", "sum", "max", "min", "to_dense", "abs", "sqrt", "clip", "apply_to_arrays")


def random_program(rng, sym, fermionic, static, nsteps, nops=None, dtype="float64", weights=None, f12_rate=0.0,
                   inplace_rate=0.0, first_op=None, sizes=(1, 2), max_charges=2):
    """A random applicable program: 1-3 operands, then `nsteps` random steps (macros may
    add a few prerequisite steps)."""
    g = Gen(rng, sym, fermionic, static=static, dtype=dtype, f12_rate=f12_rate, sizes=sizes, max_charges=max_charges)
    g.inplace_rate = inplace_rate
    nops = int(rng.integers(1, 3)) if nops is None else nops
    first = g.rand_spec(ndim=int(rng.choice([1, 2, 2, 3, 3, 4])))
    g.add_operand(first)
    for _ in range(nops - 1):
        x = g.vals[0]
        if rng.random() < 0.7 and len(x.indices):
            steps, _ = g._partner_steps(0)
            if steps[0][0] == "construct":
                g.add_operand(steps[0][2]["spec"])
                continue
        g.add_operand(g.rand_spec(ndim=int(rng.integers(1, 4))))
    if first_op is not None and not g.dead:
        g.try_op(first_op)
    while len(g.steps) < nsteps and not g.dead:
        if g.random_step(weights) is None:
            break
    return g
