"""C12 (bounded): spectra, norms and solutions equal those of the dense matrix.

The dense matrix is `dense_of(x)` (the harness' own densifier); numpy's LAPACK wrappers
on it are the oracle.  Singular values and norm: abelian and fermionic (they do not
depend on the sign gauge); eigenvalues and solve: abelian only, as the property says.
"""

import numpy as np

from bounded.common import *  # noqa: F401,F403
from bounded.common import G, build_array, dense_of, dense_vector, driver_main, index_offsets, sr, val_blocks
from bounded.oracles_linalg import (
    ALL_SYMS,
    TOL,
    build_matrix,
    call,
    col_ranges,
    degenerate_matrices,
    herm_matrix,
    mat_features,
    mat_fp,
    random_matrix,
    solve_system,
    spec_fp,
    spectra_match,
    systematic_matrices,
)

_DOMAIN = (
    "2-D arrays over Z2, U1, Z2Z2, U1U1, Z4; 4 direction patterns; every reachable charge; blocks 1x1 .. 4x4, "
    "rank-deficient, zero and missing blocks; float64/complex128, float32/complex64 (tol 1e-4), blocks of mixed element type; matrices fused from rank-3/4 arrays; degenerate spectra"
)
CONTRACTS = {
    "C12.singular_values": (_DOMAIN + "; abelian and fermionic (pending signs)", "systematic small scope + seeded random; multiset and per-charge comparison with numpy svd of the dense matrix; tol 1e-9"),
    "C12.norm": (_DOMAIN + "; abelian and fermionic (pending signs)", "same cases; |x.norm() - norm(dense)| <= 1e-9 (1 + norm)"),
    "C12.eigenvalues": ("abelian h = m + m.dagger() of charge zero, <=3 charges of size <=3 or fused from rank 4, missing diagonal blocks", "seeded random; per charge and as a multiset against eigvalsh of the dense matrix on the stored sectors; tol 1e-9"),
    "C12.solve": ("abelian square-blocked a of every charge with shifted (invertible) blocks, missing blocks, one-block b; also fused from rank 4", "seeded random; dense solve on the stored sectors; tol 1e-8"),
}


def gen_cases(tier, seed):
    quick = tier == "quick"
    for m in systematic_matrices(stride=1):
        yield {"contract": "C12.singular_values", "m": m}
        yield {"contract": "C12.norm", "m": m}
    for m in degenerate_matrices():
        yield {"contract": "C12.singular_values", "m": m}
    # single precision (tol 1e-4) and blocks of mixed element type (first stored block real, the others complex:
    # what  real_array + complex_array  returns when the real operand alone stores the first sector)
    rng = np.random.default_rng([12, 2])
    for k in range(300 if quick else 3000):
        m = random_matrix(rng, dtypes=("float32", "complex64"), degenerate=0.1)
        yield {"contract": "C12.singular_values" if k % 2 else "C12.norm", "m": m}
    for k in range(300 if quick else 3000):
        m = random_matrix(rng, dtypes=("complex128",), fused=False)
        if m["spec"].get("sectors") and (m["spec"]["sectors"] == "all" or len(m["spec"]["sectors"]) > 1) and not m.get("post") and not m["spec"].get("pre_ops"):
            m["spec"]["mixed_block_dtypes"] = True
            yield {"contract": "C12.norm", "m": m}
            yield {"contract": "C12.singular_values", "m": m}
    rng = np.random.default_rng([12, 0])
    for sym in ALL_SYMS:
        for dtype in ("float64", "complex128"):
            for k in range(20 if quick else 100):
                yield {"contract": "C12.eigenvalues", "m": herm_matrix(rng, sym, False, dtype, fused=(k % 3 == 2))}
            for k in range(20 if quick else 100):
                a, b = solve_system(rng, sym, False, dtype, fused=(k % 4 == 3))
                yield {"contract": "C12.solve", "a": a, "b": b}
    rng = np.random.default_rng([12, 1, seed])
    n = 12000 if quick else 400000
    for i in range(n):
        r = i % 5
        if r in (0, 1):
            yield {"contract": "C12.singular_values", "m": random_matrix(rng, degenerate=0.15)}
        elif r == 2:
            yield {"contract": "C12.norm", "m": random_matrix(rng)}
        elif r == 3:
            sym = ALL_SYMS[int(rng.integers(0, 5))]
            yield {"contract": "C12.eigenvalues", "m": herm_matrix(rng, sym, False, ("float64", "complex128")[int(rng.integers(0, 2))], fused=rng.random() < 0.3)}
        else:
            sym = ALL_SYMS[int(rng.integers(0, 5))]
            a, b = solve_system(rng, sym, False, ("float64", "complex128")[int(rng.integers(0, 2))], fused=rng.random() < 0.25)
            yield {"contract": "C12.solve", "a": a, "b": b}


def _check_sv(d):
    m = d["m"]
    feats = mat_features(m)
    x = build_matrix(m)
    tol = TOL[m["spec"].get("dtype", "float64")]
    ok, res = call(sr.linalg.svd, x)
    if not ok:
        return [("C12.no_exception", f"svd: {res}", feats)]
    _, s, _ = res
    fails = []
    dx = dense_of(x)
    want = np.linalg.svd(dx, compute_uv=False) if dx.size else np.zeros(0)
    got = np.concatenate([np.asarray(v, dtype=float).reshape(-1) for v in s.blocks.values()]) if s.blocks else np.zeros(0)
    if any(np.iscomplexobj(np.asarray(v)) for v in s.blocks.values()):
        fails.append(("C12.singular_values_real", "singular values are complex", feats))
    same, why = spectra_match(got, want, tol)
    if not same:
        fails.append(("C12.singular_values_multiset", f"all charges: {why}; got {np.sort(got)[::-1][:8].tolist()} want {want[:8].tolist()}", feats))
    rank = int(np.linalg.matrix_rank(dx)) if dx.size else 0
    if got.size < rank:
        fails.append(("C12.singular_values_count", f"{got.size} values returned for a matrix of rank {rank}", feats))
    # per charge: the columns of charge c hold exactly one stored block
    rng_c = col_ranges(x.indices[1])
    for c, (lo, hi) in rng_c.items():
        sub = dx[:, lo:hi]
        w = np.linalg.svd(sub, compute_uv=False) if sub.size else np.zeros(0)
        g = np.asarray(s.blocks.get(c, np.zeros(0)), dtype=float)
        same, why = spectra_match(g, w, tol)
        if not same:
            fails.append(("C12.singular_values_per_charge", f"charge {c!r}: {why}", feats))
    extra = set(s.blocks) - set(rng_c)
    if extra:
        fails.append(("C12.singular_values_per_charge", f"values keyed by charges {sorted(extra)} that are not column charges", feats))
    return fails


def _check_norm(d):
    m = d["m"]
    feats = mat_features(m)
    x = build_matrix(m)
    tol = TOL[m["spec"].get("dtype", "float64")]
    ok, got = call(x.norm)
    if not ok:
        return [("C12.no_exception", f"norm: {got}", feats)]
    ok2, got2 = call(sr.linalg.norm, x)
    want = float(np.linalg.norm(dense_of(x)))
    fails = []
    for g in (got,) + ((got2,) if ok2 else ()):
        if np.iscomplexobj(g) or abs(float(g) - want) > tol * (1 + want):
            fails.append(("C12.norm", f"norm {g!r} != dense norm {want!r}", feats))
    if not ok2:
        fails.append(("C12.no_exception", f"linalg.norm: {got2}", feats))
    return fails


def _check_eig(d):
    m = d["m"]
    feats = mat_features(m)
    h = build_matrix(m)
    tol = TOL[m["spec"].get("dtype", "float64")]
    dh = dense_of(h)
    if not np.array_equal(dh, dh.conj().T):
        raise AssertionError("harness: m + m.dagger() is not Hermitian in the dense sense")
    ok, res = call(sr.linalg.eigh, h)
    if not ok:
        return [("C12.no_exception", f"eigh: {res}", feats)]
    el, _ = res
    fails = []
    rr, cr = col_ranges(h.indices[0]), col_ranges(h.indices[1])
    rows, allw = [], []
    for s in h.blocks:
        if s[0] != s[1]:
            raise AssertionError("harness: charge-zero (ix, conj ix) matrix with an off-diagonal sector")
        (r0, r1), (c0, c1) = rr[s[0]], cr[s[1]]
        if (r0, r1) != (c0, c1):
            raise AssertionError("harness: row/column offsets differ")
        w = np.linalg.eigvalsh(dh[r0:r1, c0:c1])
        allw.append(w)
        rows.extend(range(r0, r1))
        g = el.blocks.get(s[1])
        if g is None:
            fails.append(("C12.eigenvalues_per_charge", f"no eigenvalues for stored sector {s!r}", feats))
            continue
        g = np.sort(np.asarray(g, dtype=float))
        if g.shape != w.shape or not np.allclose(g, w, atol=tol * (1 + np.max(np.abs(w), initial=0.0)), rtol=0):
            fails.append(("C12.eigenvalues_per_charge", f"sector {s!r}: {g.tolist()} != {w.tolist()}", feats))
    if set(el.blocks) != {s[1] for s in h.blocks}:
        fails.append(("C12.eigenvalues_keys", f"eigenvalue keys {sorted(el.blocks)} != stored sectors", feats))
    rows = np.array(sorted(rows), dtype=int)
    want = np.linalg.eigvalsh(dh[np.ix_(rows, rows)]) if rows.size else np.zeros(0)
    got = np.sort(np.concatenate([np.asarray(v, dtype=float) for v in el.blocks.values()])) if el.blocks else np.zeros(0)
    if got.shape != want.shape or not np.allclose(got, want, atol=tol * (1 + np.max(np.abs(want), initial=0.0)), rtol=0):
        fails.append(("C12.eigenvalues_multiset", f"{got.tolist()[:8]} != dense {want.tolist()[:8]}", feats))
    return fails


def _check_solve(d):
    am, bspec = d["a"], d["b"]
    feats = mat_features(am)
    a = build_matrix(am)
    b = build_array(bspec)
    tol = TOL[am["spec"].get("dtype", "float64")] * 10
    ok, x = call(sr.linalg.solve, a, b)
    if not ok:
        return [("C12.no_exception", f"solve: {x}", feats)]
    da = dense_of(a)
    rr, cr = col_ranges(a.indices[0]), col_ranges(a.indices[1])
    # b's table may hold only some of the row charges (a fused 1-D array has room only for
    # the charges it stores): paste its blocks at the offsets of a's row index
    vb = val_blocks(b)
    db = np.zeros(da.shape[0], dtype=np.result_type(da, *[v.dtype for v in vb.values()]))
    for (c,), v in vb.items():
        if c not in rr or rr[c][1] - rr[c][0] != v.shape[0]:
            raise AssertionError("harness: b's block does not fit a's row index")
        db[rr[c][0] : rr[c][1]] = v
    R = sorted(i for s in a.blocks for i in range(*rr[s[0]]))
    C = sorted(i for s in a.blocks for i in range(*cr[s[1]]))
    if len(R) != len(C):
        raise AssertionError("harness: stored part of a is not square")
    notR = np.setdiff1d(np.arange(da.shape[0]), R)
    if np.any(db[notR] != 0):
        raise AssertionError("harness: b has data outside the rows a can reach")
    want = np.zeros(da.shape[1], dtype=np.result_type(da, db))
    want[C] = np.linalg.solve(da[np.ix_(R, C)], db[R])
    # the solution lives on conj(a.indices[1]): same table, same offsets
    if dict(x.indices[0].chargemap) != dict(a.indices[1].chargemap):
        return [("C12.solve_index", "solution table differs from a's column table", feats)]
    got = dense_of(x)
    if got.shape != want.shape or not np.allclose(got, want, atol=tol * (1 + np.max(np.abs(want), initial=0.0)), rtol=0):
        return [("C12.solve_dense", f"solution {got.tolist()[:6]} != dense {want.tolist()[:6]}", feats)]
    if np.max(np.abs(da @ got - db), initial=0.0) > tol * (1 + np.max(np.abs(db), initial=0.0)):
        return [("C12.solve_dense", "dense(a) . dense(x) != dense(b)", feats)]
    return []


def check_case(d):
    c = d["contract"]
    if c == "C12.singular_values":
        fails, fp, nb = _check_sv(d), ("sv", mat_fp(d["m"])), d["m"]
    elif c == "C12.norm":
        fails, fp, nb = _check_norm(d), ("norm", mat_fp(d["m"])), d["m"]
    elif c == "C12.eigenvalues":
        fails, fp, nb = _check_eig(d), ("eig", mat_fp(d["m"])), d["m"]
    else:
        fails, fp, nb = _check_solve(d), ("solve", mat_fp(d["a"]), spec_fp(d["b"])), d["a"]
    sect = nb["spec"].get("sectors", "all")
    return {
        "fingerprint": fp,
        "nontrivial": sect == "all" or len(sect) > 0,
        "failures": fails[:6],
        "sample": {"contract": c, "features": mat_features(nb)},
    }


if __name__ == "__main__":
    driver_main("bounded.run_C12")
