"""Replay of solver counterexamples (Tier P) on the real code.  Reads a JSON spec
{"task","obligation","model"} on stdin and prints one JSON line
{"reproduced": bool, "note": str, "input": ...}."""
import json
import sys


def main():
    spec = json.load(sys.stdin)
    from bounded import replayers

    for pat, fn in replayers.REGISTRY:
        if spec["task"].startswith(pat):
            try:
                out = fn(spec)
            except Exception as e:  # harness problem, not a finding
                out = {"reproduced": False, "note": f"replayer error: {type(e).__name__}: {e}"}
            print(json.dumps(out, default=str))
            return
    print(json.dumps({"reproduced": False, "note": "no replayer registered for this task"}))


if __name__ == "__main__":
    main()
