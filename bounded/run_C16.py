"""C16 (bounded): all ways of building an array agree; dense conversion round-trips.

Every route is compared with a plain-python *description* of the tensor it was asked to build
(index tables, directions, total charge, labels, sector -> data), so the routes agree with each
other by transitivity and none of them serves as the reference.

class kinds   "static"       sr.Z2Array ... / sr.Z2FermionicArray ...   (symmetry omitted, str, object)
              "generic_str"  sr.AbelianArray / sr.FermionicArray with symmetry="Z2"
              "generic_obj"  the same with a fresh Symmetry object
"""

import itertools
import warnings

import numpy as np

from bounded.common import *  # noqa: F401,F403
from bounded.common import (
    G, SYMS, SYMS_STATIC, CHARGE_SETS, ABELIAN_CLS, FERMI_CLS, audit_valid, Invalid, arrays_equal, build_array,
    build_index, dense_of, val_blocks, index_struct, labels_of, fill_block, brute_valid_sectors, reachable_charges,
    rand_array_spec, rand_index_spec, gen_index_specs, spec_valid_sectors, sym_name, jcharge, ucharge, driver_main, sr,
)

CONTRACTS = {
    "C16.routes": (
        "direct construction cls(indices=, charge=, blocks=), cls.from_blocks, cls.from_fill_fn, cls.from_dense (labels as "
        "lists and as dicts), cls.random and sr.utils.from_dense on static classes (symmetry omitted / name / object), generic "
        "classes (name / object; Z4 generic only), abelian and fermionic, every combination of omitted optional arguments "
        "(charge, symmetry, oddpos; odd fermionic arrays need oddpos): each result equals the described tensor exactly "
        "(tables, directions, charge, labels, blocks; from_blocks: tables restricted to the charges that occur)",
        "quick: ranks 0-2 systematically over <=2 charges (from 3) per index, sizes 1-2, every direction pattern and reachable "
        "charge, rank 3 sampled, then seeded random structures to rank 3; thorough: rank 3 systematic (sizes 1), random to rank 4; exact",
    ),
    "C16.symmetry_arg": (
        "every constructor route of the eight static classes with a different symmetry (name and object) raises ValueError; "
        "generic classes without a symmetry, or with an unknown name, raise ValueError",
        "exhaustive over static class x other symmetry x route",
    ),
    "C16.dense_roundtrip": (
        "x.to_dense() equals the independent densifier (shape, dtype, values) and from_dense(x.to_dense(), labels of the "
        "sorted-charge layout, duals, charge) == x, for arrays with missing blocks, pending fermionic signs, float32/64, "
        "complex128, rank 0-3 (thorough 4), all class kinds, also through sr.utils.from_dense",
        "systematic small structures then seeded random; exact",
    ),
    "C16.dense_projection": (
        "arbitrary dense integer arrays with arbitrary (unsorted, interleaved) per-axis charge labels (lists or dicts): "
        "from_dense(..., invalid_sectors='ignore') has the table {charge: multiplicity} per axis and, per conserving sector, "
        "the sub-array at the positions of those charges in original order; its to_dense is the projection of D on the "
        "conserving sectors with every axis reordered by (charge, original position); 'raise' raises ValueError and 'warn' "
        "warns exactly when a non-conserving entry is non-zero; reachable and unreachable total charges",
        "systematic over small label patterns then seeded random, rank 0-3 (thorough 4), axis length <=5 (thorough 6); exact",
    ),
}

SMALL_POOL = {
    "Z2": [0, 1],
    "Z4": [0, 1, 3],
    "U1": [-1, 0, 1],
    "Z2Z2": [(0, 0), (0, 1), (1, 1)],
    "U1U1": [(0, 0), (0, 1), (-1, 1)],
}
KINDS = ("static", "generic_str", "generic_obj")


# ----------------------------------------------------------------------------
# helpers


def sym_object(sym):
    """A fresh Symmetry instance (not the cached one handed out by get_symmetry)."""
    return getattr(sr.symmetries, sym)()


def class_of(sym, fermionic, kind):
    if kind == "static":
        return (FERMI_CLS if fermionic else ABELIAN_CLS)[sym]
    return sr.FermionicArray if fermionic else sr.AbelianArray


def symmetry_variants(sym, kind):
    """(name of variant, kwargs) for the symmetry argument."""
    if kind == "static":
        return [("omitted", {}), ("str", {"symmetry": sym}), ("obj", {"symmetry": sym_object(sym)})]
    if kind == "generic_str":
        return [("str", {"symmetry": sym})]
    return [("obj", {"symmetry": sym_object(sym)})]


def tables_of(spec):
    return [({ucharge(c): int(s) for c, s in sorted(((ucharge(c), s) for c, s in i["cm"]))}, bool(i["dual"])) for i in spec["indices"]]


def sectors_of(spec):
    if spec.get("sectors", "all") == "all":
        return spec_valid_sectors(spec)
    return [tuple(ucharge(c) for c in s) for s in spec["sectors"]]


def shape_of(tables, s):
    return tuple(t[0][c] for t, c in zip(tables, s))


def data_blocks(spec, per_shape=False, sectors=None):
    tables = tables_of(spec)
    out = {}
    for s in sectors_of(spec) if sectors is None else sectors:
        shp = shape_of(tables, s)
        key = ("shape",) + shp if per_shape else s
        out[s] = np.asarray(fill_block(spec.get("fill_seed", 0), key, shp, spec.get("dtype", "float64")))
    return out


def sorted_labels(tables):
    """Per axis, the charge label of every position of the sorted-charge layout."""
    return [[c for c in sorted(t[0]) for _ in range(t[0][c])] for t in tables]


def paste_dense(tables, blocks, dtype):
    """The dense array of a described tensor in the sorted-charge layout (oracle)."""
    offs = []
    for cm, _ in tables:
        o, acc = {}, 0
        for c in sorted(cm):
            o[c] = acc
            acc += cm[c]
        offs.append((o, acc))
    out = np.zeros(tuple(o[1] for o in offs), dtype=dtype)
    for s, b in blocks.items():
        sl = tuple(slice(offs[i][0][c], offs[i][0][c] + tables[i][0][c]) for i, c in enumerate(s))
        out[sl] = b
    return out


def restrict_tables(tables, blocks):
    out = []
    for i, (cm, dual) in enumerate(tables):
        occ = {s[i] for s in blocks}
        out.append(({c: d for c, d in cm.items() if c in occ}, dual))
    return out


def mismatch(x, cls, sym, tables, charge, blocks, labels, dtype=None):
    """None when `x` is the described tensor, else a sentence."""
    if type(x) is not cls:
        return f"result is a {type(x).__name__}, expected {cls.__name__}"
    if sym_name(x) != sym:
        return f"symmetry {sym_name(x)} != {sym}"
    try:
        audit_valid(x)
    except Invalid as e:
        return f"not a valid array: {e}"
    if len(x.indices) != len(tables):
        return f"rank {len(x.indices)} != {len(tables)}"
    if x.charge != charge:
        return f"total charge {x.charge!r} != {charge!r}"
    for i, (ix, (cm, dual)) in enumerate(zip(x.indices, tables)):
        want = (tuple(sorted(cm.items())), dual, None)
        if index_struct(ix) != want:
            return f"index {i}: {index_struct(ix)} != {want}"
    if labels_of(x) != labels:
        return f"labels {labels_of(x)} != {labels}"
    vb = val_blocks(x)
    for s in set(vb) | set(blocks):
        a, b = vb.get(s), blocks.get(s)
        if a is None:
            a = np.zeros_like(b)
        if b is None:
            b = np.zeros_like(a)
        if np.shape(a) != np.shape(b):
            return f"block {s!r}: shape {np.shape(a)} != {np.shape(b)}"
        if not np.array_equal(a, b):
            return f"block {s!r}: data differ"
        if dtype is not None and np.asarray(a).dtype != np.dtype(dtype):
            return f"block {s!r}: dtype {np.asarray(a).dtype} != {dtype}"
    return None


class Case:
    def __init__(self, contract, feats):
        self.contract = contract
        self.feats = feats
        self.fails = []
        self.ncalls = 0

    def bad(self, ob, what, **extra):
        self.fails.append((f"C16.{ob}", what, {**self.feats, **extra}))

    def call(self, ob_feats, fn, *a, **k):
        """A library call on a valid input: an exception is a failure."""
        self.ncalls += 1
        try:
            return True, fn(*a, **k)
        except Exception as e:
            self.bad("no_exception", f"{type(e).__name__}: {e}"[:300], exception=type(e).__name__, **ob_feats)
            return False, None

    def must_raise(self, ob, ob_feats, fn, *a, **k):
        self.ncalls += 1
        try:
            fn(*a, **k)
        except ValueError:
            return
        except Exception as e:
            self.bad(ob, f"raised {type(e).__name__} ({e}) instead of ValueError"[:300], raised=type(e).__name__, **ob_feats)
            return
        self.bad(ob, "did not raise", raised=None, **ob_feats)


def subsets_of_options(names):
    for k in range(len(names) + 1):
        for c in itertools.combinations(names, k):
            yield set(c)


# ----------------------------------------------------------------------------
# C16.routes


def check_routes(d):
    spec = d["spec"]
    sym, fermionic, kind = spec["sym"], bool(spec["fermionic"]), d["kind"]
    dtype = spec.get("dtype", "float64")
    cls = class_of(sym, fermionic, kind)
    tables = tables_of(spec)
    duals = tuple(t[1] for t in tables)
    nd = len(tables)
    charge = ucharge(spec["charge"])
    ident = G.zero(sym)
    odd = bool(fermionic and G.par(sym, charge))
    oddpos = spec.get("oddpos", 5)
    labels = ((oddpos, False),) if odd else ()
    sectors = sectors_of(spec)
    allvalid = brute_valid_sectors(sym, [list(t[0]) for t in tables], duals, charge)
    is_all = set(sectors) == set(allvalid)
    B = data_blocks(spec)
    first_dual_nonzero = bool(B) and any(dl and c != G.neg(sym, c) for c, dl in zip(next(iter(B)), duals))
    # does the plain (direction-blind) sum of the first stored sector differ from its signed sum?
    unsigned_differs = bool(B) and G.signed_sum(sym, next(iter(B)), (False,) * nd) != G.signed_sum(sym, next(iter(B)), duals)
    feats = {"sym": sym, "fermionic": fermionic, "kind": kind, "ndim": nd, "odd": odd, "all_sectors": is_all,
             "identity_charge": charge == ident, "any_dual": any(duals), "dtype": dtype}
    case = Case("C16", feats)
    mk_indices = lambda: tuple(sr.BlockIndex(dict(cm), dual=dl) for cm, dl in tables)

    # option combinations: which optional arguments are passed
    opt_names = ["charge"] + (["oddpos"] if fermionic else [])
    for symname, symkw in symmetry_variants(sym, kind):
        for given in subsets_of_options(opt_names):
            kw = dict(symkw)
            if "oddpos" in given:
                kw["oddpos"] = oddpos
            of = {"symmetry_arg": symname, "charge_given": "charge" in given, "oddpos_given": "oddpos" in given}
            needs_oddpos_error = odd and "oddpos" not in given

            # ---- A. direct construction
            if "charge" in given or B or charge == ident:
                ckw = {"charge": charge} if "charge" in given else {}
                f = dict(of, route="direct", first_sector_dual_nonzero=first_dual_nonzero, first_sector_unsigned_sum_differs=unsigned_differs)
                if needs_oddpos_error:
                    case.must_raise("oddpos_required", f, cls, indices=mk_indices(), blocks=dict(B), **ckw, **kw)
                else:
                    ok, x = case.call(f, cls, indices=mk_indices(), blocks=dict(B), **ckw, **kw)
                    if ok:
                        why = mismatch(x, cls, sym, tables, charge, B, labels, dtype)
                        if why:
                            case.bad("direct", why, **f)

            # ---- B. from_blocks (tables inferred from the data)
            if B and ("charge" in given or charge == ident):
                ckw = {"charge": charge} if "charge" in given else {}
                f = dict(of, route="from_blocks")
                if needs_oddpos_error:
                    case.must_raise("oddpos_required", f, cls.from_blocks, dict(B), duals, **ckw, **kw)
                else:
                    ok, x = case.call(f, cls.from_blocks, dict(B), duals, **ckw, **kw)
                    if ok:
                        why = mismatch(x, cls, sym, restrict_tables(tables, B), charge, B, labels, dtype)
                        if why:
                            case.bad("from_blocks", why, **f)

            # ---- C. from_fill_fn (constant-per-shape data: the function only sees the shape)
            if "charge" in given or charge == ident:
                ckw = {"charge": charge} if "charge" in given else {}
                f = dict(of, route="from_fill_fn")
                Bs = data_blocks(spec, per_shape=True, sectors=allvalid)
                seen_shapes = []

                def fill_fn(shape, _seen=seen_shapes):
                    shape = tuple(int(v) for v in shape)
                    _seen.append(shape)
                    return np.asarray(fill_block(spec.get("fill_seed", 0), ("shape",) + shape, shape, dtype))

                if needs_oddpos_error:
                    case.must_raise("oddpos_required", f, cls.from_fill_fn, fill_fn, mk_indices(), **ckw, **kw)
                else:
                    ok, x = case.call(f, cls.from_fill_fn, fill_fn, mk_indices(), **ckw, **kw)
                    if ok:
                        why = mismatch(x, cls, sym, tables, charge, Bs, labels, dtype)
                        if not why and set(x.blocks) != set(allvalid):
                            why = f"stored sectors {sorted(x.blocks)} != all valid sectors {sorted(allvalid)}"
                        if not why and sorted(seen_shapes) != sorted(shape_of(tables, s) for s in allvalid):
                            why = "fill function not called exactly once per valid sector"
                        if why:
                            case.bad("from_fill_fn", why, **f)
                        else:
                            # the same tensor through direct construction
                            ok2, y = case.call(dict(f, route="direct"), cls, indices=mk_indices(), charge=charge, blocks=dict(Bs), **kw)
                            if ok2:
                                eq, msg = arrays_equal(x, y, why=True)
                                if not eq:
                                    case.bad("routes_agree", f"from_fill_fn vs direct: {msg}", **f)
                    # random: structure only
                    f = dict(of, route="random")
                    ok, x = case.call(f, cls.random, mk_indices(), seed=3, dtype=dtype, **ckw, **kw)
                    if ok:
                        why = None
                        try:
                            audit_valid(x)
                        except Invalid as e:
                            why = str(e)
                        if not why and (type(x) is not cls or x.charge != charge or set(x.blocks) != set(allvalid) or labels_of(x) != labels
                                        or [index_struct(i) for i in x.indices] != [(tuple(sorted(cm.items())), dl, None) for cm, dl in tables]):
                            why = "structure of the random array differs from the described one"
                        if not why and any(np.asarray(b).dtype != np.dtype(dtype) for b in x.blocks.values()):
                            why = "dtype of the random array differs"
                        if not why:
                            ok2, y = case.call(f, cls.random, mk_indices(), seed=3, dtype=dtype, **ckw, **kw)
                            if ok2 and not arrays_equal(x, y):
                                why = "same seed gives different arrays"
                        if why:
                            case.bad("random", why, **f)

            # ---- D. from_dense with the labels of the sorted-charge layout
            if "charge" in given or charge == ident:
                ckw = {"charge": charge} if "charge" in given else {}
                dense = paste_dense(tables, B, dtype)
                lab = sorted_labels(tables)
                full = {s: B.get(s, np.zeros(shape_of(tables, s), dtype=dtype)) for s in allvalid}
                for form in ("list", "dict", "dict_reversed_insertion"):
                    # a dict labels position i by index_map[i] whatever the insertion order of its keys
                    maps = lab if form == "list" else [dict(enumerate(l)) for l in lab] if form == "dict" else [{i: l[i] for i in reversed(range(len(l)))} for l in lab]
                    f = dict(of, route="from_dense", maps=form)
                    if needs_oddpos_error:
                        case.must_raise("oddpos_required", f, cls.from_dense, dense, maps, duals, **ckw, **kw)
                        continue
                    with warnings.catch_warnings(record=True) as w:
                        warnings.simplefilter("always")
                        ok, x = case.call(f, cls.from_dense, dense, maps, duals, **ckw, **kw)
                    if ok:
                        why = mismatch(x, cls, sym, tables, charge, full, labels, dtype)
                        if not why and w:
                            why = f"warned on a conserving array: {w[0].message}"
                        if why:
                            case.bad("from_dense", why[:300], **f)

    # ---- E. the helper sr.utils.from_dense (static classes by name; no oddpos argument)
    if sym in SYMS_STATIC:
        scls = (FERMI_CLS if fermionic else ABELIAN_CLS)[sym]
        dense = paste_dense(tables, B, dtype)
        lab = sorted_labels(tables)
        full = {s: B.get(s, np.zeros(shape_of(tables, s), dtype=dtype)) for s in allvalid}
        for chg in ([True, False] if charge == ident else [True]):
            ckw = {"charge": charge} if chg else {}
            for ferm_form in (["kw", "omitted"] if not fermionic else ["kw"]):
                fkw = {"fermionic": fermionic} if ferm_form == "kw" else {}
                for form in ("list", "dict_reversed_insertion"):
                    maps = lab if form == "list" else [{i: l[i] for i in reversed(range(len(l)))} for l in lab]
                    f = {"route": "utils.from_dense", "charge_given": chg, "fermionic_arg": ferm_form, "maps": form}
                    if odd:
                        case.must_raise("oddpos_required", f, sr.utils.from_dense, dense, sym, maps, duals, **fkw, **ckw)
                        continue
                    with warnings.catch_warnings(record=True) as w:
                        warnings.simplefilter("always")
                        ok, x = case.call(f, sr.utils.from_dense, dense, sym, maps, duals, **fkw, **ckw)
                    if ok:
                        why = mismatch(x, scls, sym, tables, charge, full, (), dtype)
                        if why or w:
                            case.bad("utils_from_dense", (why or f"warned: {w[0].message}")[:300], **f)

    # ---- from_blocks must refuse blocks that disagree about the size of a charge
    for ax in range(nd):
        by_charge = {}
        for s in B:
            by_charge.setdefault(s[ax], []).append(s)
        shared = [ss for ss in by_charge.values() if len(ss) > 1]
        if shared:
            s_bad = shared[0][-1]
            Bbad = dict(B)
            shp = list(np.shape(B[s_bad]))
            shp[ax] += 1
            Bbad[s_bad] = np.ones(tuple(shp), dtype=dtype)
            kw = dict(symmetry_variants(sym, kind)[0][1])
            if odd:
                kw["oddpos"] = oddpos
            case.must_raise("from_blocks_inconsistent_sizes", {"route": "from_blocks", "axis": ax}, cls.from_blocks, Bbad, duals, charge=charge, **kw)
            break

    fp = ("routes", sym, fermionic, kind, tuple((tuple(sorted(cm.items())), dl) for cm, dl in tables), charge, tuple(sorted(sectors)), dtype)
    return {"fingerprint": fp, "nontrivial": bool(B), "failures": case.fails[:8],
            "sample": {"sym": sym, "kind": kind, "fermionic": fermionic, "indices": spec["indices"], "charge": spec["charge"], "constructor_calls": case.ncalls}}


# ----------------------------------------------------------------------------
# C16.symmetry_arg


def check_symmetry_arg(d):
    sym, fermionic = d["sym"], d["fermionic"]
    case = Case("C16", {"sym": sym, "fermionic": fermionic})
    cm = {c: 1 for c in SMALL_POOL[sym][:2]}
    ident = G.zero(sym)
    mk = lambda: (sr.BlockIndex(dict(cm), dual=False), sr.BlockIndex(dict(cm), dual=True))
    c0 = SMALL_POOL[sym][0]
    B = {(c0, c0): np.ones((1, 1))}
    dense = np.eye(2)
    lab = [sorted(cm), sorted(cm)]
    fill = lambda shape: np.ones(shape)

    def routes(cls, kw):
        return [
            ("direct", lambda: cls(indices=mk(), charge=ident, blocks=dict(B), **kw)),
            ("direct_noblocks", lambda: cls(indices=mk(), **kw)),
            ("from_blocks", lambda: cls.from_blocks(dict(B), (False, True), charge=ident, **kw)),
            ("from_fill_fn", lambda: cls.from_fill_fn(fill, mk(), charge=ident, **kw)),
            ("random", lambda: cls.random(mk(), charge=ident, seed=1, **kw)),
            ("from_dense", lambda: cls.from_dense(dense, lab, (False, True), charge=ident, **kw)),
        ]

    n = 0
    if sym in SYMS_STATIC:
        cls = (FERMI_CLS if fermionic else ABELIAN_CLS)[sym]
        for other in SYMS:
            if other == sym:
                continue
            for form, val in (("str", other), ("obj", sym_object(other))):
                for route, fn in routes(cls, {"symmetry": val}):
                    n += 1
                    case.must_raise("wrong_symmetry_rejected", {"route": route, "other": other, "form": form, "kind": "static"}, fn)
        # ... and its own symmetry in every form is accepted
        for form, val in (("str", sym), ("obj", sym_object(sym)), ("cached_obj", sr.get_symmetry(sym))):
            for route, fn in routes(cls, {"symmetry": val}):
                n += 1
                ok, x = case.call({"route": route, "form": form, "kind": "static"}, fn)
                if ok and (type(x) is not cls or sym_name(x) != sym):
                    case.bad("own_symmetry_accepted", f"{route}: wrong class/symmetry", route=route, form=form)
    gcls = sr.FermionicArray if fermionic else sr.AbelianArray
    for route, fn in routes(gcls, {}):
        n += 1
        case.must_raise("generic_needs_symmetry", {"route": route, "kind": "generic", "form": "omitted"}, fn)
    for route, fn in routes(gcls, {"symmetry": None}):
        n += 1
        case.must_raise("generic_needs_symmetry", {"route": route, "kind": "generic", "form": "None"}, fn)
    for route, fn in routes(gcls, {"symmetry": "Z3"}):
        n += 1
        case.must_raise("unknown_symmetry_rejected", {"route": route, "kind": "generic", "form": "str"}, fn)
    for form, val in (("str", sym), ("obj", sym_object(sym))):
        for route, fn in routes(gcls, {"symmetry": val}):
            n += 1
            ok, x = case.call({"route": route, "form": form, "kind": "generic"}, fn)
            if ok and (type(x) is not gcls or sym_name(x) != sym):
                case.bad("own_symmetry_accepted", f"{route}: wrong class/symmetry", route=route, form=form)
    return {"fingerprint": ("symarg", sym, fermionic), "nontrivial": True, "failures": case.fails[:10], "sample": {"sym": sym, "fermionic": fermionic, "calls": n}}


# ----------------------------------------------------------------------------
# C16.dense_roundtrip


def check_roundtrip(d):
    spec = d["spec"]
    sym, fermionic = spec["sym"], bool(spec.get("fermionic"))
    kind = d.get("kind", "static")
    x = build_array(spec)
    tables = tables_of(spec)
    duals = tuple(t[1] for t in tables)
    lazy = bool(spec.get("pre_ops"))
    feats = {"sym": sym, "fermionic": fermionic, "ndim": len(tables), "lazy_phases": lazy, "dtype": spec.get("dtype", "float64"),
             "no_blocks": not x.blocks, "missing_blocks": spec.get("sectors", "all") != "all", "kind": kind}
    case = Case("C16", feats)
    want = dense_of(x)
    ok, got = case.call({"route": "to_dense"}, x.to_dense)
    if ok:
        got = np.asarray(got)
        if got.shape != want.shape:
            case.bad("to_dense", f"shape {got.shape} != {want.shape}")
        elif not np.array_equal(got, want):
            case.bad("to_dense", "values differ from the independent densifier")
        elif x.blocks and got.dtype != want.dtype:
            case.bad("to_dense_dtype", f"dtype {got.dtype} != {want.dtype}")
    # back, with the labels of the sorted-charge layout
    cls = class_of(sym, fermionic, kind if sym in SYMS_STATIC else "generic_str")
    kw = symmetry_variants(sym, kind if sym in SYMS_STATIC else "generic_str")[d.get("symvar", 0) % len(symmetry_variants(sym, kind if sym in SYMS_STATIC else "generic_str"))][1]
    lab = sorted_labels(tables)
    if d.get("maps") == "dict":
        lab = [{i: l[i] for i in reversed(range(len(l)))} for l in lab]  # keys decide, not insertion order
    if fermionic and x.oddpos:
        kw = dict(kw, oddpos=x.oddpos[0].label if len(x.oddpos) == 1 else list(x.oddpos))
    src = want if not ok else got
    with warnings.catch_warnings(record=True) as w:
        warnings.simplefilter("always")
        ok2, y = case.call({"route": "from_dense"}, cls.from_dense, src, lab, duals, charge=x.charge, **kw)
    if ok2:
        try:
            audit_valid(y)
        except Invalid as e:
            case.bad("roundtrip_valid", str(e))
        eq, msg = arrays_equal(y, x, why=True)
        if not eq:
            case.bad("roundtrip", f"from_dense(to_dense(x)) != x: {msg}"[:300])
        if w:
            case.bad("roundtrip_warns", str(w[0].message)[:200])
        if sym_name(y) != sym:
            case.bad("roundtrip", "symmetry changed")
        ok3, again = case.call({"route": "to_dense"}, y.to_dense)
        if ok3 and not np.array_equal(np.asarray(again), want):
            case.bad("to_dense_idempotent", "to_dense(from_dense(to_dense(x))) != to_dense(x)")
    if sym in SYMS_STATIC and not (fermionic and x.oddpos):
        with warnings.catch_warnings(record=True) as w4:
            warnings.simplefilter("always")
            ok4, z = case.call({"route": "utils.from_dense"}, sr.utils.from_dense, src, sym, sorted_labels(tables), duals, fermionic=fermionic, charge=x.charge)
        if ok4 and w4:
            case.bad("roundtrip_warns", str(w4[0].message)[:200], route="utils.from_dense")
        if ok4:
            eq, msg = arrays_equal(z, x, why=True)
            if not eq or type(z) is not (FERMI_CLS if fermionic else ABELIAN_CLS)[sym]:
                case.bad("roundtrip_utils", f"utils.from_dense(to_dense(x)) != x: {msg}"[:300])
    fp = ("rt", sym, fermionic, kind, tuple((tuple(sorted(cm.items())), dl) for cm, dl in tables), x.charge, tuple(sorted(x.blocks)),
          str(spec.get("pre_ops")), spec.get("dtype", "float64"))
    return {"fingerprint": fp, "nontrivial": bool(x.blocks), "failures": case.fails[:6],
            "sample": {"sym": sym, "fermionic": fermionic, "indices": spec["indices"], "charge": spec.get("charge"), "pre_ops": spec.get("pre_ops")}}


# ----------------------------------------------------------------------------
# C16.dense_projection


def check_projection(d):
    sym, fermionic, kind = d["sym"], bool(d["fermionic"]), d["kind"]
    labels = [[ucharge(c) for c in l] for l in d["labels"]]
    duals = tuple(bool(x) for x in d["duals"])
    charge = ucharge(d["charge"])
    nd = len(labels)
    shape = tuple(len(l) for l in labels)
    rng = np.random.default_rng(d["fill_seed"])
    dtype = d.get("dtype", "float64")
    D = np.asarray(rng.integers(-4, 5, size=shape)).astype(dtype)
    if d.get("zero_fraction"):
        D = D * (rng.random(shape) > d["zero_fraction"])
    D = np.asarray(D).astype(dtype)
    odd = bool(fermionic and G.par(sym, charge))
    cls = class_of(sym, fermionic, kind)
    kw = dict(symmetry_variants(sym, kind)[d.get("symvar", 0) % len(symmetry_variants(sym, kind))][1])
    if odd:
        kw["oddpos"] = 9
    def _dict_map(l):
        # insertion order grouped by charge (as a user building the map charge by charge would): keys decide, not order
        order = sorted(range(len(l)), key=lambda i: (str(l[i]), -i))
        return {i: l[i] for i in order}

    lab_arg = labels if d.get("maps", "list") == "list" else [_dict_map(l) for l in labels]
    ident = G.zero(sym)
    ckw = {} if (d.get("charge_omitted") and charge == ident) else {"charge": charge}

    # ---- oracle: tables, conserving sectors, projection, reordering
    tables = []
    groups = []
    for l, dl in zip(labels, duals):
        g = {}
        for i, c in enumerate(l):
            g.setdefault(c, []).append(i)
        groups.append(g)
        tables.append(({c: len(g[c]) for c in sorted(g)}, dl))
    conserving = [s for s in itertools.product(*[sorted(g) for g in groups]) if G.signed_sum(sym, s, duals) == charge]
    blocks = {s: D[np.ix_(*[groups[i][c] for i, c in enumerate(s)])] if nd else D for s in conserving}
    mask = np.zeros(shape, dtype=bool)
    for idx in itertools.product(*[range(n) for n in shape]):
        mask[idx] = G.signed_sum(sym, tuple(labels[i][j] for i, j in enumerate(idx)), duals) == charge
    P = np.where(mask, D, 0).astype(dtype)
    R = P
    for ax, l in enumerate(labels):
        order = sorted(range(len(l)), key=lambda i: (l[i], i))
        R = np.take(R, order, axis=ax)
    leak = bool(np.any(np.abs(np.where(mask, 0, D)) > 1e-12))
    interleaved = any(l != sorted(l) for l in labels)
    feats = {"sym": sym, "fermionic": fermionic, "kind": kind, "ndim": nd, "interleaved_labels": interleaved, "odd": odd,
             "no_conserving_sector": not conserving, "maps": d.get("maps", "list"), "leak": leak, "any_dual": any(duals)}
    case = Case("C16", feats)
    labs = ((9, False),) if odd else ()

    ok, y = case.call({"mode": "ignore"}, cls.from_dense, D, lab_arg, duals, invalid_sectors="ignore", **ckw, **kw)
    if ok:
        why = mismatch(y, cls, sym, tables, charge, blocks, labs, dtype)
        if why:
            case.bad("projection_blocks", why[:300])
        ok2, back = case.call({"mode": "to_dense"}, y.to_dense)
        if ok2:
            back = np.asarray(back)
            if back.shape != R.shape or not np.array_equal(back, R):
                case.bad("projection_dense", "to_dense(from_dense(D)) is not the charge-sorted projection of D")
            elif not np.array_equal(dense_of(y), R):
                case.bad("projection_dense", "independent densifier of from_dense(D) is not the charge-sorted projection of D")
    if sym in SYMS_STATIC and not odd:
        # the name-dispatch helper must agree with the class method, also for dict maps whatever their insertion order
        with warnings.catch_warnings():
            warnings.simplefilter("ignore")  # the helper has no invalid_sectors argument: it warns about what it projects away
            oku, yu = case.call({"mode": "utils"}, sr.utils.from_dense, D, sym, lab_arg, duals, fermionic=fermionic, **ckw)
        if oku:
            why = mismatch(yu, (FERMI_CLS if fermionic else ABELIAN_CLS)[sym], sym, tables, charge, blocks, labs, dtype)
            if why:
                case.bad("projection_blocks_utils", why[:300])
    # the two loud modes
    try:
        with warnings.catch_warnings(record=True) as w:
            warnings.simplefilter("always")
            z = cls.from_dense(D, lab_arg, duals, invalid_sectors="raise", **ckw, **kw)
        if leak:
            case.bad("invalid_raise", "non-conserving entries present but invalid_sectors='raise' did not raise")
        elif ok and not arrays_equal(z, y):
            case.bad("invalid_raise", "result differs between 'raise' and 'ignore'")
    except ValueError as e:
        if not leak:
            case.bad("invalid_raise", f"raised without a non-conserving entry: {e}"[:200])
    with warnings.catch_warnings(record=True) as w:
        warnings.simplefilter("always")
        okw, z = case.call({"mode": "warn"}, cls.from_dense, D, lab_arg, duals, **ckw, **kw)
    if okw:
        if bool(w) != leak:
            case.bad("invalid_warn", f"default mode warned={bool(w)} but non-conserving entries present={leak}")
        if ok and not arrays_equal(z, y):
            case.bad("invalid_warn", "result differs between the default mode and 'ignore'")
    fp = ("proj", sym, fermionic, kind, tuple(tuple(map(str, l)) for l in labels), duals, str(charge), d.get("maps", "list"))
    return {"fingerprint": fp, "nontrivial": bool(conserving) and bool(np.any(P)), "failures": case.fails[:6],
            "sample": {"sym": sym, "labels": d["labels"], "duals": d["duals"], "charge": d["charge"], "conserving_sectors": len(conserving)}}


# ----------------------------------------------------------------------------
# generation


def _kinds_for(sym):
    return ("generic_str", "generic_obj") if sym == "Z4" else KINDS


def _route_spec(sym, fermionic, indices, charge, fill_seed, sectors="all", dtype="float64"):
    spec = {"sym": sym, "fermionic": fermionic, "indices": indices, "charge": jcharge(charge), "sectors": sectors, "fill_seed": fill_seed, "dtype": dtype}
    if fermionic and G.par(sym, charge):
        spec["oddpos"] = 5
    return spec


def gen_cases(tier, seed):
    quick = tier == "quick"
    for sym in SYMS:
        for fermionic in (False, True):
            yield {"contract": "C16.symmetry_arg", "sym": sym, "fermionic": fermionic}

    # ---- systematic routes: ranks 0..2 (sizes 1-2), rank 3 (sizes 1; sampled in quick)
    rng = np.random.default_rng([seed, 16, 0])
    k = 0
    for sym in SYMS:
        kinds = _kinds_for(sym)
        per_index = {True: list(gen_index_specs(sym, max_charges=2, sizes=(1, 2), charge_pool=SMALL_POOL[sym])),
                     False: list(gen_index_specs(sym, max_charges=2, sizes=(1,), charge_pool=SMALL_POOL[sym]))}
        for nd in (0, 1, 2, 3):
            pool = per_index[nd <= 2]
            combos = itertools.product(range(len(pool)), repeat=nd)
            if nd == 2 and quick:
                allc = list(combos)
                combos = [allc[i] for i in sorted(rng.choice(len(allc), size=min(len(allc), 500), replace=False).tolist())]
            if nd == 3:
                allc = list(combos)
                m = 250 if quick else 3000
                combos = [allc[i] for i in sorted(rng.choice(len(allc), size=min(len(allc), m), replace=False).tolist())]
            for combo in combos:
                indices = [pool[i] for i in combo]
                reach = reachable_charges(sym, indices) if nd else [G.zero(sym)]
                extra = [c for c in SMALL_POOL[sym] if c not in reach][:1]  # one charge without any sector
                for charge in reach + extra:
                    k += 1
                    spec = _route_spec(sym, bool(k % 2), indices, charge, fill_seed=k)
                    valid = spec_valid_sectors(spec)
                    if len(valid) > 1 and k % 3 == 0:  # a sparse variant
                        keep = [s for j, s in enumerate(valid) if (j + k) % 2]
                        spec["sectors"] = [[jcharge(c) for c in s] for s in keep]
                    yield {"contract": "C16.routes", "spec": spec, "kind": kinds[(k // 2) % len(kinds)]}

    # ---- systematic round trips / projections on small structures
    k = 0
    for sym in SYMS:
        kinds = _kinds_for(sym)
        pool = list(gen_index_specs(sym, max_charges=2, sizes=(1, 2), charge_pool=SMALL_POOL[sym]))
        for nd in (0, 1, 2):
            combos = list(itertools.product(range(len(pool)), repeat=nd))
            if len(combos) > 150:
                combos = [combos[i] for i in sorted(rng.choice(len(combos), size=150, replace=False).tolist())]
            for combo in combos:
                indices = [pool[i] for i in combo]
                for charge in (reachable_charges(sym, indices) if nd else [G.zero(sym)]):
                    k += 1
                    spec = _route_spec(sym, bool(k % 2), indices, charge, fill_seed=k, dtype=("float64", "complex128", "float32")[k % 3])
                    spec["static"] = kinds[k % len(kinds)] == "static"
                    if spec["fermionic"] and nd and k % 4 < 2:
                        spec["pre_ops"] = [["phase_flip", [0]], ["phase_global"]][: 1 + k % 2]
                    yield {"contract": "C16.dense_roundtrip", "spec": spec, "kind": kinds[k % len(kinds)], "symvar": k, "maps": ("list", "dict")[k % 2]}
        # label patterns: every labelling of 1 axis of length <=3 and of 2 axes of length 2 over the small pool
        P = SMALL_POOL[sym]
        pats = [[list(l)] for n in (1, 2, 3) for l in itertools.product(P, repeat=n)]
        pats += [[list(a), list(b)] for a in itertools.product(P, repeat=2) for b in itertools.product(P, repeat=2)]
        pats += [[]]
        for labels in pats:
            for duals in itertools.product((False, True), repeat=len(labels)):
                idx = [{"cm": [[jcharge(c), 1] for c in sorted(set(l))], "dual": dl} for l, dl in zip(labels, duals)]
                reach = reachable_charges(sym, idx) if labels else [G.zero(sym)]
                extra = [c for c in P if c not in reach][:1]
                for charge in reach + extra:
                    k += 1
                    yield {"contract": "C16.dense_projection", "sym": sym, "fermionic": bool(k % 2), "kind": kinds[k % len(kinds)], "symvar": k,
                           "labels": [[jcharge(c) for c in l] for l in labels], "duals": list(duals), "charge": jcharge(charge),
                           "fill_seed": k, "maps": ("list", "dict")[(k // 2) % 2], "charge_omitted": bool(k % 3 == 0)}

    # ---- seeded random part
    n_rand = 30000 if quick else 800000
    maxnd = 3 if quick else 4
    maxlen = 5 if quick else 6
    for i in range(n_rand):
        r = np.random.default_rng([seed, 16, 1, i])
        sym = SYMS[int(r.integers(len(SYMS)))]
        kinds = _kinds_for(sym)
        kind = kinds[int(r.integers(len(kinds)))]
        fermionic = bool(r.integers(2))
        which = i % 3
        if which == 0:
            spec = rand_array_spec(r, sym, ndim=int(r.integers(0, maxnd + 1)), fermionic=fermionic, static=(kind == "static"),
                                   dtype=("float64", "complex128", "float32")[int(r.integers(3))], odd_label=5)
            spec.pop("pre_ops", None)
            yield {"contract": "C16.routes", "spec": spec, "kind": kind}
        elif which == 1:
            spec = rand_array_spec(r, sym, ndim=int(r.integers(0, maxnd + 1)), fermionic=fermionic, static=(kind == "static"),
                                   dtype=("float64", "complex128", "float32")[int(r.integers(3))], lazy=bool(r.integers(2)))
            yield {"contract": "C16.dense_roundtrip", "spec": spec, "kind": kind, "symvar": int(r.integers(3)), "maps": ("list", "dict")[int(r.integers(2))]}
        else:
            nd = int(r.integers(0, maxnd + 1))
            pool = CHARGE_SETS[sym]
            labels = []
            long_axes = nd in (1, 2) and i % 2 == 0  # few charges on long axes: groups of >= 4 irregularly placed positions
            for _ in range(nd):
                n = int(r.integers(7, 13)) if long_axes else int(r.integers(1, maxlen + 1))
                sub = [pool[j] for j in r.choice(len(pool), size=(2 if long_axes else int(r.integers(1, min(3, len(pool)) + 1))), replace=False).tolist()]
                labels.append([sub[int(r.integers(len(sub)))] for _ in range(n)])
            duals = [bool(r.integers(2)) for _ in range(nd)]
            idx = [{"cm": [[jcharge(c), 1] for c in sorted(set(l))], "dual": dl} for l, dl in zip(labels, duals)]
            reach = reachable_charges(sym, idx) if nd else [G.zero(sym)]
            charge = reach[int(r.integers(len(reach)))] if r.random() < 0.9 else pool[int(r.integers(len(pool)))]
            yield {"contract": "C16.dense_projection", "sym": sym, "fermionic": fermionic, "kind": kind, "symvar": int(r.integers(3)),
                   "labels": [[jcharge(c) for c in l] for l in labels], "duals": duals, "charge": jcharge(charge), "fill_seed": int(r.integers(2**31)),
                   "maps": ("list", "dict")[int(r.integers(2))], "charge_omitted": bool(r.integers(2)),
                   "zero_fraction": [0, 0, 0.5][int(r.integers(3))], "dtype": ("float64", "complex128", "float32")[int(r.integers(3))]}


def check_case(d):
    c = d["contract"]
    if c == "C16.routes":
        return check_routes(d)
    if c == "C16.symmetry_arg":
        return check_symmetry_arg(d)
    if c == "C16.dense_roundtrip":
        return check_roundtrip(d)
    if c == "C16.dense_projection":
        return check_projection(d)
    raise ValueError(c)


if __name__ == "__main__":
    driver_main("bounded.run_C16")
