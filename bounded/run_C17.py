"""C17 (bounded cross-check of the proved contracts): group laws of the five built-in
symmetries over the box the property names, and exact sector enumeration."""

import itertools

import numpy as np

from bounded.common import *  # noqa: F401,F403
from bounded.common import G, CHARGE_SETS, brute_valid_sectors, jcharge, ucharge, driver_main, sr

CONTRACTS = {
    "C17.group_laws": (
        "charge triples of each built-in symmetry; finite groups completely, U1-type over the box [-6,6] (pairs from [-2,2]^2 x [-6,6]^2 samples for U1U1)",
        "exhaustive over the stated box; triples (a,b,c) for associativity, pairs elsewhere",
    ),
    "C17.sector_enumeration": (
        "gen_valid_sectors() of arrays with <=4 indices, every direction pattern, every total charge, non-empty subsets of a small charge set per index; static and generic classes",
        "quick: <=3 indices, subsets of <=2 charges; thorough: <=4 indices, all non-empty subsets of the charge set (<=4 charges)",
    ),
}

BOX = list(range(-6, 7))


def _domain(sym, tier):
    if sym in ("Z2", "Z4", "Z2Z2"):
        return CHARGE_SETS[sym] if sym != "Z4" else [0, 1, 2, 3]
    if sym == "U1":
        return BOX
    small = list(range(-2, 3)) if tier == "quick" else list(range(-3, 4))
    return [(a, b) for a in small for b in small] + [(a, b) for a in (-6, 6) for b in (-6, 5)]


def gen_cases(tier, seed):
    for sym in ("Z2", "Z4", "U1", "Z2Z2", "U1U1"):
        dom = _domain(sym, tier)
        # chunk the triples by first element
        for a in dom:
            yield {"contract": "C17.group_laws", "sym": sym, "a": jcharge(a), "tier": tier}
    small = {
        "Z2": [0, 1],
        "Z4": [0, 1, 2, 3],
        "U1": [-1, 0, 1, 2],
        "Z2Z2": [(0, 0), (0, 1), (1, 0), (1, 1)],
        "U1U1": [(0, 0), (0, 1), (1, 0), (-1, 1)],
    }
    maxnd = 3 if tier == "quick" else 4
    maxsub = 2 if tier == "quick" else 4
    rng = np.random.default_rng(seed)
    for sym, pool in small.items():
        subsets = [list(c) for k in range(1, maxsub + 1) for c in itertools.combinations(pool, k)]
        for nd in range(0, maxnd + 1):
            combos = list(itertools.product(range(len(subsets)), repeat=nd))
            if len(combos) > (400 if tier == "quick" else 6000):
                idx = rng.choice(len(combos), size=(400 if tier == "quick" else 6000), replace=False)
                combos = [combos[i] for i in sorted(idx.tolist())]
            for combo in combos:
                yield {
                    "contract": "C17.sector_enumeration",
                    "sym": sym,
                    "charges": [[jcharge(c) for c in subsets[i]] for i in combo],
                    "static": bool(len(combo) % 2) and sym != "Z4",
                }
    yield from _gen_large_and_twin(tier, seed)


def _gen_large_and_twin(tier, seed):
    """(a) indices with many charges next to indices with one or two (ratios 4..9), ranks 1-3;
    (b) 'twin' structures that differ only by the charges -1 <-> -2 (equal CPython hashes), enumerated one after
    the other in the same process (history)"""
    rng = np.random.default_rng([seed, 171])
    wide = {"U1": list(range(-4, 6)), "U1U1": [(a, b) for a in (-2, -1, 0, 1) for b in (-1, 0, 1)], "Z4": [0, 1, 2, 3], "Z2Z2": [(0, 0), (0, 1), (1, 0), (1, 1)]}
    n = 60 if tier == "quick" else 1500
    for sym, pool in wide.items():
        for i in range(n):
            nd = int(rng.integers(1, 4))
            big = int(rng.integers(0, nd))
            sets = []
            for ax in range(nd):
                k = int(rng.integers(5, len(pool) + 1)) if ax == big and len(pool) >= 5 else int(rng.integers(1, 3))
                k = min(k, len(pool))
                sets.append([pool[j] for j in sorted(rng.choice(len(pool), size=k, replace=False).tolist())])
            yield {"contract": "C17.sector_enumeration", "sym": sym, "charges": [[jcharge(c) for c in cs] for cs in sets], "static": bool(i % 2) and sym != "Z4", "few_duals": True}
    swap = lambda c: (-2 if c == -1 else -1 if c == -2 else c)  # noqa: E731
    for sym in ("U1", "U1U1"):
        for i in range(40 if tier == "quick" else 600):
            nd = int(rng.integers(2, 4))
            sets = []
            for ax in range(nd):
                if sym == "U1":
                    base = [-2 if (i + ax) % 2 else -1] + [int(v) for v in rng.choice([0, 1, 2, 3], size=int(rng.integers(1, 3)), replace=False)]
                    sets.append(sorted(set(base)))
                else:
                    base = [((-2 if (i + ax) % 2 else -1), 1), (0, 0)] + ([(1, 0)] if rng.integers(2) else [])
                    sets.append(sorted(set(base)))
            twin = [[swap(c) if sym == "U1" else (swap(c[0]), c[1]) for c in cs] for cs in sets]
            yield {"contract": "C17.sector_enumeration", "sym": sym, "charges": [[jcharge(c) for c in cs] for cs in sets], "twin": [[jcharge(c) for c in sorted(set(cs))] for cs in twin], "static": bool(i % 2), "few_duals": True}


def _laws(sym, a, dom):
    S = sr.get_symmetry(sym)
    fails = []

    def bad(ob, what):
        fails.append((ob, what, {"sym": sym}))

    e = S.combine()
    if e != G.zero(sym):
        bad("C17.identity", f"combine() == {e!r}")
    if S.combine(a) != a or S.combine(a, e) != a or S.combine(e, a) != a:
        bad("C17.identity", f"identity law fails for {a!r}")
    na = S.sign(a)
    if not S.valid(na) or not G.ok(sym, na):
        bad("C17.sign_valid", f"sign({a!r}) = {na!r} is not a valid charge")
    if S.combine(a, na) != e:
        bad("C17.inverse", f"combine({a!r}, sign({a!r})) = {S.combine(a, na)!r}")
    if S.sign(a, False) != a or S.sign(na) != a:
        bad("C17.sign_involution", f"sign laws fail for {a!r}")
    if na != G.neg(sym, a):
        bad("C17.sign_value", f"sign({a!r}) = {na!r}, reference {G.neg(sym, a)!r}")
    if S.parity(a) not in (0, 1) or S.parity(a) != G.par(sym, a):
        bad("C17.parity_value", f"parity({a!r}) = {S.parity(a)!r}")
    n = 0
    for b in dom:
        ab = S.combine(a, b)
        n += 1
        if ab != G.add(sym, a, b) or not S.valid(ab):
            bad("C17.combine_value", f"combine({a!r},{b!r}) = {ab!r}")
        if ab != S.combine(b, a):
            bad("C17.commutative", f"{a!r},{b!r}")
        if S.parity(ab) != (S.parity(a) + S.parity(b)) % 2:
            bad("C17.parity_hom", f"{a!r},{b!r}")
        if S.sign(ab) != S.combine(S.sign(a), S.sign(b)):
            bad("C17.sign_distributes", f"{a!r},{b!r}")
        for c in dom:
            n += 1
            if S.combine(ab, c) != S.combine(a, S.combine(b, c)) or S.combine(a, b, c) != S.combine(ab, c):
                bad("C17.associative", f"{a!r},{b!r},{c!r}")
    return fails, n


def check_case(d):
    sym = d["sym"]
    if d["contract"] == "C17.group_laws":
        a = ucharge(d["a"])
        fails, n = _laws(sym, a, _domain(sym, d.get("tier", "quick")))
        return {"fingerprint": ("laws", sym, a), "nontrivial": True, "failures": fails[:5], "sample": {"sym": sym, "a": d["a"], "tuples_checked": n}}
    fails = []
    nvalid = 0
    families = [d["charges"]] + ([d["twin"]] if d.get("twin") else [])
    for fam in families:  # a twin structure is enumerated after the first one, in the same process
        chargesets = [[ucharge(c) for c in cs] for cs in fam]
        nd = len(chargesets)
        cls = (ABELIAN_CLS[sym] if d["static"] else sr.AbelianArray) if sym != "Z4" else sr.AbelianArray  # noqa: F405
        kw = {} if (d["static"] and sym != "Z4") else {"symmetry": sym}
        totals = CHARGE_SETS[sym] if sym not in ("U1",) else [-2, -1, 0, 1, 2, 3]
        if sym == "U1U1":
            totals = [(0, 0), (0, 1), (1, 0), (1, 1), (-1, 1), (1, -1), (2, 0)]
        dual_patterns = list(itertools.product((False, True), repeat=nd))
        if d.get("few_duals") and len(dual_patterns) > 4:
            dual_patterns = dual_patterns[:: max(1, len(dual_patterns) // 4)]
        for duals in dual_patterns:
            indices = tuple(sr.BlockIndex({c: 1 for c in cs}, dual=dl) for cs, dl in zip(chargesets, duals))
            for tot in totals:
                x = cls(indices=indices, charge=tot, **kw)
                got = list(x.gen_valid_sectors())
                want = brute_valid_sectors(sym, chargesets, duals, tot)
                nvalid += len(want)
                feats = {"sym": sym, "ndim": nd, "last_dual": bool(duals[-1]) if nd else None, "twin": bool(d.get("twin")), "many_charges": max(len(cs) for cs in chargesets) >= 5 if nd else False}
                if len(set(got)) != len(got):
                    fails.append(("C17.sectors_no_repeat", f"{sym} {chargesets} duals={duals} charge={tot!r}: repeated", feats))
                if set(got) - set(want):
                    fails.append(("C17.sectors_sound", f"{sym} {chargesets} duals={duals} charge={tot!r}: extra {sorted(set(got) - set(want))[:3]}", feats))
                if set(want) - set(got):
                    fails.append(("C17.sectors_complete", f"{sym} {chargesets} duals={duals} charge={tot!r}: missing {sorted(set(want) - set(got))[:3]}", feats))
                for s_ in want[:2]:
                    if not x.is_valid_sector(s_):
                        fails.append(("C17.is_valid_sector", f"{s_!r} rejected", feats))
    chargesets = [[ucharge(c) for c in cs] for cs in d["charges"]]
    return {
        "fingerprint": ("sectors", sym, tuple(map(tuple, map(lambda cs: tuple(map(str, cs)), chargesets))), d["static"]),
        "nontrivial": nvalid > 0,
        "failures": fails[:5],
        "sample": {"sym": sym, "charges": d["charges"], "valid_sectors_total": nvalid},
    }


if __name__ == "__main__":
    driver_main("bounded.run_C17")
