"""C14 (bounded): operations never modify their operands unless asked to; the in-place form
of an operation produces exactly the out-of-place value.

Frame clause.  Random applicable programs (bounded/programs.py); before every step a deep,
order-preserving, byte-level snapshot (common.snapshot) of EVERY value alive (operands and
all earlier results) is taken and compared afterwards.  Out-of-place steps may change
nothing; steps run through the library's own in-place switch (and `apply_to_arrays`) may
change only their receiver - in particular not the operand a result was computed from, even
when they share memory.

In-place clause.  For every operation with an `inplace` switch (and += -= *= /= **=):
y = x.copy(); r = op(y, inplace=True): r is y, y == op(x) exactly (indices incl. sub-index
information, charge, labels, blocks times pending signs) and x is untouched.

Obligations
    C14.frame.<opname>                features {"op", "changed", "inplace", "victim_is_input", ...}
    C14.inplace_returns_self.<opname>
    C14.inplace_equal.<opname>
"""

import numpy as np

from bounded.common import *  # noqa: F401,F403
from bounded.common import SYMS, arrays_equal, driver_main, snapshot, snapshot_diff
from bounded.programs import (
    DEFAULT_WEIGHTS,
    INPLACE_OPS,
    Gen,
    Interp,
    features_of,
    fingerprint,
    kind_of,
    make_thunk,
    mutated_slots,
    raise_if_gen_crash,
    random_program,
    safe_case,
    step_inputs,
)

CONTRACTS = {
    "C14.frame_single": (
        "one targeted public operation (with its prerequisite steps) followed by 1-2 library in-place mutations of its result "
        "(phase_sync/transpose/conj/fuse/... with inplace=True, *=, apply_to_arrays); snapshots of all operands and earlier values "
        "compared around every step; every operation x 5 symmetries x abelian/fermionic x static/generic class; fermionic operands "
        "with pending signs",
        "quick: 1 program per cell; thorough: 12",
    ),
    "C14.frame_program": (
        "random applicable programs of 2-5 operations on shared operands (pairs and longer sequences), about a quarter of the steps "
        "through the in-place switch; arrays and BlockVectors; snapshots of every live value around every step",
        "quick: 5000 programs; thorough: 120000",
    ),
    "C14.inplace_equiv": (
        "every operation with an in-place switch (transpose, conj, dagger, squeeze, expand_dims, fuse, unfuse, unfuse_all, reshape, "
        "multiply_diagonal, sync_charges, phase_flip/transpose/sector/global/sync, drop_misaligned_sectors, += -= *= /= on arrays and "
        "BlockVectors) applied in place to a copy and out of place to the original, on operands and on derived values (fused, lazy)",
        "quick: 3 cases per (operation, symmetry, kind, class); thorough: 30",
    ),
}

FOLLOW_UPS = {
    "phase_sync": 3, "transpose": 3, "conj": 2, "dagger": 1, "phase_global": 2, "phase_flip": 2, "phase_transpose": 1,
    "phase_sector": 1, "scale": 2, "apply_to_arrays": 3, "fuse": 2, "unfuse_all": 1, "squeeze": 1, "expand_dims": 1,
    "sync_charges": 1, "add": 1, "mul": 1, "multiply_diagonal": 1, "reshape": 1,
}
TARGET_OPS = [n for n in DEFAULT_WEIGHTS] + ["drop_misaligned", "apply_to_arrays"]
PROGRAM_WEIGHTS = dict(DEFAULT_WEIGHTS, apply_to_arrays=1.5, drop_misaligned=1.0)
SQUARE_OPS = ("eigh", "solve", "trace", "einsum", "matmul", "qr", "svd", "svd_truncated")
ONES_OPS = ("item", "float", "complex", "int", "bool", "div", "squeeze")
AFTER_FUSE = ("unfuse", "unfuse_all", "reshape")
EQUIV_OPS = [o for o in INPLACE_OPS]


def _first_operand(g, rng, op):
    if op in SQUARE_OPS and rng.random() < 0.8:
        g.add_operand(g.square_spec(zero_charge=(op == "eigh") or rng.random() < 0.4))
    elif op in ONES_OPS and rng.random() < 0.8:
        g.add_operand(g.ones_spec())
    else:
        g.add_operand(g.rand_spec(ndim=int(rng.choice([1, 2, 2, 3, 3, 4]))))
    if op in AFTER_FUSE and len(g.vals[0].indices) > 1:
        g.try_op("fuse")
        if g.fermionic and not g.dead and rng.random() < 0.6:   # pending signs on the fused value
            g.chain = True
            g.random_step({"phase_flip": 1, "phase_global": 1, "transpose": 1, "conj": 1})
            g.chain = False


def _single_case(seed, tnum, k, sym, fermionic, static, op, tag):
    rng = np.random.default_rng([seed, tnum, 1, k])
    g = Gen(rng, sym, fermionic, static=static, dtype="complex128" if rng.random() < 0.15 else "float64")
    _first_operand(g, rng, op)
    if g.dead:
        return None
    n0 = len(g.vals)
    if not g.try_op(op):
        g.random_step()
        if g.dead or not g.try_op(op):
            return None
    # mutate what was just produced through library in-place operations
    new = [j for j in range(n0, len(g.vals)) if kind_of(g.vals[j]) in ("arr", "vec")]
    g.inplace_rate = 1.0
    names = [n for n in FOLLOW_UPS]
    p = np.array([FOLLOW_UPS[n] for n in names], dtype=float)
    for _ in range(int(rng.integers(1, 3))):
        if g.dead or not new:
            break
        j = int(rng.choice(new))
        for _try in range(6):
            if g.try_op(names[int(rng.choice(len(names), p=p / p.sum()))], slot=j):
                break
    return {"contract": "C14.frame_single", "program": g.program(), "gen": tag}


def _random_case(seed, tnum, k, tag):
    rng = np.random.default_rng([seed, tnum, 2, k])
    g = random_program(rng, SYMS[k % 5], bool((k // 5) % 2), bool(rng.integers(0, 2)), int(rng.integers(2, 6)),
                       dtype="complex128" if rng.random() < 0.1 else "float64", weights=PROGRAM_WEIGHTS, inplace_rate=0.25)
    if not g.steps:
        return None
    return {"contract": "C14.frame_program", "program": g.program(), "gen": tag}


def _equiv_case(seed, tnum, k, sym, fermionic, static, op, tag):
    rng = np.random.default_rng([seed, tnum, 3, k])
    g = Gen(rng, sym, fermionic, static=static, dtype="complex128" if rng.random() < 0.15 else "float64")
    _first_operand(g, rng, "unfuse" if (op in AFTER_FUSE or rng.random() < 0.2) else op)
    for _ in range(int(rng.choice([0, 0, 1, 2]))):   # a derived receiver now and then
        if not g.dead:
            g.random_step()
    if g.dead:
        return None
    n0 = len(g.steps)
    if op in ("scale", "add", "sub", "div") and rng.random() < 0.35:
        # BlockVector receiver
        vecs = g.slots("vec")
        if not vecs:
            arrs = [j for j in g.slots("arr") if len(g.vals[j].indices) and len(g.vals[j].blocks)]
            if arrs:
                x = g.vals[int(rng.choice(arrs))]
                g.emit(["construct_vector", None, g._vector_for(x, int(rng.integers(0, len(x.indices))))])
                vecs = g.slots("vec")
        ok = bool(vecs) and g.try_op(op, slot=int(rng.choice(vecs)))
    else:
        ok = g.try_op(op)
    if not ok or g.dead or len(g.steps) == n0 or g.steps[-1][0] != op:
        return None
    last = g.steps[-1]
    if last[2].get("inplace"):
        return None
    if op == "scale" and last[2].get("form") not in ("mul", "div", "add", "sub", "pow"):
        return None   # reflected forms have no in-place variant
    if op == "div" and kind_of(g.vals[last[1]]) != "vec":
        return None   # array /= array is not offered (NotImplemented -> rebinding)
    if op == "drop_misaligned" and last[2]["b"] == last[1]:
        return None   # one object cannot receive both results
    last[2].pop("via", None)
    last[2].pop("prop", None)
    return {"contract": "C14.inplace_equiv", "program": g.program(), "gen": tag}


def _cells():
    for sym in SYMS:
        for fermionic in (False, True):
            for static in (True, False):
                if not (sym == "Z4" and static):
                    yield sym, fermionic, static


def gen_cases(tier, seed):
    tnum = 0 if tier == "quick" else 1
    # (a) targeted op + in-place follow-ups on its results
    k = 0
    for rep in range(1 if tier == "quick" else 12):
        for sym, fermionic, static in _cells():
            for op in TARGET_OPS:
                k += 1
                tag = [tier, seed, "single", k, op]
                yield from safe_case("C14.frame_single", tag,
                                     lambda a=(seed, tnum, k, sym, fermionic, static, op, tag): _single_case(*a))
    # (b) random programs on shared operands
    for k in range(5000 if tier == "quick" else 120000):
        tag = [tier, seed, "random", k]
        yield from safe_case("C14.frame_program", tag, lambda a=(seed, tnum, k, tag): _random_case(*a))
    # (c) in-place == out-of-place
    k = 0
    for rep in range(3 if tier == "quick" else 30):
        for sym, fermionic, static in _cells():
            for op in EQUIV_OPS:
                if op.startswith("phase_") and not fermionic:
                    continue
                k += 1
                tag = [tier, seed, "equiv", k, op]
                yield from safe_case("C14.inplace_equiv", tag,
                                     lambda a=(seed, tnum, k, sym, fermionic, static, op, tag): _equiv_case(*a))


def _snap_all(vals):
    return [snapshot(v) if kind_of(v) in ("arr", "vec") else None for v in vals]


def _victim_feats(prog, step, j):
    return {"victim_slot": j, "victim_is_operand": j < len(prog["operands"]), "victim_is_input": j in step_inputs(step)}


def check_frames(d):
    prog = d["program"]
    it = Interp(prog)
    fails = []
    nontrivial = any(kind_of(v) == "arr" and len(v.blocks) for v in it.vals)
    while not it.done():
        step = it.peek()
        op, slot, args = step
        feats = features_of(it.vals, step)
        feats["inplace"] = bool(args.get("inplace")) or op == "apply_to_arrays"
        before = _snap_all(it.vals)
        nbefore = len(it.vals)
        receiver = None if slot is None else it.vals[slot]
        b_obj = it.vals[args["b"]] if "b" in args else None
        r = it.exec_next()
        if r.exc is not None:
            # exceptions are C01's subject; the frame must hold nevertheless
            feats["raised"] = type(r.exc).__name__
        allowed = set(mutated_slots(step))   # (a failed in-place call may leave its receiver in any state)
        for j in range(nbefore):
            if before[j] is None or j in allowed:
                continue
            diff = snapshot_diff(before[j], snapshot(it.vals[j]))
            if diff:
                f = dict(feats, changed=diff, **_victim_feats(prog, step, j))
                fails.append((f"C14.frame.{op}", f"step {r.k} {op} {args} changed value {j}: {diff}", f))
        if r.exc is not None:
            break
        if r.inplace and op != "apply_to_arrays":
            ret = r.results
            want = [receiver] + ([b_obj] if op == "drop_misaligned" else [])
            if len(ret) != len(want) or any(a is not b for a, b in zip(ret, want)):
                fails.append((f"C14.inplace_returns_self.{op}", f"step {r.k} {op} {args}: in-place call did not return its receiver", dict(feats)))
        for v in r.results:
            if kind_of(v) == "arr" and len(v.blocks):
                nontrivial = True
    sp0 = prog["operands"][0]
    return {
        "fingerprint": fingerprint(prog),
        "nontrivial": nontrivial,
        "failures": fails[:6],
        "sample": {"sym": sp0.get("sym"), "fermionic": sp0.get("fermionic"), "ops": [s[0] + ("!" if s[2].get("inplace") else "") for s in prog["steps"]]},
    }


def check_equiv(d):
    prog = d["program"]
    it = Interp(prog)
    fails = []
    nsteps = len(prog["steps"])
    while it.k < nsteps - 1:
        r = it.exec_next()
        if r.exc is not None:
            return {"fingerprint": fingerprint(prog), "nontrivial": False, "failures": []}
    step = prog["steps"][-1]
    op, slot, args = step
    vals = it.vals
    x = vals[slot]
    feats = features_of(vals, step)
    feats["inplace"] = True
    before = _snap_all(vals)
    # out of place on the original
    try:
        expected = make_thunk(vals, step)()
    except Exception as e:
        return {"fingerprint": fingerprint(prog), "nontrivial": False, "failures": [],
                "sample": {"op": op, "raised": type(e).__name__}}
    for j, s in enumerate(before):
        if s is not None:
            diff = snapshot_diff(s, snapshot(vals[j]))
            if diff:
                fails.append((f"C14.frame.{op}", f"out-of-place {op} {args} changed value {j}: {diff}",
                              dict(feats, inplace=False, changed=diff, **_victim_feats(prog, step, j))))
    # in place on a copy
    y = x.copy()
    vals2 = list(vals)
    vals2[slot] = y
    receivers = [y]
    if op == "drop_misaligned":
        if args["b"] == slot:
            bb = y
        else:
            bb = vals[args["b"]].copy()
        vals2[args["b"]] = bb
        receivers.append(bb)
    elif "b" in args and args["b"] == slot:
        pass  # x op= x : the right operand stays the original
    istep = [op, slot, dict(args, inplace=True)]
    try:
        ret = make_thunk(vals2, istep)()
    except Exception as e:
        fails.append((f"C14.inplace_equal.{op}", f"{op} {args}: in-place form raised {type(e).__name__}: {e} (out-of-place did not)", dict(feats)))
        ret = None
    if ret is not None:
        rets = list(ret) if isinstance(ret, tuple) else [ret]
        if len(rets) != len(receivers) or any(a is not b for a, b in zip(rets, receivers)):
            fails.append((f"C14.inplace_returns_self.{op}", f"{op} {args}: in-place call did not return its receiver", dict(feats)))
        exps = list(expected) if isinstance(expected, tuple) else [expected]
        for n, (rcv, e) in enumerate(zip(receivers, exps)):
            if type(rcv) is not type(e):
                fails.append((f"C14.inplace_equal.{op}", f"{op} {args}: receiver {n} has type {type(rcv).__name__}, out-of-place result {type(e).__name__}", dict(feats)))
                continue
            ok, why = arrays_equal(rcv, e, exact=True, check_subinfo=True, why=True)
            if not ok:
                fails.append((f"C14.inplace_equal.{op}", f"{op} {args}: receiver {n} after the in-place call differs from the out-of-place result: {why}", dict(feats)))
            elif kind_of(rcv) == "arr" and getattr(rcv, "fermionic", False):
                # same pending signs are not required, same *value* is (checked above); the stored sector order must agree
                if set(rcv.blocks) != set(e.blocks):
                    fails.append((f"C14.inplace_equal.{op}", f"{op} {args}: stored sector sets differ", dict(feats)))
        # the original and everything else untouched by the in-place call on the copy
        for j, s in enumerate(before):
            if s is not None:
                diff = snapshot_diff(s, snapshot(vals[j]))
                if diff:
                    fails.append((f"C14.frame.{op}", f"in-place {op} {args} on a copy changed value {j}: {diff}",
                                  dict(feats, changed=diff, on_copy=True, **_victim_feats(prog, step, j))))
    nontrivial = kind_of(x) == "vec" or (kind_of(x) == "arr" and len(x.blocks) > 0)
    return {
        "fingerprint": fingerprint(prog),
        "nontrivial": nontrivial,
        "failures": fails[:6],
        "sample": {"op": op, "args": args, "receiver": kind_of(x)},
    }


def check_case(d):
    raise_if_gen_crash(d)
    if d["contract"] == "C14.inplace_equiv":
        return check_equiv(d)
    return check_frames(d)


if __name__ == "__main__":
    driver_main("bounded.run_C14")
