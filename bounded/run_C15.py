"""C15 (bounded): results do not depend on call history, caches or threads.

Every check compares what an operation returns under some history / cache size /
thread schedule with what the same operation returns on freshly built operands
with the fuse-information cache disabled.  The thread clause is a *stress run*
(bounded; the only evidence offered for the schedule quantifier).

All cases restore the module globals they touch (cache size, cache content,
default contraction mode, interpreter switch interval) in a `finally` block.
"""

import copy
import itertools
import sys
import threading

import numpy as np

from bounded.common import *  # noqa: F401,F403
from bounded.common import (
    CHARGE_SETS,
    G,
    arrays_equal,
    build_array,
    driver_main,
    jcharge,
    spec_valid_sectors,
    sr,
    ucharge,
)
from bounded.oracles_fuse import axis_plan, fingerprint_of

import symmray.abelian_core as _ac
from symmray.abelian_core import SubIndexInfo

CONTRACTS = {
    "C15.cache_history": (
        "families of near-identical arrays (rank 3-4, abelian and fermionic, all five symmetries): a base array and copies "
        "that differ in exactly one attribute (one direction flipped, one block size, one charge label, one missing sector), "
        "and pre-fused pairs that share the outer index table but differ in sub-index structure; operations fuse (several "
        "groupings), tensordot with the conjugate in fused mode, reshape (merge adjacent axes), svd of the fused matrix; under "
        "cache sizes 0, 1, 2, 8192: cold, warm (same objects, other order), warm through freshly built objects, near-miss "
        "order (same operation on all family members consecutively) -- every result equals the one computed on fresh "
        "operands with the cache disabled (exact, incl. sub-index tables; svd factors to 1e-9); len(cache) <= maxsize after every call; cache size limits maxsize in {0,1,2,8192} and per-array sector limit maxsectors in {512, 0, 3} (bypass path); "
        "every call",
        "quick: 300 seeded families (plain + sub-index variants) x 4 cache sizes x 2 order seeds; thorough: 6000 families; each case runs ~ 4 x |family| x "
        "|ops| (about 150-250) operation calls",
    ),
    "C15.cache_entries_immutable": (
        "entries of the fuse-information cache and the value of calc_fuse_group_info: a deep, order-preserving snapshot "
        "(own walker over tuples, lists, dicts, BlockIndex, SubIndexInfo) taken right after the entry is created is unchanged "
        "after further out-of-place and in-place operations on the results (unfuse, transpose, conj, expand_dims, squeeze, "
        "fuse in both strategies, tensordot, reshape, svd, drop of sectors)",
        "quick: 600 seeded arrays x 2-3 groupings; thorough: 20000",
    ),
    "C15.mode_context": (
        "default_tensordot_mode(m): for every start mode, inner mode, optional nested mode in {auto, fused, blockwise}, with "
        "normal exit, an Exception and a BaseException raised in the body: inside the body the mode is m, afterwards it is "
        "the previous one (also after nesting); set_default_tensordot_mode(None) is a no-op; tensordot(mode=None) obeys it",
        "exhaustive: 3 x 3 x 4 x 3 = 108 cases",
    ),
    "C15.threads": (
        "8 threads performing mixed fuse / tensordot (fused mode) / reshape / svd calls on *shared* operands (a near-identical "
        "family), cache sizes 2 and 8192, interpreter switch interval lowered to 10 us: every returned value equals the "
        "sequential one; no exception; cache size bound holds afterwards",
        "bounded stress run, not a proof over schedules: quick 96 cases x 8 threads x 25 calls; thorough 400 cases x 8 "
        "threads x 200 calls",
    ),
}

SYMS_ALL = ("Z2", "U1", "Z4", "Z2Z2", "U1U1")
MODES = ("auto", "fused", "blockwise")


# ----------------------------------------------------------------------------
# families


def _with_sectors(spec, drop=None):
    spec = dict(spec)
    valid = spec_valid_sectors(spec)
    if not valid:
        return None
    if drop is None:
        spec["sectors"] = "all"
    else:
        if len(valid) < 2:
            return None
        keep = [s for i, s in enumerate(valid) if i != drop % len(valid)]
        spec["sectors"] = [[jcharge(c) for c in s] for s in keep]
    return spec


def _family(rng, sym, fermionic, nd):
    pool = CHARGE_SETS[sym]
    indices = []
    for _ in range(nd):
        pick = sorted(rng.choice(len(pool), size=2, replace=False).tolist())
        indices.append({"cm": [[jcharge(pool[i]), int(rng.integers(1, 4))] for i in pick], "dual": bool(rng.integers(0, 2))})
    from bounded.common import reachable_charges

    reach = reachable_charges(sym, indices)
    charge = reach[int(rng.integers(0, len(reach)))]
    base = {
        "sym": sym,
        "fermionic": fermionic,
        "static": bool(rng.integers(0, 2)) and sym != "Z4",
        "indices": indices,
        "charge": jcharge(charge),
        "fill_seed": int(rng.integers(1, 2**31 - 1)),
        "dtype": "float64",
    }
    if fermionic and G.par(sym, charge):
        base["oddpos"] = 3
    fam = []
    b = _with_sectors(base)
    if b is None:
        return None
    fam.append(("base", b))
    a = int(rng.integers(0, nd))
    v = copy.deepcopy(base)
    v["indices"][a]["dual"] = not v["indices"][a]["dual"]
    fam.append(("direction", _with_sectors(v)))
    a = int(rng.integers(0, nd))
    v = copy.deepcopy(base)
    v["indices"][a]["cm"][int(rng.integers(0, 2))][1] += 1
    fam.append(("size", _with_sectors(v)))
    a = int(rng.integers(0, nd))
    v = copy.deepcopy(base)
    have = [ucharge(c) for c, _ in v["indices"][a]["cm"]]
    others = [c for c in pool if c not in have]
    if others:
        k = int(rng.integers(0, 2))
        v["indices"][a]["cm"][k][0] = jcharge(others[int(rng.integers(0, len(others)))])
        v["indices"][a]["cm"].sort(key=lambda cs: ucharge(cs[0]))
        fam.append(("label", _with_sectors(v)))
    fam.append(("sector", _with_sectors(base, drop=int(rng.integers(0, 100)))))
    # same structure, other data: must *hit* the cache and still be right
    v = copy.deepcopy(b)
    v["fill_seed"] += 1
    fam.append(("data", v))
    fam = [(k, s) for k, s in fam if s is not None]
    # sub-index structure: pre-fuse axes (0,1) of the base, and of the base with axes 0,1 exchanged
    # (same outer table when the two directions agree, different sub-index order)
    sub = []
    for k, s in fam[:2]:
        s1 = dict(s, pre_ops=[["fuse", [[0, 1]]]])
        s2 = dict(s, pre_ops=[["transpose", [1, 0] + list(range(2, nd))], ["fuse", [[0, 1]]]])
        s3 = dict(s, pre_ops=[["fuse", [[1, 0]]]])
        sub += [(k + "+fused01", s1), (k + "+fused10t", s2), (k + "+fused10", s3)]
    return fam, sub


def _ops(nd):
    ops = []
    if nd == 3:
        gs = [[[0, 1]], [[1, 0]], [[2, 0]], [[0], [1, 2]], [[0, 1, 2]], [[1, 2], [0]]]
    elif nd == 4:
        gs = [[[0, 1]], [[1, 0]], [[0, 1], [2, 3]], [[3, 0], [1]], [[0], [1, 2]], [[0, 2], [3, 1]], [[1, 2, 3]]]
    else:  # rank 2 (pre-fused rank 3)
        gs = [[[0, 1]], [[1, 0]], [[0]], [[1], [0]]]
    for g in gs:
        ops.append(["fuse", g])
    ops.append(["tdot", [0]])
    if nd >= 3:
        ops.append(["tdot", [0, 1]])
        ops.append(["tdot", [nd - 1, 0]])
    ops.append(["reshape", 0])  # merge the first two axes
    if nd >= 3:
        ops.append(["reshape", 1])  # merge the last two
    ops.append(["reshape", 2])  # merge everything
    ops.append(["svd", 1])
    if nd >= 3:
        ops.append(["svd", 2])
    return ops


def _run_op(x, op):
    name = op[0]
    if name == "fuse":
        return x.fuse(*[tuple(g) for g in op[1]])
    if name == "tdot":
        axes = tuple(op[1])
        return sr.tensordot(x, x.conj(), axes=(axes, axes), mode="fused", preserve_array=True)
    if name == "reshape":
        sh = tuple(x.shape)
        if op[1] == 0:
            new = (sh[0] * sh[1],) + sh[2:]
        elif op[1] == 1:
            new = sh[:-2] + (sh[-2] * sh[-1],)
        else:
            new = (int(np.prod(sh)),)
        return x.reshape(new)
    if name == "svd":
        k = op[1]
        nd = len(x.indices)
        y = x.fuse(tuple(range(k)), tuple(range(k, nd)))
        return sr.linalg.svd(y)
    raise ValueError(op)


def _run_op_safe(x, op):
    """exceptions raised by symmray are values here: C15 only asks that they do not depend on history"""
    try:
        return _run_op(x, op)
    except Exception as e:  # noqa: BLE001
        return _Raised(type(e).__name__, str(e))


class _Raised:
    def __init__(self, name, msg):
        self.name, self.msg = name, msg


def _same(r, ref, op):
    if isinstance(ref, _Raised) or isinstance(r, _Raised):
        if isinstance(ref, _Raised) and isinstance(r, _Raised) and ref.name == r.name:
            return True, ""
        f = lambda v: f"raised {v.name}: {v.msg}" if isinstance(v, _Raised) else "returned a value"  # noqa: E731
        return False, f"{f(r)} but the cache-free call {f(ref)}"
    if isinstance(ref, tuple):
        if not isinstance(r, tuple) or len(r) != len(ref):
            return False, "result arity differs"
        for i, (u, v) in enumerate(zip(r, ref)):
            ok, why = arrays_equal(u, v, exact=False, tol=1e-9, check_subinfo=True, why=True)
            if not ok:
                return False, f"svd factor {i}: {why}"
        return True, ""
    if type(r) is not type(ref):
        return False, f"result type {type(r).__name__} != {type(ref).__name__}"
    ok, why = arrays_equal(r, ref, exact=True, check_subinfo=True, why=True)
    if ok:
        # block dtype
        for k, b in ref.blocks.items():
            if k in r.blocks and np.asarray(r.blocks[k]).dtype != np.asarray(b).dtype:
                return False, f"dtype of block {k!r} differs"
    return ok, why


class _Globals:
    """save / restore every module global a case may touch"""

    def __enter__(self):
        self.maxsize = _ac._fuseinfo_cache_maxsize
        self.maxsectors = _ac._fuseinfo_cache_maxsectors
        self.mode = _ac._DEFAULT_TENSORDOT_MODE
        self.switch = sys.getswitchinterval()
        return self

    def __exit__(self, *exc):
        _ac._fuseinfo_cache_maxsize = self.maxsize
        _ac._fuseinfo_cache_maxsectors = self.maxsectors
        _ac._fuseinfos.clear()
        _ac._DEFAULT_TENSORDOT_MODE = self.mode
        sys.setswitchinterval(self.switch)
        return False


def _set_cache(maxsize, maxsectors=512):
    _ac._fuseinfo_cache_maxsize = maxsize
    # arrays with more stored sectors than this bypass the cache ("too many sectors" path)
    _ac._fuseinfo_cache_maxsectors = maxsectors
    _ac._fuseinfos.clear()


# ----------------------------------------------------------------------------
# generation


def _gen_history(tier, seed):
    quick = tier == "quick"
    rng = np.random.default_rng([seed, 151])
    nfam = 300 if quick else 6000
    made = 0
    while made < nfam:
        sym = SYMS_ALL[made % 5]
        fermionic = bool((made // 5) % 2)
        nd = 3 if (made // 10) % 3 else 4
        res = _family(rng, sym, fermionic, nd)
        if res is None:
            continue
        fam, sub = res
        made += 1
        for kind, members, ndm in (("plain", fam, nd), ("subindex", sub, nd - 1)):
            for maxsize in (0, 1, 2, 8192, (8192, 0), (8192, 3)):
                for order_seed in (0, 1):
                    yield {
                        "contract": "C15.cache_history",
                        "family_kind": kind,
                        "family": [[k, s] for k, s in members],
                        "ops": _ops(ndm),
                        "maxsize": maxsize if isinstance(maxsize, int) else maxsize[0],
                        "maxsectors": 512 if isinstance(maxsize, int) else maxsize[1],
                        "order_seed": order_seed,
                    }


def _gen_immutable(tier, seed):
    quick = tier == "quick"
    rng = np.random.default_rng([seed, 152])
    n = 600 if quick else 20000
    made = 0
    while made < n:
        sym = SYMS_ALL[made % 5]
        fermionic = bool((made // 5) % 2)
        nd = 3 if made % 3 else 4
        res = _family(rng, sym, fermionic, nd)
        if res is None:
            continue
        made += 1
        fam, sub = res
        spec = fam[int(rng.integers(0, len(fam)))][1] if made % 4 else sub[int(rng.integers(0, len(sub)))][1]
        ndm = nd if made % 4 else nd - 1
        gs = [op[1] for op in _ops(ndm) if op[0] == "fuse"]
        pick = rng.choice(len(gs), size=min(3, len(gs)), replace=False)
        yield {"contract": "C15.cache_entries_immutable", "a": spec, "groupings": [gs[i] for i in sorted(pick.tolist())]}


def _gen_modes(tier, seed):
    for start in MODES:
        for inner in MODES:
            for nested in (None,) + MODES:
                for exc in ("none", "Exception", "BaseException"):
                    yield {"contract": "C15.mode_context", "start": start, "inner": inner, "nested": nested, "exc": exc}


def _gen_threads(tier, seed):
    quick = tier == "quick"
    rng = np.random.default_rng([seed, 153])
    n = 96 if quick else 400
    made = 0
    while made < n:
        sym = SYMS_ALL[made % 5]
        fermionic = bool((made // 5) % 2)
        nd = 3 if made % 2 else 4
        res = _family(rng, sym, fermionic, nd)
        if res is None:
            continue
        made += 1
        fam, sub = res
        yield {
            "contract": "C15.threads",
            "family": [[k, s] for k, s in fam],
            "ops": _ops(nd),
            "maxsize": 2 if made % 2 else 8192,
            "nthreads": 8,
            "ncalls": 25 if quick else 200,
            "seed": int(rng.integers(0, 2**31 - 1)),
        }


def gen_cases(tier, seed):
    yield from _gen_modes(tier, seed)
    # interleave so that a run cut short by the time budget still covers every contract
    its = [(_gen_history(tier, seed), 48), (_gen_immutable(tier, seed), 10), (_gen_threads(tier, seed), 1)]
    while its:
        for it, w in list(its):
            for d in itertools.islice(it, w):
                yield d
            else:
                pass
        # drop exhausted iterators
        alive = []
        for it, w in its:
            try:
                first = next(it)
            except StopIteration:
                continue
            alive.append((itertools.chain([first], it), w))
        its = alive


# ----------------------------------------------------------------------------
# checks


def _check_history(d):
    fam = d["family"]
    ops = d["ops"]
    maxsize = d["maxsize"]
    tasks = [(i, j) for j in range(len(ops)) for i in range(len(fam))]  # near-miss order: one op over all members
    fails = []

    def add(ob, what, **kw):
        f = {"maxsize": maxsize, "maxsectors": d.get("maxsectors", 512), "family_kind": d["family_kind"], "fermionic": bool(fam[0][1]["fermionic"]), "sym": fam[0][1]["sym"]}
        f.update(kw)
        if len(fails) < 6:
            fails.append((ob, what, f))

    ncalls = 0
    with _Globals():
        # reference: cache disabled, fresh operands, canonical order
        _set_cache(0)
        ref_arrays = [build_array(s) for _, s in fam]
        ref = {}
        for i, j in sorted(tasks):
            ref[i, j] = _run_op_safe(ref_arrays[i], ops[j])

        _set_cache(maxsize, d.get("maxsectors", 512))
        rng = np.random.default_rng([d["order_seed"], 7])
        try:
            arrays = [build_array(s) for _, s in fam]
            fresh = [build_array(s) for _, s in fam]
        except Exception as e:  # noqa: BLE001
            # the same specs were built without error when the cache was off
            add("C15.history_independent", f"building the operands (incl. their preparatory fuse) raised {type(e).__name__}: {e} with maxsize {maxsize}, not with the cache disabled", history="build")
            return {"fingerprint": fingerprint_of(d), "nontrivial": True, "failures": fails, "sample": None}

        def run(history, order, arrs):
            nonlocal ncalls
            for i, j in order:
                r = _run_op_safe(arrs[i], ops[j])
                ncalls += 1
                n = len(_ac._fuseinfos)
                if n > maxsize:
                    add("C15.cache_bounded", f"{history}: cache holds {n} entries with maxsize {maxsize}", history=history)
                ok, why = _same(r, ref[i, j], ops[j])
                if not ok:
                    add(
                        "C15.history_independent",
                        f"{history}, maxsize {maxsize}: {ops[j]} on member '{fam[i][0]}' differs from the cache-free result: {why}",
                        history=history,
                        op=ops[j][0],
                        variant=fam[i][0],
                    )

        run("cold, near-miss order", tasks, arrays)
        perm = [tasks[k] for k in rng.permutation(len(tasks))]
        run("warm, same objects, shuffled", perm, arrays)
        perm2 = [tasks[k] for k in rng.permutation(len(tasks))]
        run("warm, fresh objects, shuffled", perm2, fresh)
        run("warm, reversed near-miss order", tasks[::-1], arrays)
    return {
        "fingerprint": fingerprint_of(d),
        "nontrivial": ncalls > 0,
        "failures": fails,
        "sample": {"family": [k for k, _ in fam], "n_ops": len(ops), "maxsize": maxsize, "calls": ncalls},
    }


def walk(o):
    """own deep, order-preserving snapshot of a cached plan"""
    if isinstance(o, sr.BlockIndex):
        return ("BI", tuple((walk(c), int(s)) for c, s in o.chargemap.items()), bool(o.dual), walk(o.subinfo))
    if isinstance(o, SubIndexInfo):
        return (
            "SI",
            tuple(walk(i) for i in o.indices),
            tuple((walk(c), tuple((walk(t), int(s)) for t, s in e.items())) for c, e in o.extents.items()),
        )
    if isinstance(o, dict):
        return ("dict", tuple((walk(k), walk(v)) for k, v in o.items()))
    if isinstance(o, (list, tuple)):
        return (type(o).__name__, tuple(walk(v) for v in o))
    if isinstance(o, (np.integer,)):
        return int(o)
    if o is None or isinstance(o, (bool, int, float, str)):
        return o
    raise TypeError(f"walker: unexpected {type(o).__name__} in a cached plan")


def _check_immutable(d):
    fails = []
    spec = d["a"]
    feats = {"sym": spec["sym"], "fermionic": bool(spec["fermionic"])}
    n_entries = 0
    with _Globals():
        _set_cache(8192)
        x = build_array(spec)
        snaps = {}
        gsnaps = []
        results = []
        for g in d["groupings"]:
            gt = tuple(tuple(a) for a in g)
            y = x.fuse(*gt)
            results.append((g, y))
            for k, v in _ac._fuseinfos.items():
                if k not in snaps:
                    snaps[k] = walk(v)
            if not spec["fermionic"]:
                gi = _ac.calc_fuse_group_info(gt, x.duals)
                gsnaps.append((gt, x.duals, walk(gi)))
        n_entries = len(snaps)
        # further operations on the results and the operand
        for g, y in results:
            ops = [
                lambda y=y: y.unfuse_all(),
                lambda y=y: y.copy().unfuse_all(inplace=True),
                lambda y=y: y.conj(),
                lambda y=y: y.copy().conj(inplace=True),
                lambda y=y: y.transpose(tuple(reversed(range(len(y.indices))))),
                lambda y=y: y.copy().transpose(tuple(reversed(range(len(y.indices)))), inplace=True),
                lambda y=y: y.expand_dims(0).squeeze(0),
                lambda y=y: y.copy().expand_dims(0, inplace=True),
                lambda y=y: sr.tensordot(y, y.conj(), axes=((0,), (0,)), mode="fused", preserve_array=True),
                lambda y=y: sr.tensordot(y, y.conj(), axes=((0,), (0,)), mode="blockwise", preserve_array=True),
                lambda y=y: y.reshape((int(np.prod(y.shape)),)) if len(y.indices) > 1 else y,
                lambda y=y: y.fuse(tuple(range(len(y.indices)))) if len(y.indices) > 1 else y,
                lambda y=y: (y * 2.0) + y,
                lambda y=y: sr.linalg.svd(y) if len(y.indices) == 2 else None,
                lambda g=g: x.fuse(*[tuple(a) for a in g]),  # hit
                lambda g=g: (x.fuse(*[tuple(a) for a in g], mode="concat") if not spec["fermionic"] else None),
            ]
            for k_, f in enumerate(ops):
                try:
                    r = f()
                except Exception as e:  # noqa: BLE001
                    # exceptions of these follow-up calls belong to other properties (e.g. F6); only mutation counts here
                    continue
                # the caller owns what it got back: drop a block from it
                if r is not None and hasattr(r, "blocks") and r.blocks and r is not y and r is not x:
                    del r.blocks[next(iter(r.blocks))]
        for k, before in snaps.items():
            if k in _ac._fuseinfos and walk(_ac._fuseinfos[k]) != before:
                fails.append(("C15.cache_entry_unchanged", "a cached fuse plan was modified by later operations", dict(feats)))
                break
        for gt, duals, before in gsnaps:
            if walk(_ac.calc_fuse_group_info(gt, duals)) != before:
                fails.append(("C15.cached_group_info_unchanged", f"value of calc_fuse_group_info{(gt, duals)} was modified", dict(feats)))
                break
        # and the results are still right: same as a cache-free fuse of a fresh operand
        _set_cache(0)
        x2 = build_array(spec)
        for g, y in results:
            ok, why = arrays_equal(y, x2.fuse(*[tuple(a) for a in g]), exact=True, check_subinfo=True, why=True)
            if not ok:
                fails.append(("C15.result_unchanged", f"result of fuse{g} changed after later operations: {why}", dict(feats)))
    return {
        "fingerprint": fingerprint_of(d),
        "nontrivial": n_entries > 0,
        "failures": fails[:5],
        "sample": {"groupings": d["groupings"], "entries": n_entries},
    }


class _Boom(Exception):
    pass


class _BaseBoom(BaseException):
    pass


def _check_modes(d):
    fails = []

    def add(what):
        fails.append(("C15.mode_restored", what, {"start": d["start"], "inner": d["inner"], "nested": d["nested"], "exc": d["exc"]}))

    with _Globals():
        sr.set_default_tensordot_mode(d["start"])
        if sr.get_default_tensordot_mode() != d["start"]:
            add(f"set_default_tensordot_mode({d['start']!r}) not observed")
        sr.set_default_tensordot_mode(None)
        if sr.get_default_tensordot_mode() != d["start"]:
            add("set_default_tensordot_mode(None) changed the mode")
        exc = {"none": None, "Exception": _Boom, "BaseException": _BaseBoom}[d["exc"]]
        try:
            with sr.default_tensordot_mode(d["inner"]):
                if sr.get_default_tensordot_mode() != d["inner"]:
                    add("mode inside the body is not the requested one")
                if d["nested"] is not None:
                    try:
                        with sr.default_tensordot_mode(d["nested"]):
                            if sr.get_default_tensordot_mode() != d["nested"]:
                                add("mode inside the nested body is not the requested one")
                            if exc is not None:
                                raise exc()
                    except (_Boom, _BaseBoom):
                        pass
                    if sr.get_default_tensordot_mode() != d["inner"]:
                        add(f"after the nested block the mode is {sr.get_default_tensordot_mode()!r}, expected {d['inner']!r}")
                # mode=None must follow the default: an unknown default must be *seen* by tensordot
                if exc is not None:
                    raise exc()
        except (_Boom, _BaseBoom):
            pass
        if sr.get_default_tensordot_mode() != d["start"]:
            add(f"after the block the mode is {sr.get_default_tensordot_mode()!r}, expected {d['start']!r}")
        # tensordot(mode=None) consults the default: a bogus default must be rejected, a valid one used
        a = sr.Z2Array(
            indices=(sr.BlockIndex({0: 1, 1: 1}), sr.BlockIndex({0: 1, 1: 1}, dual=True)),
            charge=0,
            blocks={(0, 0): np.ones((1, 1)), (1, 1): 2 * np.ones((1, 1))},
        )
        seen = None
        try:
            with sr.default_tensordot_mode("no-such-mode"):
                try:
                    sr.tensordot(a, a, axes=1, mode=None)
                except ValueError:
                    seen = "rejected"
        except Exception as e:  # noqa: BLE001
            add(f"context manager raised {type(e).__name__}")
        if seen != "rejected":
            add("tensordot(mode=None) did not consult the default mode")
        if sr.get_default_tensordot_mode() != d["start"]:
            add("mode not restored after an error raised by tensordot inside the block")
    return {"fingerprint": fingerprint_of(d), "nontrivial": True, "failures": fails[:4], "sample": dict(d)}


def _check_threads(d):
    fam = d["family"]
    ops = d["ops"]
    fails = []
    feats = {"maxsize": d["maxsize"], "fermionic": bool(fam[0][1]["fermionic"]), "sym": fam[0][1]["sym"], "nthreads": d["nthreads"]}
    tasks = [(i, j) for i in range(len(fam)) for j in range(len(ops))]
    total = 0
    with _Globals():
        _set_cache(0)
        ref_arrays = [build_array(s) for _, s in fam]
        ref = {t: _run_op_safe(ref_arrays[t[0]], ops[t[1]]) for t in tasks}
        _set_cache(d["maxsize"])
        shared = [build_array(s) for _, s in fam]
        out = [[] for _ in range(d["nthreads"])]
        errs = []
        start = threading.Barrier(d["nthreads"])

        def worker(tid):
            rng = np.random.default_rng([d["seed"], tid])
            mine = [tasks[int(k)] for k in rng.integers(0, len(tasks), size=d["ncalls"])]
            start.wait()
            for t in mine:
                try:
                    out[tid].append((t, _run_op_safe(shared[t[0]], ops[t[1]])))
                except BaseException as e:  # noqa: BLE001
                    errs.append((t, f"{type(e).__name__}: {e}"))

        sys.setswitchinterval(1e-5)
        ths = [threading.Thread(target=worker, args=(k,)) for k in range(d["nthreads"])]
        for t in ths:
            t.start()
        for t in ths:
            t.join()
        sys.setswitchinterval(0.005)
        for t, msg in errs[:3]:
            fails.append(("C15.threads_no_exception", f"{ops[t[1]]} on member '{fam[t[0]][0]}' raised in a thread: {msg}", dict(feats, op=ops[t[1]][0])))
        for tid in range(d["nthreads"]):
            for t, r in out[tid]:
                total += 1
                ok, why = _same(r, ref[t], ops[t[1]])
                if not ok and len(fails) < 6:
                    fails.append(("C15.threads_equal_sequential", f"thread {tid}: {ops[t[1]]} on member '{fam[t[0]][0]}': {why}", dict(feats, op=ops[t[1]][0])))
        if len(_ac._fuseinfos) > d["maxsize"]:
            fails.append(("C15.cache_bounded", f"cache holds {len(_ac._fuseinfos)} entries with maxsize {d['maxsize']} after the threads finished", dict(feats)))
    return {
        "fingerprint": fingerprint_of(d),
        "nontrivial": total > 0,
        "failures": fails[:6],
        "sample": {"threads": d["nthreads"], "calls_compared": total, "maxsize": d["maxsize"]},
    }


def check_case(d):
    c = d["contract"]
    if c == "C15.cache_history":
        return _check_history(d)
    if c == "C15.cache_entries_immutable":
        return _check_immutable(d)
    if c == "C15.mode_context":
        return _check_modes(d)
    if c == "C15.threads":
        return _check_threads(d)
    raise ValueError(c)


if __name__ == "__main__":
    driver_main("bounded.run_C15")
