"""Fock-space oracle of the bounded tier (C18, C19): explicit Jordan-Wigner matrices.

Nothing here imports symmray.  Everything is written from the textbook definition:

    modes       an ordered list of hashable labels m_0 .. m_{n-1}   (FIXED order)
    basis       |n_0 .. n_{n-1}>  :=  (c_0^+)^{n_0} (c_1^+)^{n_1} ... |0>, stored at the
                linear index  sum_k n_k 2^{n-1-k}   (kron order, mode 0 most significant)
    c_k         Z (x) .. (x) Z (x) a (x) 1 (x) .. (x) 1   with  a = [[0,1],[0,0]], Z = diag(1,-1)

An *operator symbol* is a pair (label, "+") (creation) or (label, "-") (annihilation);
a *word* is a sequence of symbols, read as an operator product (leftmost acts last);
a *term list* is a sequence of (coeff, word).

Two independent realisations are provided and cross-checked by `selfcheck`:
    * dense matrices built with numpy.kron  (`Fock.c`, `Fock.word_matrix`, ...)
    * a vectorised occupation-number action (`Fock.word_coo`) for larger mode counts
"""

import itertools

import numpy as np

_A = np.array([[0.0, 1.0], [0.0, 0.0]])
_Z = np.array([[1.0, 0.0], [0.0, -1.0]])
_I = np.eye(2)


def sym_of(s):
    """Accept (label, '+'/'-') pairs as tuples or lists."""
    label, sign = s
    if isinstance(label, list):
        label = tuple(label)
    if sign not in ("+", "-"):
        raise ValueError(f"bad operator symbol {s!r}")
    return (label, sign)


def dag_word(word):
    """Hermitian conjugate of a word: reversed, every symbol conjugated."""
    return [(l, "-" if s == "+" else "+") for l, s in reversed([sym_of(x) for x in word])]


class Fock:
    def __init__(self, modes):
        self.modes = [tuple(m) if isinstance(m, list) else m for m in modes]
        if len(set(self.modes)) != len(self.modes):
            raise ValueError("modes must be distinct")
        self.n = len(self.modes)
        self.D = 2**self.n
        self.pos = {m: k for k, m in enumerate(self.modes)}
        self._c = {}
        self._par = None

    # ------------------------------------------------------------ dense matrices
    def c(self, label):
        """Annihilation matrix of a mode."""
        k = self.pos[label]
        if k not in self._c:
            m = np.eye(1)
            for j in range(self.n):
                m = np.kron(m, _Z if j < k else (_A if j == k else _I))
            self._c[k] = m
        return self._c[k]

    def sym_matrix(self, s):
        label, sign = sym_of(s)
        return self.c(label).T if sign == "+" else self.c(label)

    def word_matrix(self, word):
        m = np.eye(self.D)
        for s in word:
            m = m @ self.sym_matrix(s)
        return m

    def opsum_matrix(self, terms):
        m = np.zeros((self.D, self.D))
        for coeff, word in terms:
            m = m + coeff * self.word_matrix(word)
        return m

    def vacuum(self):
        v = np.zeros(self.D)
        v[0] = 1.0
        return v

    def ket(self, word):
        """The vector  word |0>."""
        v = self.vacuum()
        for s in reversed(list(word)):
            v = self.sym_matrix(s) @ v
        return v

    def vev(self, word):
        """<0| word |0>"""
        return float(self.ket(word)[0])

    def index_of(self, occ):
        """linear index of the occupation state {label: 0/1} (missing labels empty)."""
        i = 0
        for k, m in enumerate(self.modes):
            if occ.get(m, 0):
                i |= 1 << (self.n - 1 - k)
        return i

    # --------------------------------------------- occupation-number action (sparse)
    def _parity_table(self):
        if self._par is None:
            p = np.zeros(self.D, dtype=np.int64)
            for k in range(self.n):
                p ^= (np.arange(self.D) >> k) & 1
            self._par = p
        return self._par

    def word_coo(self, word):
        """Non-zero entries of the matrix of a word as (rows, cols, signs): the textbook
        rule  c_k |..n_k..> = (-1)^{n_0+..+n_{k-1}} n_k |..0..>,  c_k^+ likewise with
        (1-n_k), applied right to left to every basis state at once."""
        par = self._parity_table()
        n = self.n
        src = np.arange(self.D)
        cur = src.copy()
        alive = np.ones(self.D, dtype=bool)
        sgn = np.ones(self.D, dtype=np.int64)
        for s in reversed(list(word)):
            label, sign = sym_of(s)
            k = self.pos[label]
            bit = 1 << (n - 1 - k)
            occ = (cur & bit) != 0
            alive &= ~occ if sign == "+" else occ
            before = ((1 << n) - 1) ^ ((1 << (n - k)) - 1)
            sgn = sgn * (1 - 2 * par[cur & before])
            cur = cur ^ bit
        return cur[alive], src[alive], sgn[alive]

    def opsum_coo(self, terms):
        """Canonical sparse form {row*D+col: value} (zeros dropped at 1e-12) of sum coeff*word."""
        keys, vals = [], []
        for coeff, word in terms:
            r, c, s = self.word_coo(word)
            keys.append(r * self.D + c)
            vals.append(coeff * s.astype(np.float64))
        return coo_collect(keys, vals)

    def coo_to_dense(self, coo):
        m = np.zeros((self.D, self.D))
        for k, v in coo.items():
            m[k // self.D, k % self.D] = v
        return m


def coo_collect(keys, vals, tol=1e-12):
    if not keys:
        return {}
    k = np.concatenate(keys)
    v = np.concatenate(vals)
    if k.size == 0:
        return {}
    u, inv = np.unique(k, return_inverse=True)
    s = np.bincount(inv.reshape(-1), weights=v, minlength=u.size)
    keep = np.abs(s) > tol
    return dict(zip(u[keep].tolist(), s[keep].tolist()))


def coo_max_diff(a, b):
    d = 0.0
    worst = None
    for k in set(a) | set(b):
        e = abs(a.get(k, 0.0) - b.get(k, 0.0))
        if e > d:
            d, worst = e, k
    return d, worst


# ----------------------------------------------------------------------------
# local bases


def parse_bases(bases):
    """bases: per site a list of states, a state a word of creation symbols."""
    return [[[sym_of(s) for s in state] for state in basis] for basis in bases]


def parse_terms(terms):
    return [(coeff, [sym_of(s) for s in word]) for coeff, word in terms]


def modes_of(bases, terms=(), extra=()):
    """Modes in order of first appearance (sites first, then terms, then extra)."""
    out = []
    for basis in parse_bases(bases):
        for state in basis:
            for l, _ in state:
                if l not in out:
                    out.append(l)
    for _, word in parse_terms(terms):
        for l, _ in word:
            if l not in out:
                out.append(l)
    for l in extra:
        l = tuple(l) if isinstance(l, list) else l
        if l not in out:
            out.append(l)
    return out


def state_parity(state):
    """Parity of the number of operators of a basis state."""
    return len(state) % 2


def tensor_kets(fock, bases):
    """K[:, i_1, .., i_n] = X_1[i_1] X_2[i_2] ... X_n[i_n] |0>  (site 1 leftmost)."""
    bases = parse_bases(bases)
    shape = tuple(len(b) for b in bases)
    K = np.zeros((fock.D,) + shape)
    for idx in itertools.product(*[range(d) for d in shape]):
        word = [s for site, i in enumerate(idx) for s in bases[site][i]]
        K[(slice(None),) + idx] = fock.ket(word)
    return K


def documented_bras(fock, bases):
    """L[i_1, .., i_n, :] = <0| X_1[i_1]^dag X_2[i_2]^dag ... X_n[i_n]^dag : every state
    conjugated on its own (operators reversed and daggered) but the SITES NOT reversed --
    the order the library documents ("<i'|<j'|<k'|  n.b. not <k'|<j'|<i'|")."""
    bases = parse_bases(bases)
    shape = tuple(len(b) for b in bases)
    L = np.zeros(shape + (fock.D,))
    vac = fock.vacuum()
    for idx in itertools.product(*[range(d) for d in shape]):
        word = [s for site, i in enumerate(idx) for s in dag_word(bases[site][i])]
        L[idx] = vac @ fock.word_matrix(word)
    return L


def elements_oracle(fock, terms, bases):
    """E[l_1..l_n, r_1..r_n] = sum_terms coeff <0| (left states, daggered per site, sites in
    order) term (right states) |0>  -- vacuum expectation values of the full words."""
    T = fock.opsum_matrix(parse_terms(terms))
    K = tensor_kets(fock, bases)
    L = documented_bras(fock, bases)
    n = len(bases)
    return np.tensordot(np.tensordot(L, T, axes=(n, 0)), K, axes=(n, 0))


def true_matrix_elements(fock, terms, bases):
    """M[l.., r..] = <l| T |r> with the proper bra <l| = (|l>)^dag."""
    T = fock.opsum_matrix(parse_terms(terms))
    K = tensor_kets(fock, bases)
    n = len(bases)
    return np.tensordot(np.tensordot(K, T, axes=(0, 0)), K, axes=(n, 0))


def reversed_site_sign(parities):
    """(-1)^{sum_{j<k} p_j p_k}: the sign between X_1..X_n|0> and X_n..X_1|0>."""
    s = 0
    for j in range(len(parities)):
        for k in range(j + 1, len(parities)):
            s += parities[j] * parities[k]
    return -1 if s % 2 else 1


def convention_signs(bases, name):
    """Diagonal sign tensor S[i_1..i_n] of a state-tensor convention:
    'natural'   psi[i..] multiplies X_1[i_1] .. X_n[i_n]|0>
    'reversed'  psi[i..] multiplies X_n[i_n] .. X_1[i_1]|0>"""
    bases = parse_bases(bases)
    shape = tuple(len(b) for b in bases)
    S = np.ones(shape)
    if name == "natural":
        return S
    if name != "reversed":
        raise ValueError(name)
    for idx in itertools.product(*[range(d) for d in shape]):
        S[idx] = reversed_site_sign([state_parity(bases[s][i]) for s, i in enumerate(idx)])
    return S


def word_mul(terms_a, terms_b):
    """Term list of the product A*B: words concatenated, coefficients multiplied."""
    return [(ca * cb, list(wa) + list(wb)) for ca, wa in parse_terms(terms_a) for cb, wb in parse_terms(terms_b)]


def dag_terms(terms):
    return [(np.conj(c) if isinstance(c, complex) else c, dag_word(w)) for c, w in parse_terms(terms)]


# ----------------------------------------------------------------------------
# charges of basis states, written from the definitions (particle number / parity per species)


def state_charge(sym, state, species_of=None):
    """Charge of a basis state (a word of creation operators) under the model symmetries:
    Z2 parity of N, U1 N, Z2Z2 (N_up mod 2, N_down mod 2), U1U1 (N_up, N_down).
    `species_of(label)` -> 0 (first component, "up") or 1 (second, "down")."""
    n = [0, 0]
    for l, s in state:
        if s != "+":
            raise ValueError("basis states are words of creation operators")
        n[species_of(l) if species_of else 0] += 1
    if sym == "Z2":
        return (n[0] + n[1]) % 2
    if sym == "U1":
        return n[0] + n[1]
    if sym == "Z2Z2":
        return (n[0] % 2, n[1] % 2)
    if sym == "U1U1":
        return (n[0], n[1])
    raise ValueError(sym)


def word_charge(sym, word, species_of=None):
    """Charge a word adds (creations minus annihilations per species)."""
    n = [0, 0]
    for l, s in word:
        n[species_of(l) if species_of else 0] += 1 if s == "+" else -1
    if sym == "Z2":
        return (n[0] + n[1]) % 2
    if sym == "U1":
        return n[0] + n[1]
    if sym == "Z2Z2":
        return (n[0] % 2, n[1] % 2)
    return (n[0], n[1])


def sorted_layout(labels):
    """Position of every original linear index when an axis is reordered by
    (charge sorted, original order within a charge)."""
    order = sorted(range(len(labels)), key=lambda i: (labels[i], i))
    pos = [0] * len(labels)
    for p, i in enumerate(order):
        pos[i] = p
    return order, pos


def to_sorted_layout(T, labels_per_axis):
    """Reorder every axis of a dense tensor into the sorted-charge layout."""
    for ax, labels in enumerate(labels_per_axis):
        order, _ = sorted_layout(labels)
        T = np.take(T, order, axis=ax)
    return T


def from_sorted_layout(T, labels_per_axis):
    """Inverse of to_sorted_layout."""
    for ax, labels in enumerate(labels_per_axis):
        _, pos = sorted_layout(labels)
        T = np.take(T, pos, axis=ax)
    return T


# ----------------------------------------------------------------------------
# lattice models (written from the model definitions)


def spinless_modes(sites):
    return [("s", i) for i in range(len(sites))]


def spinful_modes(sites):
    return [(sp, i) for i in range(len(sites)) for sp in ("u", "d")]


def lattice_terms_spinless(edges, t, V, mu):
    """H = sum_<ab> [ -t_ab (a^+ b + b^+ a) + V_ab n_a n_b ] - sum_a mu_a n_a.
    edges: pairs of site numbers; t, V: per edge lists; mu: {site number: value}."""
    terms = []
    for e, (a, b) in enumerate(edges):
        A, B = ("s", a), ("s", b)
        terms.append((-t[e], [(A, "+"), (B, "-")]))
        terms.append((-t[e], [(B, "+"), (A, "-")]))
        terms.append((V[e], [(A, "+"), (A, "-"), (B, "+"), (B, "-")]))
    for a, m in mu.items():
        A = ("s", a)
        terms.append((-m, [(A, "+"), (A, "-")]))
    return terms


def lattice_terms_spinful(edges, t, U, mu):
    """H = -sum_<ab>,s t_ab (a_s^+ b_s + h.c.) + sum_a U_a n_au n_ad - sum_a mu_a (n_au + n_ad)."""
    terms = []
    for e, (a, b) in enumerate(edges):
        for sp in ("u", "d"):
            A, B = (sp, a), (sp, b)
            terms.append((-t[e], [(A, "+"), (B, "-")]))
            terms.append((-t[e], [(B, "+"), (A, "-")]))
    for a in U:
        u, d = ("u", a), ("d", a)
        terms.append((U[a], [(u, "+"), (u, "-"), (d, "+"), (d, "-")]))
    for a in mu:
        u, d = ("u", a), ("d", a)
        terms.append((-mu[a], [(u, "+"), (u, "-")]))
        terms.append((-mu[a], [(d, "+"), (d, "-")]))
    return terms


def embed_terms(M, bases):
    """Term list (over the modes of `bases`) of the operator  sum M[l.., r..] |l><r|  where
    |i_1..i_n> = X_1[i_1]..X_n[i_n]|0>:   |l><r| = X(l) P0 X(r)^dag  with
    P0 = prod_m c_m c_m^+  the projector on the vacuum of the modes involved.  Valid in any
    larger Fock space for parity-conserving M (each |l><r| is then an even operator)."""
    bases = parse_bases(bases)
    n = len(bases)
    modes = modes_of(bases)
    p0 = [s for m in modes for s in ((m, "-"), (m, "+"))]
    terms = []
    for idx in zip(*np.nonzero(M)):
        l, r = idx[:n], idx[n:]
        wl = [s for site, i in enumerate(l) for s in bases[site][i]]
        wr = [s for site, i in enumerate(r) for s in bases[site][i]]
        terms.append((float(M[idx]), wl + p0 + dag_word(wr)))
    return terms


# ----------------------------------------------------------------------------


def selfcheck(n=3):
    """Canonical anticommutation relations, vacuum, and agreement of the two realisations.
    Returns a list of complaints (empty when fine)."""
    bad = []
    f = Fock([("m", k) for k in range(n)])
    eye = np.eye(f.D)
    for i in f.modes:
        if np.any(f.c(i) @ f.vacuum()):
            bad.append(f"c_{i}|0> != 0")
        for j in f.modes:
            ci, cj = f.c(i), f.c(j)
            if not np.array_equal(ci @ cj + cj @ ci, np.zeros_like(eye)):
                bad.append(f"{{c_{i}, c_{j}}} != 0")
            want = eye if i == j else 0 * eye
            if not np.array_equal(ci @ cj.T + cj.T @ ci, want):
                bad.append(f"{{c_{i}, c_{j}^+}} != delta")
    # basis convention: (c_0^+)^{n_0}..|0> is the unit vector at index_of(n)
    for occ in itertools.product((0, 1), repeat=n):
        word = [(m, "+") for m, o in zip(f.modes, occ) if o]
        v = f.ket(word)
        e = np.zeros(f.D)
        e[f.index_of(dict(zip(f.modes, occ)))] = 1.0
        if not np.array_equal(v, e):
            bad.append(f"basis state {occ} has the wrong sign/position")
    rng = np.random.default_rng(n)
    for _ in range(30):
        word = [(f.modes[int(rng.integers(n))], "+-"[int(rng.integers(2))]) for _ in range(int(rng.integers(0, 6)))]
        dense = f.word_matrix(word)
        sparse = f.coo_to_dense(f.opsum_coo([(1.0, word)]))
        if not np.array_equal(dense, sparse):
            bad.append(f"kron matrices and occupation action disagree on {word}")
    return bad
