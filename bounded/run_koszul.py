"""Bounded stand-in for the general branch of symmetries.calc_phase_permutation (C03):
exhaustive comparison with the inversion count among odd entries, the perm=None shortcut
against the explicit reversal, and multiplicativity under composition (lemma LK1)."""

import itertools

from bounded.common import driver_main, sr
from symmray.symmetries import calc_phase_permutation

CONTRACTS = {
    "C03.koszul_is_inversion_parity": ("all parity vectors x all permutations", "exhaustive for length n <= 6 (quick) / n <= 7 (thorough)"),
    "C03.koszul_negative_axes": ("an axis may be counted from the end (ax - n): same sign as the normalised permutation", "exhaustive over parity vectors, permutations and spellings for n <= 4 (quick) / n <= 5 (thorough)"),
    "C03.koszul_multiplicative": ("LK1: sign(p then q) = sign(p on par) * sign(q on permuted par)", "exhaustive for n <= 4 (quick) / n <= 5 (thorough)"),
}


def inv_sign(par, perm):
    """sign of the permutation restricted to odd entries: result[i] = source[perm[i]]"""
    odd = [p for p in perm if par[p]]
    inv = sum(1 for i in range(len(odd)) for j in range(i + 1, len(odd)) if odd[i] > odd[j])
    return -1 if inv % 2 else 1


def gen_cases(tier, seed):
    nmax = 6 if tier == "quick" else 7
    for n in range(0, nmax + 1):
        for bits in range(2**n):
            yield {"contract": "C03.koszul_is_inversion_parity", "n": n, "bits": bits}
    mmax = 4 if tier == "quick" else 5
    for n in range(0, mmax + 1):
        for bits in range(2**n):
            yield {"contract": "C03.koszul_multiplicative", "n": n, "bits": bits}
    for n in range(1, mmax + 1):
        for bits in range(2**n):
            yield {"contract": "C03.koszul_negative_axes", "n": n, "bits": bits}


def check_case(d):
    n, bits = d["n"], d["bits"]
    par = tuple((bits >> i) & 1 for i in range(n))
    fails = []
    cnt = 0
    if d["contract"] == "C03.koszul_is_inversion_parity":
        for perm in itertools.permutations(range(n)):
            cnt += 1
            got = calc_phase_permutation(par, perm)
            if got != inv_sign(par, perm):
                fails.append(("C03.koszul_is_inversion_parity.value", f"parities={par} perm={perm}: got {got}, inversion parity {inv_sign(par, perm)}", {"perm_none": False}))
                break
        rev = tuple(range(n - 1, -1, -1))
        if calc_phase_permutation(par, None) != inv_sign(par, rev) or calc_phase_permutation(par) != inv_sign(par, rev):
            fails.append(("C03.koszul_is_inversion_parity.reversal_shortcut", f"parities={par}: perm=None gives {calc_phase_permutation(par, None)}, explicit reversal {inv_sign(par, rev)}", {"perm_none": True}))
    elif d["contract"] == "C03.koszul_negative_axes":
        for perm in itertools.permutations(range(n)):
            for mask in range(1, 2**n):
                cnt += 1
                spelled = tuple(ax - n if (mask >> i) & 1 else ax for i, ax in enumerate(perm))
                got = calc_phase_permutation(par, spelled)
                if got != inv_sign(par, perm):
                    fails.append(("C03.koszul_negative_axes.value", f"parities={par} perm={spelled} (= {perm}): got {got}, inversion parity {inv_sign(par, perm)}", {"negative_axes": True}))
                    break
            if fails:
                break
    else:
        perms = list(itertools.permutations(range(n)))
        for p in perms:
            pp = tuple(par[i] for i in p)
            for q in perms:
                cnt += 1
                pq = tuple(p[i] for i in q)  # transpose by p then by q
                if calc_phase_permutation(par, pq) != calc_phase_permutation(par, p) * calc_phase_permutation(pp, q):
                    fails.append(("C03.koszul_multiplicative.value", f"parities={par} p={p} q={q}", {}))
                    break
            if fails:
                break
    return {"fingerprint": (d["contract"], n, bits), "nontrivial": n >= 2 and sum(par) >= 2, "failures": fails, "sample": {"parities": par, "permutations_checked": cnt}}


if __name__ == "__main__":
    driver_main("bounded.run_koszul")
