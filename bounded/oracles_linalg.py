"""Shared pieces of the linear-algebra drivers of the bounded tier (C11, C12, C13, C20).

Matrix descriptors
------------------
A *matrix descriptor* is a JSON-able dict

    {"spec": <array spec of common.py, possibly with a ["fuse", groups] pre_op>,
     "post": [[rule, arg..], ..],     deterministic block rewriting after build (see apply_post)
     "herm": bool,                    h = m + m.dagger() (after the post rules)
     "post_ops": [[name, args..], ..] recorded operations applied last (pending signs)}

so that `build_matrix(m)` replays exactly.  Everything below the generators is an
oracle written from the property statements (C11-C13, C20); none of it calls
symmray.linalg.
"""

import itertools

import numpy as np

from bounded.common import (
    CHARGE_SETS,
    G,
    Invalid,
    apply_op,
    arrays_equal,
    audit_valid,
    build_array,
    conj_index_spec,
    fill_block,
    index_offsets,
    index_struct,
    jcharge,
    labels_of,
    rand_array_spec,
    rand_index_spec,
    reachable_charges,
    spec_valid_sectors,
    sr,
    ucharge,
    val_blocks,
)

TOL = {"float64": 1e-9, "complex128": 1e-9, "float32": 1e-4, "complex64": 1e-4}
REAL_OF = {"float64": "float64", "complex128": "float64", "float32": "float32", "complex64": "float32"}
ALL_SYMS = ("Z2", "U1", "Z2Z2", "U1U1", "Z4")


# ----------------------------------------------------------------------------
# building matrices


def apply_post(x, rules, fill_seed):
    """Deterministic rewriting of the raw blocks (in place).

    ["lowrank", k]  block := block[:, :k] @ block[:k, :]      (integer valued, rank <= k)
    ["identity"]    block := eye(rows, cols)
    ["same"]        block := a fill depending on the block *shape* only (equal blocks in
                    different sectors -> exactly degenerate spectra)
    ["shift", c]    square blocks: block += c * identity         (makes them invertible)
    ["zero", k]     the k-th stored block := 0
    ["pow2", e]     block := block * 2**(+e) for even-numbered stored blocks, 2**(-e) for odd ones (exact)
    ["illcond", k]  columns (rows of wide blocks) 1.. := first one + 10**-k * themselves: condition number ~ 10**k
    ["diag", step]  block := rectangular diagonal with the integers 1 + i + step * n on it (n the
                    position of the block): exactly representable, distinct singular values
                    (step 0: the same spectrum in every sector -> ties across sectors)
    """
    for rule in rules:
        name, args = rule[0], rule[1:]
        keys = list(x.blocks)
        for n, s in enumerate(keys):
            b = np.asarray(x.blocks[s])
            dt = b.dtype
            if name == "lowrank":
                k = max(1, min(int(args[0]), *b.shape))
                nb = b[:, :k] @ b[:k, :]
            elif name == "identity":
                nb = np.eye(*b.shape)
            elif name == "same":
                nb = fill_block(fill_seed, ("same",) + tuple(b.shape), b.shape, str(dt))
            elif name == "shift":
                nb = b + args[0] * np.eye(*b.shape) if b.shape[0] == b.shape[1] else b
            elif name == "zero":
                nb = np.zeros_like(b) if n == args[0] % len(keys) else b
            elif name == "pow2":
                # exact rescaling of alternate sectors by 2**(+-e): a wide dynamic range ACROSS sectors
                nb = b * (2.0 ** (int(args[0]) if n % 2 == 0 else -int(args[0])))
            elif name == "illcond":
                # nearly dependent columns / rows: condition number ~ 10**k, full numerical rank
                nb = np.array(b, dtype=dt)
                eps = 10.0 ** (-int(args[0]))
                if b.shape[0] >= b.shape[1]:
                    for j in range(1, b.shape[1]):
                        nb[:, j] = b[:, 0] + eps * b[:, j]
                else:
                    for j in range(1, b.shape[0]):
                        nb[j, :] = b[0, :] + eps * b[j, :]
            elif name == "diag":
                nb = np.zeros(b.shape)
                k = min(b.shape)
                nb[np.arange(k), np.arange(k)] = 1 + np.arange(k) + int(args[0]) * n
            else:
                raise ValueError(f"unknown post rule {rule}")
            x.blocks[s] = np.ascontiguousarray(nb).astype(dt)
    return x


def build_matrix(m):
    x = build_array(m["spec"])
    if m.get("post"):
        x = x.copy()
        apply_post(x, m["post"], m["spec"].get("fill_seed", 0))
    if m.get("herm"):
        x = x + x.dagger()
    for op in m.get("post_ops", ()):
        x = apply_op(x, op)
    return x


def spec_fp(spec):
    """Structure of an array spec (everything but the fill data and label values)."""
    op = spec.get("oddpos")
    return (
        spec["sym"],
        bool(spec.get("fermionic")),
        bool(spec.get("static", True)),
        tuple((tuple((str(c), s) for c, s in i["cm"]), i["dual"]) for i in spec["indices"]),
        str(spec.get("charge")),
        "all" if spec.get("sectors", "all") == "all" else tuple(str(s) for s in spec["sectors"]),
        spec.get("dtype", "float64"),
        op is not None,
        repr(spec.get("pre_ops", ())),
    )


def mat_fp(m):
    return (spec_fp(m["spec"]), repr(m.get("post", ())), bool(m.get("herm")), repr(m.get("post_ops", ())))


def mat_features(m):
    spec = m["spec"]
    sym = spec["sym"]
    pre = spec.get("pre_ops", ())
    return {
        "sym": sym,
        "fermionic": bool(spec.get("fermionic")),
        "dtype": spec.get("dtype", "float64"),
        "fused": any(o[0] == "fuse" for o in pre),
        "pending": any(o[0].startswith("phase") for o in list(pre) + list(m.get("post_ops", ()))),
        "parity": G.par(sym, ucharge(spec.get("charge", jcharge(G.zero(sym))))),
        "post": [r[0] for r in m.get("post", ())],
        "sparse": spec.get("sectors", "all") != "all",
        "mixed_block_dtypes": bool(spec.get("mixed_block_dtypes")),
    }


def has_subinfo(x):
    return any(ix.subinfo is not None for ix in x.indices)


# ----------------------------------------------------------------------------
# generators of the shared matrix universe

_POOLS = {
    "Z2": [[0], [1], [0, 1]],
    "Z4": [[0, 1], [1, 3], [0, 2, 3]],
    "U1": [[0, 1], [-1, 1], [-1, 0, 2]],
    "Z2Z2": [[(0, 0), (0, 1)], [(0, 1), (1, 0)], [(0, 0), (1, 0), (1, 1)]],
    "U1U1": [[(0, 0), (0, 1)], [(0, 1), (-1, 1)], [(0, 0), (1, 0), (1, 1)]],
}
_SIZES = [((1, 1, 1), (1, 1, 1)), ((2, 3, 1), (3, 1, 2)), ((2, 2, 2), (2, 2, 2))]
_PENDING = [[], [["phase_flip", [0]]], [["phase_global"], ["phase_flip", [1]]], [["phase_flip", [0, 1]], ["phase_global"]]]


def _sector_variant(spec, rng, which):
    valid = spec_valid_sectors(spec)
    if which == 0 or len(valid) <= 1:
        return "all"
    if which == 1:
        k = int(rng.integers(0, len(valid)))
        keep = [s for i, s in enumerate(valid) if i != k]
    else:
        keep = [valid[int(rng.integers(0, len(valid)))]]
    return [[jcharge(c) for c in s] for s in keep]


def systematic_matrices(dtypes=("float64", "complex128"), fermionic_opts=(False, True), stride=1):
    """Small-scope systematic part: every symmetry, pairs of charge pools, three size
    patterns (size-1 / tall+wide / square), the four direction patterns, every reachable
    total charge; sector set, dtype, rank-deficiency and pending signs rotate."""
    rng = np.random.default_rng(20261003)
    n = 0
    for sym in ALL_SYMS:
        pools = _POOLS[sym]
        for rp, cp in itertools.product(pools, pools):
            for rs, cs in _SIZES:
                for d0, d1 in itertools.product((False, True), repeat=2):
                    indices = [
                        {"cm": [[jcharge(c), s] for c, s in zip(rp, rs)], "dual": d0},
                        {"cm": [[jcharge(c), s] for c, s in zip(cp, cs)], "dual": d1},
                    ]
                    for charge in reachable_charges(sym, indices):
                        for fermionic in fermionic_opts:
                            n += 1
                            # draw the variant unconditionally so that striding does not
                            # change the other cases
                            v = rng.integers(0, 1 << 30, size=6)
                            if n % stride:
                                continue
                            spec = {
                                "sym": sym,
                                "fermionic": fermionic,
                                "static": bool(v[0] % 2) and sym != "Z4",
                                "indices": indices,
                                "charge": jcharge(charge),
                                "fill_seed": int(v[1]),
                                "dtype": dtypes[int(v[2]) % len(dtypes)],
                            }
                            spec["sectors"] = _sector_variant(spec, rng, int(v[3]) % 3)
                            if fermionic:
                                if G.par(sym, charge):
                                    spec["oddpos"] = 7
                                pend = _PENDING[int(v[4]) % len(_PENDING)]
                                if pend:
                                    spec["pre_ops"] = pend
                            m = {"spec": spec}
                            r = int(v[5]) % 5
                            if r == 3:
                                m["post"] = [["lowrank", 1]]
                            elif r == 4:
                                m["post"] = [["lowrank", 2]]
                            yield m


RICH_POOL = {
    "Z2": [0, 1],
    "Z4": [0, 1, 2, 3],
    "U1": [-1, 0, 1],
    "Z2Z2": [(0, 0), (0, 1), (1, 0), (1, 1)],
    "U1U1": [(0, 0), (0, 1), (1, 0), (1, 1)],
}


def rich_indices(rng, sym, nd, sizes=(1, 2), kmin=2, kmax=3):
    """Index specs drawn from one small common charge pool, so that many sectors are valid
    (independent random tables leave one or two valid sectors and nothing to zero-fill)."""
    out = []
    pool = RICH_POOL[sym]
    for _ in range(nd):
        k = int(rng.integers(min(kmin, len(pool)), min(kmax, len(pool)) + 1))
        pick = sorted(rng.choice(len(pool), size=k, replace=False).tolist())
        out.append({"cm": [[jcharge(pool[i]), int(rng.choice(sizes))] for i in pick], "dual": bool(rng.integers(0, 2))})
    return out


def forces_zero_fill(spec, groups):
    """Does fusing `groups` of the array described by `spec` have to create zeros?  (Harness'
    own reasoning, used only to steer generation: a fused block is a grid over the sub-sectors
    of each group that occur anywhere in the array; a grid cell without a stored block is zero.)"""
    sym = spec["sym"]
    duals = [i["dual"] for i in spec["indices"]]
    valid = spec_valid_sectors(spec)
    stored = valid if spec.get("sectors", "all") == "all" else [tuple(ucharge(c) for c in s) for s in spec["sectors"]]
    grouped = {a for g in groups for a in g}
    rest = [a for a in range(len(duals)) if a not in grouped]
    ext = [dict() for _ in groups]
    cells = {}
    for s in stored:
        key = []
        for n, g in enumerate(groups):
            t = tuple(s[a] for a in g)
            c = G.signed_sum(sym, t, [duals[a] for a in g])
            ext[n].setdefault(c, set()).add(t)
            key.append(c)
        key = (tuple(key), tuple(s[a] for a in rest))
        cells[key] = cells.get(key, 0) + 1
    for (cs, _), n in cells.items():
        full = 1
        for k, c in enumerate(cs):
            full *= len(ext[k][c])
        if n < full:
            return True
    return False


_FUSE_GROUPS = {
    3: [[[0], [1, 2]], [[0, 1], [2]], [[0, 2], [1]], [[1], [2, 0]], [[2, 1], [0]]],
    4: [[[0, 1], [2, 3]], [[0, 2], [1, 3]], [[0], [1, 2, 3]], [[0, 1, 2], [3]], [[2, 0], [3, 1]], [[3], [0, 2, 1]]],
}


def random_matrix(rng, dtypes=("float64", "complex128"), fermionic=None, fused=None, degenerate=0.0):
    sym = ALL_SYMS[int(rng.integers(0, len(ALL_SYMS)))]
    if fermionic is None:
        fermionic = bool(rng.integers(0, 2))
    if fused is None:
        fused = rng.random() < 0.3
    dtype = dtypes[int(rng.integers(0, len(dtypes)))]
    sparsity = float(rng.choice([0.0, 0.3, 0.6]))
    lazy = fermionic and rng.random() < 0.6
    if fused:
        nd = int(rng.integers(3, 5))
        if rng.random() < 0.3:
            spec = rand_array_spec(rng, sym, ndim=nd, fermionic=fermionic, max_charges=2 if nd == 4 else 3, sizes=(1, 2), sparsity=sparsity, dtype=dtype, lazy=lazy)
        else:
            spec = rand_array_spec(rng, sym, fermionic=fermionic, sparsity=float(rng.choice([0.0, 0.3, 0.5])), dtype=dtype, lazy=lazy, indices=rich_indices(rng, sym, nd))
        groups = _FUSE_GROUPS[nd][int(rng.integers(0, len(_FUSE_GROUPS[nd])))]
        ops = list(spec.get("pre_ops", ())) + [["fuse", groups]]
        if fermionic and rng.random() < 0.5:
            ops.append(_PENDING[int(rng.integers(1, len(_PENDING)))][0])
        spec["pre_ops"] = ops
    else:
        spec = rand_array_spec(rng, sym, ndim=2, fermionic=fermionic, max_charges=3, sizes=(1, 2, 3, 4), sparsity=sparsity, dtype=dtype, lazy=lazy)
    m = {"spec": spec}
    r = rng.random()
    if r < degenerate:
        m["post"] = [[["same"]], [["same"]], [["identity"]], [["diag", 0]], [["diag", 2]]][int(rng.integers(0, 5))]
    elif r < degenerate + 0.25:
        m["post"] = [["lowrank", int(rng.integers(1, 3))]]
    elif r < degenerate + 0.28:
        m["post"] = [["zero", int(rng.integers(0, 8))]]
    return m


def degenerate_matrices():
    """Deliberately degenerate spectra: identical / identity blocks in several sectors."""
    rng = np.random.default_rng(777)
    for sym in ALL_SYMS:
        pools = _POOLS[sym]
        for pool in pools + [CHARGE_SETS[sym][:4]]:
            for size in (1, 2, 3):
                for d0, d1 in itertools.product((False, True), repeat=2):
                    for fermionic in (False, True):
                        indices = [
                            {"cm": [[jcharge(c), size] for c in pool], "dual": d0},
                            {"cm": [[jcharge(c), size] for c in pool], "dual": d1},
                        ]
                        for charge in reachable_charges(sym, indices)[:2]:
                            spec = {
                                "sym": sym,
                                "fermionic": fermionic,
                                "static": sym != "Z4" and bool(rng.integers(0, 2)),
                                "indices": indices,
                                "charge": jcharge(charge),
                                "fill_seed": int(rng.integers(0, 2**31 - 1)),
                                "dtype": "float64" if rng.integers(0, 2) else "complex128",
                                "sectors": "all",
                            }
                            if fermionic and G.par(sym, charge):
                                spec["oddpos"] = 5
                            if fermionic and rng.integers(0, 2):
                                spec["pre_ops"] = _PENDING[int(rng.integers(1, len(_PENDING)))]
                            r = int(rng.integers(0, 6))
                            yield {"spec": spec, "post": [[["same"]], [["same"]], [["identity"]], [["diag", 0]], [["diag", 1]], [["diag", 3]]][r]}


def wide_and_uneven_matrices():
    """(a) sectors living on very different scales (ratios far beyond machine epsilon, exactly
    representable); (b) three or more bond sectors of uneven sizes incl. size one (proportional split)."""
    for sym, pool in (("U1", [-1, 0, 2]), ("Z2", [0, 1]), ("U1", [-1, 0, 1, 2]), ("Z2Z2", [(0, 0), (0, 1), (1, 1)])):
        for sizes in ((2, 2, 2, 2), (1, 3, 3, 1), (1, 3, 3, 3), (1, 4, 4, 2), (1, 2, 2, 1), (3, 3, 1, 2)):
            for d0 in (False, True):
                for fermionic in (False, True):
                    cm = [[jcharge(c), sz] for c, sz in zip(pool, sizes)]
                    indices = [{"cm": cm, "dual": d0}, {"cm": cm, "dual": not d0}]
                    for dtype, e in (("float64", 30), ("float32", 13), ("complex128", 29)):
                        spec = {"sym": sym, "fermionic": fermionic, "static": True, "indices": indices, "charge": jcharge(G.zero(sym)), "fill_seed": 5, "dtype": dtype, "sectors": "all"}
                        yield {"spec": spec, "post": [["diag", 1], ["pow2", e]]}
                    spec = {"sym": sym, "fermionic": fermionic, "static": True, "indices": indices, "charge": jcharge(G.zero(sym)), "fill_seed": 6, "dtype": "float64", "sectors": "all"}
                    yield {"spec": spec, "post": [["diag", 2]]}


def tall_and_single_precision_matrices():
    """(a) very tall / very wide blocks (aspect ratio 40 .. 100) that are well conditioned, ill conditioned
    (condition number 1e5, 1e7) or exactly rank deficient; (b) float32 / complex64 data on small blocks."""
    for sym, pool in (("Z2", [0, 1]), ("U1", [-1, 0, 2]), ("Z2Z2", [(0, 0), (1, 1)])):
        for big, small in ((80, 2), (100, 1), (120, 3), (65, 2)):
            for tall in (True, False):
                for d0 in (False, True):
                    for fermionic in (False, True):
                        cmb = [[jcharge(c), big + i] for i, c in enumerate(pool)]
                        cms = [[jcharge(c), small] for c in pool]
                        indices = [{"cm": cmb if tall else cms, "dual": d0}, {"cm": cms if tall else cmb, "dual": not d0}]
                        for n, post in enumerate(([], [["illcond", 5]], [["illcond", 7]], [["lowrank", 1]])):
                            dtype = ("float64", "complex128")[(n + d0 + fermionic) % 2]
                            spec = {"sym": sym, "fermionic": fermionic, "static": True, "indices": indices, "charge": jcharge(G.zero(sym)), "fill_seed": 7 + n, "dtype": dtype, "sectors": "all"}
                            yield {"spec": spec, "post": post}
    rng = np.random.default_rng(4242)
    for k in range(400):
        yield random_matrix(rng, dtypes=("float32", "complex64"), degenerate=0.2)


def herm_matrix(rng, sym, fermionic, dtype, fused=False):
    """Descriptor of h = m + m.dagger() with m of charge zero on (ix, conj ix)."""
    if fused:
        i = rand_index_spec(rng, sym, 2, (1, 2))
        j = rand_index_spec(rng, sym, 2, (1, 2))
        indices = [i, j, conj_index_spec(i), conj_index_spec(j)]
    else:
        ix = rand_index_spec(rng, sym, 3, (1, 2, 3))
        indices = [ix, conj_index_spec(ix)]
    spec = rand_array_spec(
        rng,
        sym,
        fermionic=fermionic,
        # (a fused index only has room for the sub-sectors that occur in some block, so the
        # rank-4 array is kept full and a diagonal block is dropped after fusing instead)
        sparsity=0.0 if fused else float(rng.choice([0.0, 0.4])),
        dtype=dtype,
        charge=G.zero(sym),
        indices=indices,
        lazy=fermionic and rng.random() < 0.5,
    )
    if fused:
        spec["pre_ops"] = list(spec.get("pre_ops", ())) + [["fuse", [[0, 1], [2, 3]]]]
        if rng.random() < 0.4:
            spec["pre_ops"].append(["drop", int(rng.integers(0, 8))])
    m = {"spec": spec, "herm": True}
    r = rng.random()
    if r < 0.2:
        m["post"] = [["lowrank", 1]]
    elif r < 0.3:
        m["post"] = [["same"]]
    elif r < 0.35:
        m["post"] = [["identity"]]
    if fermionic and rng.random() < 0.6:
        m["post_ops"] = _PENDING[int(rng.integers(1, len(_PENDING)))]
    return m


def solve_system(rng, sym, fermionic, dtype, fused=False, a_charge=None):
    """Descriptor pair (a, b): a square with invertible blocks (shifted diagonal), b a
    1-D array on a's first index holding exactly one block that pairs with a stored block."""
    if fused:
        i = rand_index_spec(rng, sym, 2, (1, 2))
        j = rand_index_spec(rng, sym, 2, (1, 2))
        aspec = rand_array_spec(rng, sym, fermionic=fermionic, sparsity=0.0, dtype=dtype, charge=G.zero(sym), indices=[i, j, conj_index_spec(i), conj_index_spec(j)], lazy=fermionic and rng.random() < 0.5)
        aspec["pre_ops"] = list(aspec.get("pre_ops", ())) + [["fuse", [[0, 1], [2, 3]]]]
        reach = reachable_charges(sym, [i, j])
        cb = reach[int(rng.integers(0, len(reach)))]
        bspec = rand_array_spec(rng, sym, fermionic=fermionic, sparsity=0.0, dtype=dtype, charge=cb, indices=[i, j], odd_label=9, lazy=fermionic and rng.random() < 0.5)
        bspec["pre_ops"] = list(bspec.get("pre_ops", ())) + [["fuse", [[0, 1]]]]
        return {"spec": aspec, "post": [["shift", 20]]}, bspec
    i0 = rand_index_spec(rng, sym, 3, (1, 2, 3))
    d0 = i0["dual"]
    d1 = bool(rng.integers(0, 2))
    pool = CHARGE_SETS[sym]
    ca = ucharge(a_charge) if a_charge is not None else (pool[int(rng.integers(0, len(pool)))] if rng.random() < 0.6 else G.zero(sym))
    cm1 = {}
    for c, s in i0["cm"]:
        c0 = ucharge(c)
        rest = G.add(sym, ca, c0 if d0 else G.neg(sym, c0))  # ca - s0*c0
        c1 = G.neg(sym, rest) if d1 else rest
        cm1[c1] = s
    i1 = {"cm": [[jcharge(c), cm1[c]] for c in sorted(cm1)], "dual": d1}
    aspec = rand_array_spec(rng, sym, fermionic=fermionic, sparsity=float(rng.choice([0.0, 0.4])), dtype=dtype, charge=ca, indices=[i0, i1], odd_label=7, lazy=fermionic and rng.random() < 0.5)
    stored = spec_valid_sectors(aspec) if aspec["sectors"] == "all" else [tuple(ucharge(c) for c in s) for s in aspec["sectors"]]
    row = stored[int(rng.integers(0, len(stored)))][0]
    cb = G.neg(sym, row) if d0 else row
    bspec = rand_array_spec(rng, sym, fermionic=fermionic, sparsity=0.0, dtype=dtype, charge=cb, indices=[i0], odd_label=9, lazy=fermionic and rng.random() < 0.5)
    return {"spec": aspec, "post": [["shift", 20]]}, bspec


# ----------------------------------------------------------------------------
# oracles


def call(fn, *a, **k):
    """Run library code; (True, result) or (False, 'Type: message')."""
    try:
        return True, fn(*a, **k)
    except Exception as e:  # noqa: BLE001 - a library exception on valid input is a finding
        return False, f"{type(e).__name__}: {e}"[:300]


def contract(a, b, fused_input, mode=None):
    """The library's own contraction of the last axis of a with the first of b.  The
    fused path un-fuses pre-fused free legs (finding F7, property C06), so inputs that
    carry sub-index information are contracted blockwise."""
    if fused_input or mode == "blockwise":
        return sr.tensordot(a, b, 1, mode="blockwise")
    return sr.tensordot(a, b, 1)


def same_up_to_dropped_charges(p, x, tol):
    """Observable equality of a product `p` with the input `x`, where the contraction is
    allowed to have removed from an index the charges in which `p` stores nothing
    (those must then hold no non-zero data of `x` either)."""
    ok, msg = arrays_equal(p, x, exact=False, tol=tol, why=True)
    if ok:
        return True, ""
    if not msg.startswith("index"):
        return False, msg
    if len(p.indices) != len(x.indices):
        return False, "ndim differs"
    if p.charge != x.charge:
        return False, f"charge {p.charge!r} != {x.charge!r}"
    if labels_of(p) != labels_of(x):
        return False, f"labels differ: {labels_of(p)} != {labels_of(x)}"
    for i, (a, b) in enumerate(zip(p.indices, x.indices)):
        if bool(a.dual) != bool(b.dual):
            return False, f"index {i}: direction differs"
        for c, d in a.chargemap.items():
            if b.chargemap.get(c) != d:
                return False, f"index {i}: charge {c!r} size {d} not in input table {dict(b.chargemap)}"
        used = {s[i] for s in p.blocks}
        if set(a.chargemap) - used and set(a.chargemap) != set(b.chargemap):
            pass  # partially reduced tables are tolerated as well
    vp, vx = val_blocks(p), val_blocks(x)
    scale = max([1.0] + [float(np.max(np.abs(b))) for b in vx.values() if b.size])
    for s in set(vp) | set(vx):
        a, b = vp.get(s), vx.get(s)
        if a is None:
            a = np.zeros_like(b)
        if b is None:
            b = np.zeros_like(a)
        if a.shape != b.shape:
            return False, f"block {s!r} shapes differ {a.shape} {b.shape}"
        if not np.all(np.abs(a - b) <= tol * scale):
            return False, f"block {s!r} differs by {float(np.max(np.abs(a - b))):.3g}"
    return True, ""


def orthonormal_columns(b, tol):
    b = np.asarray(b)
    k = b.shape[1]
    return np.allclose(b.conj().T @ b, np.eye(k), atol=tol * 10, rtol=0)


def orthonormal_rows(b, tol):
    return orthonormal_columns(np.asarray(b).conj().T, tol)


def bond_audit(x, left, right, vec, tol, what):
    """Structure of the new bond between `left` (axis 1) and `right` (axis 0) promised by
    C11: opposite directions, equal tables, one charge per input block, table sizes ==
    block dimensions (== min(block shape) for the reduced factorisations)."""
    out = []
    bl, br = left.indices[1], right.indices[0]
    if bool(bl.dual) == bool(br.dual):
        out.append(f"{what}: bond has the same direction on both factors")
    if dict(bl.chargemap) != dict(br.chargemap):
        out.append(f"{what}: bond tables differ {dict(bl.chargemap)} vs {dict(br.chargemap)}")
    cols = [s[1] for s in x.blocks]
    if len(set(cols)) != len(cols):
        raise AssertionError("harness: 2-D sectors not determined by the column charge")
    if set(bl.chargemap) != set(cols):
        out.append(f"{what}: bond charges {sorted(bl.chargemap)} != column charges of the stored blocks {sorted(set(cols))}")
    if set(left.blocks) != set(x.blocks):
        out.append(f"{what}: left factor sectors {sorted(left.blocks)} != input sectors")
    if set(right.blocks) != {(c, c) for c in cols}:
        out.append(f"{what}: right factor sectors {sorted(right.blocks)} != diagonal over column charges")
    for s, b in x.blocks.items():
        c = s[1]
        k = min(np.shape(b))
        if bl.chargemap.get(c) != k:
            out.append(f"{what}: bond size of charge {c!r} is {bl.chargemap.get(c)} != min(block shape) {k}")
        lb = left.blocks.get(s)
        rb = right.blocks.get((c, c))
        if lb is not None and np.shape(lb) != (np.shape(b)[0], k):
            out.append(f"{what}: left block {s!r} has shape {np.shape(lb)}")
        if rb is not None and np.shape(rb) != (k, np.shape(b)[1]):
            out.append(f"{what}: right block {(c, c)!r} has shape {np.shape(rb)}")
        if vec is not None:
            v = vec.blocks.get(c)
            if v is None or np.shape(v) != (k,):
                out.append(f"{what}: vector block of charge {c!r} has shape {None if v is None else np.shape(v)} != ({k},)")
    if vec is not None and set(vec.blocks) != set(cols):
        out.append(f"{what}: vector keys {sorted(vec.blocks)} != column charges")
    if index_struct(left.indices[0]) != index_struct(x.indices[0]):
        out.append(f"{what}: left factor does not keep the row index")
    if index_struct(right.indices[1]) != index_struct(x.indices[1]):
        out.append(f"{what}: right factor does not keep the column index")
    if left.charge != x.charge:
        out.append(f"{what}: left factor charge {left.charge!r} != {x.charge!r}")
    if right.charge != G.zero(type(x.symmetry).__name__):
        out.append(f"{what}: right factor charge {right.charge!r} is not zero")
    return out


def valid_msgs(what, *objs):
    out = []
    for n, o in enumerate(objs):
        try:
            audit_valid(o)
        except Invalid as e:
            out.append(f"{what}[{n}]: {e}")
    return out


def col_ranges(ix):
    offs, _ = index_offsets(ix)
    return {c: (offs[c], offs[c] + ix.chargemap[c]) for c in ix.chargemap}


def nonzero_desc(v, rel=1e-9):
    v = np.sort(np.asarray(v, dtype=float))[::-1]
    if not v.size:
        return v
    return v[v > rel * max(v[0], 1e-300)]


def spectra_match(got, want, tol, rel=1e-9):
    """Multisets of non-negative values equal after dropping numerically-zero ones."""
    g, w = np.asarray(got, dtype=float), np.asarray(want, dtype=float)
    top = max([1e-300] + list(g) + list(w))
    g = np.sort(g[g > rel * top])[::-1]
    w = np.sort(w[w > rel * top])[::-1]
    if g.shape != w.shape:
        return False, f"{g.size} non-zero values returned, {w.size} expected"
    if g.size and not np.allclose(g, w, atol=tol * top, rtol=tol):
        return False, f"values differ by {float(np.max(np.abs(g - w))):.3g}"
    return True, ""


# ----------------------------------------------------------------------------
# C13: the kept-set rule, from the docstring of svd_truncated and the property text


def kept_count_cutoff(S, mode, cutoff):
    """Number of singular values kept by the *cutoff rule alone* (cutoff > 0).

    kept == {s >= theta}; mode 1: theta = cutoff; mode 2: theta = cutoff * max(S);
    modes 3-6: the discarded values are the largest set of the form {s < theta} whose
    sum of s**p (p = 2: modes 3, 4; p = 1: modes 5, 6) is < cutoff (3, 5) resp.
    < cutoff * sum(S**p) (4, 6).  Equal values are kept or discarded together."""
    a = np.sort(np.asarray(S, dtype=float))  # ascending
    n = a.size
    if n == 0:
        return 0
    if mode == 1:
        return int(np.count_nonzero(a >= cutoff))
    if mode == 2:
        return int(np.count_nonzero(a >= cutoff * a[-1]))
    p = 2 if mode in (3, 4) else 1
    w = np.cumsum(a**p)
    limit = cutoff * w[-1] if mode in (4, 6) else cutoff
    d = int(np.count_nonzero(w < limit))  # w is non-decreasing: the first d may go
    while 0 < d < n and a[d - 1] == a[d]:  # a threshold cannot split equal values
        d -= 1
    return n - d


def kept_set(S, mode, cutoff, max_bond):
    """(count, tie_at_limit): how many of the globally largest values are kept."""
    S = np.asarray(S, dtype=float)
    n = S.size
    if cutoff > 0:
        k = kept_count_cutoff(S, mode, cutoff)
    else:
        k = n
    tie = False
    if max_bond is not None and max_bond > 0 and max_bond < k:
        d = np.sort(S)[::-1]
        tie = bool(abs(d[max_bond - 1] - d[max_bond]) <= 1e-12 * max(d[0], 1e-300))
        k = max_bond
    return k, tie


def resolve_cutoff(S, mode, cspec):
    """Cutoff descriptors -> float (deterministic in S).

    ["abs", v]         the number v
    ["sval", k, f]     modes 1, 2: f * (k-th largest value)   (divided by max(S) in mode 2)
    ["cum", k, f]      modes 3-6: f * (weight of the k smallest values) (relative in 4, 6)
    ["total", f]       f * (total weight)  (mode 1: f*max(S); modes 2, 4, 6: f)
    """
    kind = cspec[0]
    if kind == "abs":
        return float(cspec[1])
    d = np.sort(np.asarray(S, dtype=float))[::-1]
    if d.size == 0:
        return 1.0
    p = {1: 1, 2: 1, 3: 2, 4: 2, 5: 1, 6: 1}[mode]
    if kind == "sval":
        v = d[min(int(cspec[1]), d.size - 1)]
        if mode == 2:
            v = v / d[0] if d[0] > 0 else 1.0
        return float(cspec[2] * v)
    if kind == "cum":
        a = d[::-1]
        w = np.cumsum(a**p)
        v = w[min(int(cspec[1]), a.size) - 1]
        if mode in (4, 6):
            v = v / w[-1] if w[-1] > 0 else 1.0
        return float(cspec[2] * v)
    if kind == "total":
        if mode == 1:
            return float(cspec[1] * d[0])
        if mode in (2, 4, 6):
            return float(cspec[1])
        return float(cspec[1] * np.sum(d**p))
    raise ValueError(cspec)


def total_weight(S, mode):
    S = np.asarray(S, dtype=float)
    if mode in (4, 6):
        return 1.0
    p = 2 if mode == 3 else 1
    return float(np.sum(S**p))
