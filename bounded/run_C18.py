"""C18 (bounded): local fermionic operator arrays reproduce the second-quantised operator.

Oracle: explicit Jordan-Wigner matrices (bounded/oracles_fock.py), never symmray's sorting code.

Conventions used in descriptors
    symbol   [label, "+"|"-"]     ("+" creation, "-" annihilation; label str | int | list->tuple)
    word     [symbol, ...]        operator product
    terms    [[coeff, word], ...]
    bases    per site a list of states, a state a word of creation symbols acting on the vacuum
    species  [[label, 0|1], ...]  which component of a two-component charge a mode counts into
"""

import itertools
import warnings

import numpy as np

from bounded.common import *  # noqa: F401,F403
from bounded.common import G, FERMI_CLS, audit_valid, Invalid, val_blocks, jcharge, ucharge, driver_main, sr, labels_of
from bounded import oracles_fock as F
from symmray.fermionic_local_operators import get_spinful_charge_indexmap, get_spinless_charge_indexmap

CONTRACTS = {
    "C18.elements": (
        "build_local_fermionic_elements(terms, bases) for 1-3 sites of 1-2 modes each, every subset/ordering of "
        "occupation states per site and any operator order inside a state, term lists of 1-5 words of length 0-6 "
        "(repeated operators, vanishing words, zero coefficients, modes outside every basis), labels str/int/tuple, "
        "operators given as pairs or FermionicOperator objects; compared element by element (absent = 0) with "
        "sum coeff <0|W|0> of the full Jordan-Wigner word in the documented (sites not reversed) bra order",
        "quick: <=4 modes, every single word of length <=2 on <=3 modes systematically, then seeded random; "
        "thorough: <=5 modes, words of length <=3 systematically; exact comparison (coefficients integers/halves)",
    ),
    "C18.charge_maps": (
        "get_spinless_charge_indexmap / get_spinful_charge_indexmap for the four symmetries against particle "
        "number / parity per species of the documented bases; invalid symmetry names raise ValueError",
        "exhaustive (finite)",
    ),
    "C18.array_action": (
        "build_local_fermionic_array(terms, bases, symmetry, index_maps) for Z2, U1, Z2Z2, U1U1 with index maps "
        "computed from the occupation of arbitrary (documented, permuted, subset) bases on 1-3 spinless/spinful "
        "sites, random charge-conserving term lists: dense form equals the VEV elements; tensordot over the bra legs "
        "with fermionic state tensors (from_dense of a Fock vector) of every reachable total charge equals the "
        "Jordan-Wigner matrix action under ONE sign convention, fixed on calibration operators (identity, number, "
        "all one-body hops and pairings) and then required of the random operator; Hermitian term sets give symmetric "
        "maps with the exact spectrum of the JW matrix restricted to the basis span",
        "quick: <=4 modes; thorough: <=5 modes; integer data, exact except the spectrum (1e-9); full linear map "
        "built column by column when the state space has <=16 (thorough 32) dimensions",
    ),
    "C18.composition": (
        "two operator arrays on complete bases (any ordering) applied in succession to state tensors of every charge "
        "equal the array of the product operator (words concatenated, coefficients multiplied); the direct "
        "tensordot of the two operator arrays equals the product array",
        "quick: <=4 modes; thorough: <=5 modes; exact",
    ),
    "C18.models": (
        "fermi_hubbard_local_array, fermi_hubbard_spinless_local_array (scalar and per-site U/mu, coordinations 1-4), "
        "fermi_number_operator_spinless/spinful_local_array, fermi_spin_operator_local_array for every supported "
        "symmetry against the Jordan-Wigner model operators in the documented basis: elements, action on states of "
        "every charge, symmetry and spectrum",
        "systematic over symmetries x coefficient forms x coordination pairs, then seeded random coefficients; tolerance 1e-12",
    ),
}

ZERO_TOL = 1e-12


# ----------------------------------------------------------------------------
# helpers


def ulabel(l):
    return tuple(l) if isinstance(l, list) else l


def sr_bases(bases, as_objects=False):
    out = []
    for basis in F.parse_bases(bases):
        states = []
        for state in basis:
            if as_objects:
                states.append(tuple(sr.FermionicOperator(l, s == "+") for l, s in state))
            else:
                states.append(tuple((l, s) for l, s in state))
        out.append(tuple(states))
    return tuple(out)


def sr_terms(terms, as_objects=False):
    out = []
    for coeff, word in F.parse_terms(terms):
        if as_objects:
            out.append((coeff, tuple(sr.FermionicOperator(l, s == "+") for l, s in word)))
        else:
            out.append((coeff, tuple((l, s) for l, s in word)))
    return tuple(out)


class TableMismatch(Exception):
    pass


def scatter_dense(x, labels_per_axis):
    """Dense tensor of `x` in the ORIGINAL basis order: block (c_1..c_n) goes to the positions whose
    label is c_k on axis k (original order within a charge).  Independent of to_dense, and robust
    to results whose index tables list only a subset of the charges."""
    groups = []
    for labels in labels_per_axis:
        g = {}
        for i, c in enumerate(labels):
            g.setdefault(c, []).append(i)
        groups.append(g)
    if len(x.indices) != len(groups):
        raise TableMismatch(f"rank {len(x.indices)} != {len(groups)}")
    for k, ix in enumerate(x.indices):
        for c, d in ix.chargemap.items():
            if len(groups[k].get(c, ())) != d:
                raise TableMismatch(f"axis {k}: charge {c!r} has size {d}, labels give {len(groups[k].get(c, ()))}")
    out = np.zeros(tuple(len(l) for l in labels_per_axis))
    for s, b in val_blocks(x).items():
        out[np.ix_(*[groups[k][c] for k, c in enumerate(s)])] = b
    return out


def species_fn(species):
    table = {ulabel(l): int(s) for l, s in species}
    return lambda l: table.get(l, 0)


def reachable(sym, maps):
    out = []
    for combo in itertools.product(*maps):
        q = G.zero(sym)
        for c in combo:
            q = G.add(sym, q, c)
        if q not in out:
            out.append(q)
    return out


def charge_mask(sym, maps, q):
    shape = tuple(len(m) for m in maps)
    mask = np.zeros(shape, dtype=bool)
    for idx in itertools.product(*[range(d) for d in shape]):
        t = G.zero(sym)
        for k, i in enumerate(idx):
            t = G.add(sym, t, maps[k][i])
        mask[idx] = t == q
    return mask


def make_state(sym, maps, q, psi):
    n = len(maps)
    kw = {"oddpos": 7} if G.par(sym, q) else {}
    return FERMI_CLS[sym].from_dense(psi, [list(m) for m in maps], [False] * n, charge=q, invalid_sectors="raise", **kw)


def apply_array(O, x, n):
    return sr.tensordot(O, x, axes=(tuple(range(n, 2 * n)), tuple(range(n))))


def build_array(terms, bases, sym, maps, as_objects=False):
    """Library call under test; any warning (charge-violating elements) is recorded."""
    with warnings.catch_warnings(record=True) as w:
        warnings.simplefilter("always")
        O = sr.build_local_fermionic_array(sr_terms(terms, as_objects), sr_bases(bases, as_objects), sym, [list(m) for m in maps])
    return O, [str(x.message) for x in w]


class Case:
    """Collects failures of one case."""

    def __init__(self, contract, feats):
        self.contract = contract
        self.feats = feats
        self.fails = []

    def bad(self, ob, what, **extra):
        self.fails.append((f"{self.contract}.{ob}", what, {**self.feats, **extra}))

    def guard(self, fn, *a, **k):
        """Run a library call; an exception on valid input is a failure."""
        try:
            return True, fn(*a, **k)
        except Exception as e:  # library exception on a valid input
            self.bad("no_exception", f"{type(e).__name__}: {e}"[:300], exception=type(e).__name__)
            return False, None


def action_agrees(case, O, sym, maps, M, S, rng, nstates=1, tol=0.0, what="op"):
    """O applied to random states of every reachable charge == S * (M (S psi)); returns
    (n_checked, n_bad, first complaint)."""
    n = len(maps)
    nbad, first, nchk = 0, None, 0
    for q in reachable(sym, maps):
        mask = charge_mask(sym, maps, q)
        if not mask.any():
            continue
        for _ in range(nstates):
            psi = np.where(mask, rng.integers(-3, 4, size=mask.shape), 0).astype(float)
            if not psi.any():
                psi[tuple(np.argwhere(mask)[0])] = 1.0
            x = make_state(sym, maps, q, psi)
            r = apply_array(O, x, n)
            nchk += 1
            try:
                got = scatter_dense(r, maps)
            except TableMismatch as e:
                nbad += 1
                first = first or f"{what}: result tables inconsistent with the basis ({e})"
                continue
            want = S * np.tensordot(M, S * psi, axes=(tuple(range(n, 2 * n)), tuple(range(n))))
            ok = np.array_equal(got, want) if tol == 0.0 else np.allclose(got, want, atol=tol, rtol=0)
            if ok and r.charge != q:
                ok, msg = False, f"{what}: result charge {r.charge!r} != state charge {q!r}"
            elif ok and labels_of(r) != labels_of(x):
                ok, msg = False, f"{what}: result labels {labels_of(r)} != state labels {labels_of(x)}"
            else:
                msg = f"{what}: charge {q!r}: O.psi differs from the Jordan-Wigner action (max dev {np.abs(got - want).max():g})"
            if not ok:
                nbad += 1
                first = first or msg
    return nchk, nbad, first


def linear_map(O, sym, maps):
    """Matrix of psi -> O.psi in the basis of index tuples (column by column)."""
    n = len(maps)
    shape = tuple(len(m) for m in maps)
    N = int(np.prod(shape))
    L = np.zeros((N, N))
    for j, idx in enumerate(itertools.product(*[range(d) for d in shape])):
        q = G.zero(sym)
        for k, i in enumerate(idx):
            q = G.add(sym, q, maps[k][i])
        psi = np.zeros(shape)
        psi[idx] = 1.0
        r = apply_array(O, make_state(sym, maps, q, psi), n)
        L[:, j] = scatter_dense(r, maps).reshape(-1)
    return L


# ----------------------------------------------------------------------------
# generation


def layouts(max_modes, max_sites=3):
    out = []
    for ns in range(1, max_sites + 1):
        for combo in itertools.product((1, 2), repeat=ns):
            if sum(combo) <= max_modes:
                out.append(list(combo))
    return out


def make_labels(rng, kind, nmodes_per_site):
    """labels per site; `kind` in str|int|tuple|spin."""
    total = sum(nmodes_per_site)
    if kind == "spin":
        letters = list("abcde")
        perm = rng.permutation(len(nmodes_per_site)).tolist()
        out = []
        for s, k in enumerate(nmodes_per_site):
            L = letters[perm[s]]
            out.append([L + "u", L + "d"][:k])
        return out
    if kind == "str":
        pool = list("abcdefgh")
    elif kind == "int":
        pool = list(range(1, 10))
    else:
        pool = [["x", i] for i in range(3)] + [["w", i] for i in range(3)]
    pick = [pool[i] for i in rng.permutation(len(pool))[:total].tolist()]
    out, k = [], 0
    for m in nmodes_per_site:
        out.append(pick[k : k + m])
        k += m
    return out


def full_basis(labels, documented=True, flip_pair=False):
    """occupation states of one site.  documented: ((), (d+), (u+), (u+ d+)) for labels [u, d]."""
    if len(labels) == 1:
        return [[], [[labels[0], "+"]]]
    u, d = labels
    pair = [[d, "+"], [u, "+"]] if flip_pair else [[u, "+"], [d, "+"]]
    return [[], [[d, "+"]], [[u, "+"]], pair]


def variant_basis(rng, labels, variant):
    b = full_basis(labels, flip_pair=bool(rng.integers(2)) if variant != "doc" else False)
    if variant == "doc":
        return b
    order = rng.permutation(len(b)).tolist()
    if variant == "subset":
        k = int(rng.integers(1, len(b) + 1))
        order = order[:k]
    return [b[i] for i in order]


COEFFS = [1, -1, 2, -2, 3, 0.5, -0.5, 1.5, -1.5, 1.0, -2.0]


def rand_word(rng, modes, maxlen=6):
    L = int(rng.integers(0, maxlen + 1))
    return [[modes[int(rng.integers(len(modes)))], "+-"[int(rng.integers(2))]] for _ in range(L)]


def rand_terms(rng, modes, nmax=5, maxlen=6, allow_zero=True):
    terms = []
    for _ in range(int(rng.integers(1, nmax + 1))):
        c = COEFFS[int(rng.integers(len(COEFFS)))]
        if allow_zero and rng.random() < 0.05:
            c = 0.0
        terms.append([c, rand_word(rng, modes, maxlen)])
    return terms


def rand_conserving_terms(rng, sym, modes, spf, nterms, maxlen=6):
    terms = []
    tries = 0
    zero = G.zero(sym)
    while len(terms) < nterms and tries < 4000:
        tries += 1
        w = rand_word(rng, modes, maxlen)
        if F.word_charge(sym, F.parse_terms([(1, w)])[0][1], spf) == zero:
            terms.append([COEFFS[int(rng.integers(len(COEFFS)))], w])
    if not terms:
        terms = [[1, []]]
    return terms


def site_kinds_layouts(max_modes):
    out = []
    for ns in (1, 2, 3):
        for combo in itertools.product(("sl", "sf"), repeat=ns):
            if sum(1 if k == "sl" else 2 for k in combo) <= max_modes:
                out.append(list(combo))
    return out


def array_structure(rng, kinds, variant, label_kind="spin"):
    n = [1 if k == "sl" else 2 for k in kinds]
    labels = make_labels(rng, label_kind, n)
    species = []
    for ls in labels:
        for j, l in enumerate(ls):
            species.append([l, j])  # first mode of a site "up" (component 0), second "down" (component 1)
    bases = [variant_basis(rng, ls, variant) for ls in labels]
    return labels, species, bases


def gen_cases(tier, seed):
    quick = tier == "quick"
    max_modes = 4 if quick else 5
    yield {"contract": "C18.charge_maps"}
    yield {"contract": "C18.elements", "kind": "selfcheck", "n": 4 if quick else 5}

    # ---- systematic elements: every single word of length <= L on small layouts, full bases
    L = 2 if quick else 3
    rng = np.random.default_rng([seed, 18, 0])
    for lay in layouts(3):
        labels = make_labels(rng, "str", lay)
        modes = [l for ls in labels for l in ls]
        bases = [full_basis(ls) for ls in labels]
        syms = [[m, s] for m in modes for s in "+-"]
        for k in range(0, L + 1):
            for word in itertools.product(syms, repeat=k):
                yield {"contract": "C18.elements", "bases": bases, "terms": [[1, [list(s) for s in word]]], "objects": False, "extra_modes": []}
    # every subset / ordering of the states of single-mode sites, a fixed rich term list
    for lay in ([1], [1, 1], [1, 1, 1]):
        labels = [[l] for l in ["b", "a", "c"][: len(lay)]]
        opts = [[[]], [[[None, "+"]]], [[], [[None, "+"]]], [[[None, "+"]], []]]
        for choice in itertools.product(range(4), repeat=len(lay)):
            bases = [[[[labels[s][0], "+"] for _ in st] for st in opts[c]] for s, c in enumerate(choice)]
            modes = [ls[0] for ls in labels]
            terms = [[1, []]] + [[2 + i, [[m, "+"], [m, "-"]]] for i, m in enumerate(modes)]
            terms += [[0.5 * (3 + 2 * i + j), [[a, "+"], [b, "-"]]] for i, a in enumerate(modes) for j, b in enumerate(modes) if a != b]
            terms += [[7 + i, [[m, "+"]]] for i, m in enumerate(modes)] + [[11 + i, [[m, "-"]]] for i, m in enumerate(modes)]
            yield {"contract": "C18.elements", "bases": bases, "terms": terms, "objects": bool(sum(choice) % 2), "extra_modes": []}

    # ---- systematic model builders
    coordsets = [(1, 1), (2, 3), (4, 1)] if quick else [(a, b) for a in (1, 2, 3, 4) for b in (1, 2, 3, 4)]
    for sym in ("Z2", "U1", "Z2Z2", "U1U1"):
        for model in ("number_spinful", "spin"):
            yield {"contract": "C18.models", "model": model, "sym": sym}
        if sym in ("Z2", "U1"):
            yield {"contract": "C18.models", "model": "number_spinless", "sym": sym}
        yield {"contract": "C18.models", "model": "hubbard", "sym": sym, "defaults": True}
        if sym in ("Z2", "U1"):
            yield {"contract": "C18.models", "model": "spinless", "sym": sym, "defaults": True}
        for co in coordsets:
            for form in ("scalar", "pair"):
                yield {"contract": "C18.models", "model": "hubbard", "sym": sym, "t": 1.5, "U": 4.0 if form == "scalar" else [4.0, -2.0],
                       "mu": 0.5 if form == "scalar" else [0.5, -1.0], "coordinations": list(co)}
                if sym in ("Z2", "U1"):
                    yield {"contract": "C18.models", "model": "spinless", "sym": sym, "t": -0.5, "V": 3.0,
                           "mu": 2.0 if form == "scalar" else [2.0, -1.0], "coordinations": list(co)}
    for sym in ("Z2Z2", "U1U1", "Z4", "SU2"):
        yield {"contract": "C18.models", "model": "bad_symmetry", "sym": sym}

    # ---- systematic array action: documented bases, every layout, every symmetry
    k = 0
    for kinds in site_kinds_layouts(max_modes):
        for sym in ("Z2", "U1", "Z2Z2", "U1U1"):
            for variant in ("doc", "perm", "subset"):
                for herm in (False, True):
                    k += 1
                    r = np.random.default_rng([seed, 18, 1, k])
                    labels, species, bases = array_structure(r, kinds, variant)
                    modes = [l for ls in labels for l in ls]
                    terms = rand_conserving_terms(r, sym, modes, species_fn(species), int(r.integers(1, 5)), 4)
                    yield {"contract": "C18.array_action", "sym": sym, "bases": bases, "species": species, "terms": terms,
                           "hermitian": herm, "variant": variant, "kinds": kinds, "seed": int(r.integers(2**31)), "tier": tier}
    k = 0
    for kinds in site_kinds_layouts(max_modes):
        for sym in ("Z2", "U1", "Z2Z2", "U1U1"):
            k += 1
            r = np.random.default_rng([seed, 18, 2, k])
            labels, species, bases = array_structure(r, kinds, "perm" if k % 2 else "doc")
            modes = [l for ls in labels for l in ls]
            spf = species_fn(species)
            yield {"contract": "C18.composition", "sym": sym, "bases": bases, "species": species, "kinds": kinds,
                   "terms1": rand_conserving_terms(r, sym, modes, spf, int(r.integers(1, 4)), 4),
                   "terms2": rand_conserving_terms(r, sym, modes, spf, int(r.integers(1, 4)), 4), "seed": int(r.integers(2**31))}

    # ---- seeded random part, interleaved
    n_rand = 6000 if quick else 60000
    lays = layouts(max_modes)
    klays = site_kinds_layouts(max_modes)
    for i in range(n_rand):
        r = np.random.default_rng([seed, 18, 3, i])
        which = i % 10
        if which < 5:
            lay = lays[int(r.integers(len(lays)))]
            kind = ["str", "int", "tuple", "spin"][int(r.integers(4))]
            labels = make_labels(r, kind, lay)
            variant = ["doc", "perm", "subset", "subset"][int(r.integers(4))]
            bases = [variant_basis(r, ls, variant) for ls in labels]
            modes = [l for ls in labels for l in ls]
            extra = []
            if sum(lay) < max_modes and r.random() < 0.3:
                extra = [{"str": "zz", "int": 0, "tuple": ["a", 9], "spin": "zu"}[kind]]
            yield {"contract": "C18.elements", "bases": bases, "terms": rand_terms(r, modes + extra), "objects": bool(r.integers(2)), "extra_modes": extra}
        elif which < 8:
            kinds = klays[int(r.integers(len(klays)))]
            sym = ("Z2", "U1", "Z2Z2", "U1U1")[int(r.integers(4))]
            variant = ("doc", "perm", "subset")[int(r.integers(3))]
            labels, species, bases = array_structure(r, kinds, variant, ["spin", "str", "int"][int(r.integers(3))])
            if r.random() < 0.25:  # arbitrary species assignment (e.g. both modes of a site "up")
                species = [[l, int(r.integers(2))] for l, _ in species]
            modes = [l for ls in labels for l in ls]
            terms = rand_conserving_terms(r, sym, modes, species_fn(species), int(r.integers(1, 6)), 6)
            yield {"contract": "C18.array_action", "sym": sym, "bases": bases, "species": species, "terms": terms,
                   "hermitian": bool(r.integers(2)), "variant": variant, "kinds": kinds, "seed": int(r.integers(2**31)), "tier": tier}
        elif which < 9:
            kinds = klays[int(r.integers(len(klays)))]
            sym = ("Z2", "U1", "Z2Z2", "U1U1")[int(r.integers(4))]
            labels, species, bases = array_structure(r, kinds, ("doc", "perm")[int(r.integers(2))], ["spin", "str"][int(r.integers(2))])
            modes = [l for ls in labels for l in ls]
            spf = species_fn(species)
            yield {"contract": "C18.composition", "sym": sym, "bases": bases, "species": species, "kinds": kinds,
                   "terms1": rand_conserving_terms(r, sym, modes, spf, int(r.integers(1, 4)), 5),
                   "terms2": rand_conserving_terms(r, sym, modes, spf, int(r.integers(1, 4)), 5), "seed": int(r.integers(2**31))}
        else:
            sym = ("Z2", "U1", "Z2Z2", "U1U1")[int(r.integers(4))]
            q = lambda: float(r.integers(-8, 9)) / 4
            co = [int(r.integers(1, 5)), int(r.integers(1, 5))]
            if sym in ("Z2", "U1") and r.integers(2):
                yield {"contract": "C18.models", "model": "spinless", "sym": sym, "t": q(), "V": q(),
                       "mu": q() if r.integers(2) else [q(), q()], "coordinations": co}
            else:
                yield {"contract": "C18.models", "model": "hubbard", "sym": sym, "t": q(), "U": q() if r.integers(2) else [q(), q()],
                       "mu": q() if r.integers(2) else [q(), q()], "coordinations": co}


# ----------------------------------------------------------------------------
# checks


def check_elements(d):
    if d.get("kind") == "selfcheck":
        bad = F.selfcheck(3) + F.selfcheck(d["n"])
        if bad:
            raise AssertionError("Jordan-Wigner oracle self-check failed: " + "; ".join(bad[:3]))
        return {"fingerprint": ("selfcheck", d["n"]), "nontrivial": True, "failures": []}
    bases, terms = d["bases"], d["terms"]
    pb = F.parse_bases(bases)
    pt = F.parse_terms(terms)
    modes = F.modes_of(bases, terms, d.get("extra_modes", ()))
    fock = F.Fock(modes)
    E = F.elements_oracle(fock, terms, bases)
    shape = E.shape
    n = len(pb)
    feats = {
        "nsites": n,
        "nmodes": len(modes),
        "max_word": max((len(w) for _, w in pt), default=0),
        "nterms": len(pt),
        "subset_basis": any(len(b) not in (2, 4) for b in pb),
        "objects": bool(d.get("objects")),
    }
    case = Case("C18", feats)
    ok, got = case.guard(sr.build_local_fermionic_elements, sr_terms(terms, d.get("objects")), sr_bases(bases, d.get("objects")))
    if ok:
        dense = np.zeros(shape)
        okkeys = True
        for idx, v in got.items():
            if not (isinstance(idx, tuple) and len(idx) == 2 * n and all(0 <= i < s for i, s in zip(idx, shape))):
                case.bad("elements_index", f"key {idx!r} is not a valid tensor index of shape {shape}")
                okkeys = False
                continue
            dense[idx] = v
        if okkeys and not np.array_equal(dense, E):
            idx = tuple(np.argwhere(dense != E)[0].tolist())
            case.bad("elements_value", f"element {idx}: library {dense[idx]!r}, Jordan-Wigner VEV {E[idx]!r}",
                     left_parities=[F.state_parity(pb[s][i]) for s, i in enumerate(idx[:n])],
                     right_parities=[F.state_parity(pb[s][i]) for s, i in enumerate(idx[n:])])
        # dense builder: same elements in an array of the documented shape
        okd, dn = case.guard(sr.fermionic_local_operators.build_local_fermionic_dense, sr_terms(terms), sr_bases(bases))
        if okd and (np.shape(dn) != shape or not np.array_equal(np.asarray(dn), E)):
            case.bad("dense_value", "build_local_fermionic_dense differs from the VEV tensor")
    struct = (
        tuple(tuple(tuple((str(l), s) for l, s in st) for st in b) for b in pb),
        tuple(tuple((str(l), s) for l, s in w) for _, w in pt),
        tuple(c == 0 for c, _ in pt),
    )
    return {"fingerprint": ("el", struct), "nontrivial": bool(np.any(E)), "failures": case.fails[:5],
            "sample": {"bases": bases, "terms": terms, "nonzero_elements": int(np.count_nonzero(E))}}


def check_charge_maps(d):
    case = Case("C18", {})
    doc1 = F.parse_bases([full_basis(["a"])])[0]
    doc2 = F.parse_bases([full_basis(["au", "ad"])])[0]
    spf = lambda l: 0 if l.endswith("u") else 1
    for sym in ("Z2", "U1"):
        ok, got = case.guard(get_spinless_charge_indexmap, sym)
        want = [F.state_charge(sym, s) for s in doc1]
        if ok and list(got) != want:
            case.bad("spinless_map", f"{sym}: {got!r} != {want!r}", sym=sym)
    for sym in ("Z2", "U1", "Z2Z2", "U1U1"):
        ok, got = case.guard(get_spinful_charge_indexmap, sym)
        want = [F.state_charge(sym, s, spf) for s in doc2]
        if ok and list(got) != want:
            case.bad("spinful_map", f"{sym}: {got!r} != {want!r}", sym=sym)
    for fn, bads in ((get_spinless_charge_indexmap, ("Z2Z2", "U1U1", "Z4", "nope")), (get_spinful_charge_indexmap, ("Z4", "nope"))):
        for sym in bads:
            try:
                fn(sym)
                case.bad("map_rejects", f"{fn.__name__}({sym!r}) did not raise", sym=sym)
            except ValueError:
                pass
    return {"fingerprint": "maps", "nontrivial": True, "failures": case.fails}


def _calibrators(sym, modes, spf):
    zero = G.zero(sym)
    cal = [("identity", [[1, []]])]
    for m in modes:
        cal.append((f"n[{m}]", [[1, [[m, "+"], [m, "-"]]]]))
    for a, b in itertools.combinations(modes, 2):
        hop = [[a, "+"], [b, "-"]]
        if F.word_charge(sym, F.parse_terms([(1, hop)])[0][1], spf) == zero:
            cal.append((f"hop[{a},{b}]", [[1, hop], [1, [[b, "+"], [a, "-"]]]]))
        pair = [[a, "+"], [b, "+"]]
        if F.word_charge(sym, F.parse_terms([(1, pair)])[0][1], spf) == zero:
            cal.append((f"pair[{a},{b}]", [[1, pair], [1, [[b, "-"], [a, "-"]]]]))
    return cal


def check_array_action(d):
    sym, bases = d["sym"], d["bases"]
    pb = F.parse_bases(bases)
    n = len(pb)
    spf = species_fn(d["species"])
    maps = [[F.state_charge(sym, s, spf) for s in b] for b in pb]
    modes = F.modes_of(bases)
    terms = [list(t) for t in d["terms"]]
    if d.get("hermitian"):
        terms = terms + [[c, [list(s) for s in w]] for c, w in F.dag_terms(terms)]
    fock = F.Fock(F.modes_of(bases, terms))
    rng = np.random.default_rng(d["seed"])
    dims = [len(b) for b in pb]
    feats = {"sym": sym, "nsites": n, "variant": d.get("variant"), "kinds": "".join(k[1] for k in d.get("kinds", [])),
             "hermitian": bool(d.get("hermitian")), "site_parities_mixed": any(len({len(s) % 2 for s in b}) > 1 for b in pb)}
    case = Case("C18", feats)
    E = F.elements_oracle(fock, terms, bases)
    M = F.true_matrix_elements(fock, terms, bases)
    nontrivial = bool(np.any(M))

    ok, res = case.guard(build_array, terms, bases, sym, maps)
    if not ok:
        return {"fingerprint": ("act", sym, str(bases), str(d["terms"])), "nontrivial": nontrivial, "failures": case.fails}
    O, warns = res
    if warns:
        case.bad("array_no_warning", f"charge-conserving operator triggered: {warns[0][:160]}")
    try:
        audit_valid(O)
    except Invalid as e:
        case.bad("array_valid", str(e))
    if O.charge != G.zero(sym) or tuple(ix.dual for ix in O.indices) != (False,) * n + (True,) * n:
        case.bad("array_signature", f"charge {O.charge!r}, duals {[ix.dual for ix in O.indices]}")
    if type(O) is not FERMI_CLS[sym]:
        case.bad("array_class", f"{type(O).__name__}")
    try:
        dO = scatter_dense(O, maps * 2)
        if not np.array_equal(dO, E):
            case.bad("array_dense", "dense form of the operator array differs from the VEV elements")
    except TableMismatch as e:
        case.bad("array_tables", str(e))

    # --- fix the convention on calibration operators
    consistent = {"natural": True, "reversed": True}
    ncal = 0
    for name, cterms in _calibrators(sym, modes, spf):
        okc, resc = case.guard(build_array, cterms, bases, sym, maps)
        if not okc:
            continue
        Oc = resc[0]
        Mc = F.true_matrix_elements(fock, cterms, bases)
        for conv in list(consistent):
            S = F.convention_signs(bases, conv)
            nchk, nbad, _ = action_agrees(case, Oc, sym, maps, Mc, S, np.random.default_rng(d["seed"] + 1), what=name)
            ncal += nchk
            if nbad:
                consistent[conv] = False
    good = [c for c, v in consistent.items() if v]
    if not good:
        case.bad("convention_exists", "no candidate state convention (sites natural / reversed) reproduces identity, number, hopping and pairing operators")
    elif "reversed" not in good:
        case.bad("convention_fixed", f"calibration operators select {good}, not the reversed-site convention found elsewhere")
    # --- the operator itself under the one fixed convention
    S = F.convention_signs(bases, "reversed")
    nchk, nbad, first = action_agrees(case, O, sym, maps, M, S, rng, nstates=2, what="operator")
    if nbad:
        case.bad("action", first, also_natural=bool(action_agrees(case, O, sym, maps, M, F.convention_signs(bases, "natural"), rng)[1] == 0))

    # --- whole linear map: hermiticity and spectrum
    N = int(np.prod(dims))
    if N <= (16 if d.get("tier", "quick") == "quick" else 32):
        okl, Lm = case.guard(linear_map, O, sym, maps)
        if okl:
            Mm = M.reshape(N, N)
            Sm = S.reshape(N)
            if not np.array_equal(Lm, Sm[:, None] * Mm * Sm[None, :]):
                case.bad("linear_map", "matrix of psi -> O.psi differs from S M S")
            if d.get("hermitian"):
                if not np.array_equal(Lm, Lm.T):
                    case.bad("hermitian", "Hermitian term set gives a non-symmetric map")
                else:
                    ev, ew = np.linalg.eigvalsh(Lm), np.linalg.eigvalsh(Mm)
                    if not np.allclose(ev, ew, atol=1e-9, rtol=0):
                        case.bad("spectrum", f"spectrum differs by {np.abs(ev - ew).max():g}")
    fp = ("act", sym, tuple(tuple(tuple((str(l), s) for l, s in st) for st in b) for b in pb), tuple(tuple(map(str, m)) for m in maps),
          tuple(tuple((str(l), s) for l, s in w) for _, w in F.parse_terms(d["terms"])), bool(d.get("hermitian")))
    return {"fingerprint": fp, "nontrivial": nontrivial, "failures": case.fails[:6],
            "sample": {"sym": sym, "bases": bases, "maps": [[jcharge(c) for c in m] for m in maps], "n_calibration_checks": ncal, "conventions_consistent": good}}


def check_composition(d):
    sym, bases = d["sym"], d["bases"]
    pb = F.parse_bases(bases)
    n = len(pb)
    spf = species_fn(d["species"])
    maps = [[F.state_charge(sym, s, spf) for s in b] for b in pb]
    t1, t2 = d["terms1"], d["terms2"]
    t12 = [[c, [list(s) for s in w]] for c, w in F.word_mul(t1, t2)]
    fock = F.Fock(F.modes_of(bases, t12))
    feats = {"sym": sym, "nsites": n, "kinds": "".join(k[1] for k in d.get("kinds", []))}
    case = Case("C18", feats)
    M1 = F.true_matrix_elements(fock, t1, bases)
    M2 = F.true_matrix_elements(fock, t2, bases)
    M12 = F.true_matrix_elements(fock, t12, bases)
    N = int(np.prod([len(b) for b in pb]))
    if not np.array_equal(M1.reshape(N, N) @ M2.reshape(N, N), M12.reshape(N, N)):
        raise AssertionError("oracle: product of JW matrices != matrix of the product word list (basis incomplete?)")
    res = [case.guard(build_array, t, bases, sym, maps) for t in (t1, t2, t12)]
    if all(r[0] for r in res):
        O1, O2, O12 = (r[1][0] for r in res)
        rng = np.random.default_rng(d["seed"])
        nbad = 0
        for q in reachable(sym, maps):
            mask = charge_mask(sym, maps, q)
            psi = np.where(mask, rng.integers(-3, 4, size=mask.shape), 0).astype(float)
            if not psi.any():
                psi[tuple(np.argwhere(mask)[0])] = 1.0
            x = make_state(sym, maps, q, psi)
            okc, ab = case.guard(lambda: (scatter_dense(apply_array(O1, apply_array(O2, x, n), n), maps), scatter_dense(apply_array(O12, x, n), maps)))
            if okc and not np.array_equal(ab[0], ab[1]):
                nbad += 1
        if nbad:
            case.bad("succession", f"O1.(O2.psi) != O12.psi for {nbad} total charges")
        okp, P = case.guard(sr.tensordot, O1, O2, (tuple(range(n, 2 * n)), tuple(range(n))))
        if okp:
            try:
                if not np.array_equal(scatter_dense(P, maps * 2), scatter_dense(O12, maps * 2)):
                    case.bad("product_array", "tensordot(O1, O2) differs from the array of the product operator")
                if P.charge != O12.charge or tuple(ix.dual for ix in P.indices) != tuple(ix.dual for ix in O12.indices):
                    case.bad("product_signature", "charge/directions of tensordot(O1, O2) differ from the product array")
            except TableMismatch as e:
                case.bad("product_tables", str(e))
    fp = ("comp", sym, str(bases), str([w for _, w in t1]), str([w for _, w in t2]))
    return {"fingerprint": fp, "nontrivial": bool(np.any(M12)), "failures": case.fails[:5], "sample": {"sym": sym, "bases": bases, "terms1": t1, "terms2": t2}}


def _pair(v):
    return (v[0], v[1]) if isinstance(v, (list, tuple)) else (v, v)


def model_terms(d):
    """Model operators written from their definitions (labels au, ad, bu, bd / a, b)."""
    m = d["model"]
    n_ = lambda l: [[l, "+"], [l, "-"]]
    if m == "number_spinless":
        return [[1, n_("a")]], [full_basis(["a"])], "spinless"
    if m == "number_spinful":
        return [[1, n_("au")], [1, n_("ad")]], [full_basis(["au", "ad"])], "spinful"
    if m == "spin":
        return [[0.5, n_("au")], [-0.5, n_("ad")]], [full_basis(["au", "ad"])], "spinful"
    za, zb = d.get("coordinations", (1, 1))
    if m == "spinless":
        t, V = d.get("t", 1.0), d.get("V", 8.0)
        mua, mub = _pair(d.get("mu", 0.0))
        terms = [[-t, [["a", "+"], ["b", "-"]]], [-t, [["b", "+"], ["a", "-"]]], [V, n_("a") + n_("b")],
                 [-mua / za, n_("a")], [-mub / zb, n_("b")]]
        return terms, [full_basis(["a"]), full_basis(["b"])], "spinless"
    if m == "hubbard":
        t = d.get("t", 1.0)
        Ua, Ub = _pair(d.get("U", 8.0))
        mua, mub = _pair(d.get("mu", 0.0))
        terms = []
        for sp in "ud":
            terms += [[-t, [["a" + sp, "+"], ["b" + sp, "-"]]], [-t, [["b" + sp, "+"], ["a" + sp, "-"]]]]
        terms += [[Ua / za, n_("au") + n_("ad")], [Ub / zb, n_("bu") + n_("bd")]]
        terms += [[-mua / za, n_("au")], [-mua / za, n_("ad")], [-mub / zb, n_("bu")], [-mub / zb, n_("bd")]]
        return terms, [full_basis(["au", "ad"]), full_basis(["bu", "bd"])], "spinful"
    raise ValueError(m)


def call_model(d):
    m, sym = d["model"], d["sym"]
    if m == "number_spinless":
        return sr.fermi_number_operator_spinless_local_array(sym)
    if m == "number_spinful":
        return sr.fermi_number_operator_spinful_local_array(sym)
    if m == "spin":
        return sr.fermi_spin_operator_local_array(sym)
    kw = {}
    for k in ("t", "U", "V", "mu", "coordinations"):
        if k in d:
            kw[k] = tuple(d[k]) if isinstance(d[k], list) else d[k]
    if m == "spinless":
        return sr.fermi_hubbard_spinless_local_array(sym, **kw)
    return sr.fermi_hubbard_local_array(sym, **kw)


def check_models(d):
    sym = d["sym"]
    feats = {"sym": sym, "model": d["model"], "coordinations": tuple(d.get("coordinations", (1, 1)))}
    case = Case("C18", feats)
    if d["model"] == "bad_symmetry":
        for fn in ((sr.fermi_hubbard_spinless_local_array, sr.fermi_number_operator_spinless_local_array) if sym in ("Z2Z2", "U1U1") else
                   (sr.fermi_hubbard_spinless_local_array, sr.fermi_hubbard_local_array, sr.fermi_spin_operator_local_array)):
            try:
                fn(sym)
                case.bad("model_rejects", f"{fn.__name__}({sym!r}) did not raise")
            except (ValueError, KeyError):
                pass
        return {"fingerprint": ("bad", sym), "nontrivial": True, "failures": case.fails}
    terms, bases, kind = model_terms(d)
    pb = F.parse_bases(bases)
    n = len(pb)
    spf = lambda l: 0 if (kind == "spinless" or str(l).endswith("u")) else 1
    maps = [[F.state_charge(sym, s, spf) for s in b] for b in pb]
    fock = F.Fock(F.modes_of(bases))
    E = F.elements_oracle(fock, terms, bases)
    M = F.true_matrix_elements(fock, terms, bases)
    # history: an array obtained earlier from the same builder and then modified in place (e.g. `op *= -mu` while
    # assembling a Hamiltonian) must not change what the builder returns now
    ok0, O0 = case.guard(call_model, d)
    if ok0:
        try:
            O0 *= -0.3
            O0.apply_to_arrays(lambda b: b + 1.0)
        except Exception:  # noqa: BLE001  (in-place arithmetic is not this contract's subject)
            pass
    with warnings.catch_warnings(record=True) as w:
        warnings.simplefilter("always")
        ok, O = case.guard(call_model, d)
    if ok:
        if ok0 and O is O0:
            case.bad("model_fresh_object_per_call", "the builder returned the very object it returned before (in-place changes of a result leak into later calls)")
        if w:
            case.bad("model_no_warning", str(w[0].message)[:160])
        try:
            audit_valid(O)
        except Invalid as e:
            case.bad("model_valid", str(e))
        if O.charge != G.zero(sym) or tuple(ix.dual for ix in O.indices) != (False,) * n + (True,) * n or type(O) is not FERMI_CLS[sym]:
            case.bad("model_signature", f"{type(O).__name__} charge {O.charge!r} duals {[ix.dual for ix in O.indices]}")
        try:
            dO = scatter_dense(O, maps * 2)
            if not np.allclose(dO, E, atol=ZERO_TOL, rtol=0):
                idx = tuple(np.argwhere(~np.isclose(dO, E, atol=ZERO_TOL, rtol=0))[0].tolist())
                case.bad("model_elements", f"element {idx}: library {dO[idx]!r}, Jordan-Wigner {E[idx]!r}")
            S = F.convention_signs(bases, "reversed")
            nchk, nbad, first = action_agrees(case, O, sym, maps, M, S, np.random.default_rng(5), nstates=2, tol=1e-11, what=d["model"])
            if nbad:
                case.bad("model_action", first)
            N = int(np.prod([len(b) for b in pb]))
            Lm = linear_map(O, sym, maps)
            if not np.allclose(Lm, Lm.T, atol=ZERO_TOL, rtol=0):
                case.bad("model_hermitian", "model operator gives a non-symmetric map")
            else:
                ev, ew = np.linalg.eigvalsh((Lm + Lm.T) / 2), np.linalg.eigvalsh(fock_restricted(M, N))
                if not np.allclose(ev, ew, atol=1e-9, rtol=0):
                    case.bad("model_spectrum", f"spectrum differs by {np.abs(ev - ew).max():g}")
        except TableMismatch as e:
            case.bad("model_tables", str(e))
    form = tuple(k for k in ("t", "U", "V", "mu", "coordinations") if k in d) + tuple(isinstance(d.get(k), list) for k in ("U", "mu"))
    return {"fingerprint": ("model", d["model"], sym, form, tuple(d.get("coordinations", ()))), "nontrivial": bool(np.any(M)), "failures": case.fails[:5],
            "sample": {k: d[k] for k in d if k != "contract"}}


def fock_restricted(M, N):
    m = M.reshape(N, N)
    return (m + m.T) / 2


def check_case(d):
    c = d["contract"]
    if c == "C18.elements":
        return check_elements(d)
    if c == "C18.charge_maps":
        return check_charge_maps(d)
    if c == "C18.array_action":
        return check_array_action(d)
    if c == "C18.composition":
        return check_composition(d)
    if c == "C18.models":
        return check_models(d)
    raise ValueError(c)


if __name__ == "__main__":
    driver_main("bounded.run_C18")
