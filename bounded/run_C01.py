"""C01 (bounded): every value returned by any public operation, applied to valid arrays
in any order, is itself valid.

Random *applicable* programs (bounded/programs.py) over all five symmetries, abelian and
fermionic, static and generic classes; after EVERY step every produced value is audited
with the independent `Valid` audit (common.audit_valid).  A symmray exception on an
applicable step is a failure as well.

Obligations reported
    C01.valid_after.<opname>   what = violated clause of Valid
    C01.no_exception           what = op + exception
Features: {"op", "fermionic", "sym", "static", "ndim", "nblocks", "lazy", "has_subinfo", "mode", ...,
           "explicit_odd_charge" (expand_dims), "a_parity"/"b_parity" (solve),
           "invalid_input" (an input of the step had already failed the audit),
           "contains_F12_step" (an earlier step of the program was a fermionic expand_dims with odd charge)}
"""

import numpy as np

from bounded.common import *  # noqa: F401,F403
from bounded.common import SYMS, G, driver_main, is_valid, stable_hash, ucharge
from bounded.programs import (
    DEFAULT_WEIGHTS,
    Gen,
    Interp,
    conj_index_spec,
    features_of,
    fingerprint,
    is_f,
    kind_of,
    mutated_slots,
    random_program,
    step_inputs,
)

CONTRACTS = {
    "C01.valid_single": (
        "one targeted public operation (plus the prerequisite steps that make it applicable) on fresh operands: "
        "every operation of the program vocabulary x 5 symmetries x abelian/fermionic x static/generic class; "
        "operands of rank 0-4, <=2 charges per index, block sizes 1-2, random sparsity, even and odd total charge, "
        "pending signs on about half of the fermionic operands",
        "quick: 1 program per (operation, symmetry, kind, class); thorough: 12",
    ),
    "C01.valid_program": (
        "random applicable programs of 1-8 public operations (construct, copy, transpose, conj, dagger, fuse, unfuse, "
        "unfuse_all, reshape, squeeze, expand_dims, sync_charges, tensordot auto/fused/blockwise, @, einsum, trace, "
        "multiply_diagonal, align_axes, + - * / with scalars and arrays, unary minus, qr, svd, eigh, solve, svd_truncated, "
        "phase_flip/transpose/global/sector/sync, to_dense, allclose, norm, reductions, item/float); every intermediate audited",
        "quick: 7000 programs; thorough: 160000 programs; program length <= 8 (+ prerequisite steps), rank <= 5",
    ),
}

TARGET_OPS = [n for n in DEFAULT_WEIGHTS] + ["drop_misaligned"]
SQUARE_OPS = ("eigh", "solve", "trace", "einsum", "matmul", "qr", "svd", "svd_truncated")
ONES_OPS = ("item", "float", "complex", "int", "bool", "div", "squeeze")
AFTER_FUSE = ("unfuse", "unfuse_all", "reshape")


def targeted_program(rng, sym, fermionic, static, op, dtype="float64"):
    g = Gen(rng, sym, fermionic, static=static, dtype=dtype, f12_rate=0.5 if op == "expand_dims_odd" else 0.0)
    if op in SQUARE_OPS and rng.random() < 0.8:
        g.add_operand(g.square_spec(zero_charge=(op == "eigh") or rng.random() < 0.4))
    elif op in ONES_OPS and rng.random() < 0.8:
        g.add_operand(g.ones_spec())
    else:
        g.add_operand(g.rand_spec(ndim=int(rng.choice([1, 2, 2, 3, 3, 4]))))
    if op in AFTER_FUSE and len(g.vals[0].indices) > 1:
        g.try_op("fuse")
    name = "expand_dims" if op == "expand_dims_odd" else op
    if not g.dead:
        ok = g.try_op(name)
        if not ok and not g.dead:
            # one random enabling step, then retry
            g.random_step()
            if not g.dead:
                g.try_op(name)
    return g


def gen_cases(tier, seed):
    tnum = 0 if tier == "quick" else 1
    reps = 1 if tier == "quick" else 12
    k = 0
    for rep in range(reps):
        for sym in SYMS:
            for fermionic in (False, True):
                for static in (True, False):
                    if sym == "Z4" and static:
                        continue
                    ops = TARGET_OPS + (["expand_dims_odd"] if fermionic else [])
                    for op in ops:
                        k += 1
                        rng = np.random.default_rng([seed, tnum, 1, k])
                        dtype = "complex128" if rng.random() < 0.2 else "float64"
                        g = targeted_program(rng, sym, fermionic, static, op, dtype)
                        if not g.steps:
                            continue
                        yield {"contract": "C01.valid_single", "program": g.program(), "gen": [tier, seed, "single", k, op]}
    n = 7000 if tier == "quick" else 160000
    for k in range(n):
        rng = np.random.default_rng([seed, tnum, 2, k])
        sym = SYMS[k % 5]
        fermionic = bool((k // 5) % 2)
        static = bool(rng.integers(0, 2))
        dtype = "complex128" if rng.random() < 0.15 else "float64"
        nsteps = int(rng.integers(1, 9))
        g = random_program(rng, sym, fermionic, static, nsteps, dtype=dtype, f12_rate=0.04 if fermionic else 0.0,
                           inplace_rate=0.08)
        if not g.steps:
            continue
        yield {"contract": "C01.valid_program", "program": g.program(), "gen": [tier, seed, "random", k]}


def check_case(d):
    prog = d["program"]
    it = Interp(prog)
    fails = []
    invalid = set()
    contains_f12 = False
    nontrivial = False
    for i, (v, spec) in enumerate(zip(it.vals, prog["operands"])):
        if kind_of(v) == "arr" and len(v.blocks):
            nontrivial = True
        ok, why = is_valid(v)
        if not ok:
            invalid.add(i)
            fails.append(("C01.valid_after.construct", f"operand {i}: {why}", features_of(it.vals, ["construct", None, {"spec": spec}])))
    while not it.done():
        step = it.peek()
        op, slot, args = step
        feats = features_of(it.vals, step)
        feats["invalid_input"] = any(j in invalid for j in step_inputs(step))
        if contains_f12:
            feats["contains_F12_step"] = True
        if feats.get("explicit_odd_charge") and feats.get("fermionic"):
            contains_f12 = True
        r = it.exec_next()
        if r.exc is not None:
            feats["exc"] = type(r.exc).__name__
            fails.append(("C01.no_exception", f"step {r.k} {op} {args}: {type(r.exc).__name__}: {r.exc}", feats))
            break
        if r.inplace:
            produced = [(j, it.vals[j]) for j in mutated_slots(step)]
        else:
            produced = list(zip(r.slots, r.results))
        for j, v in produced:
            if kind_of(v) not in ("arr", "vec"):
                continue
            if kind_of(v) == "arr" and len(v.blocks):
                nontrivial = True
            ok, why = is_valid(v)
            if not ok:
                invalid.add(j)
                fails.append((f"C01.valid_after.{op}", f"step {r.k} {op} {args} -> value {j}: {why}", dict(feats)))
            else:
                invalid.discard(j)
    ops = [s[0] for s in prog["steps"]]
    sp0 = prog["operands"][0]
    return {
        "fingerprint": fingerprint(prog),
        "nontrivial": nontrivial,
        "failures": fails[:6],
        "sample": {"sym": sp0.get("sym"), "fermionic": sp0.get("fermionic"), "static": sp0.get("static"), "ops": ops},
    }


if __name__ == "__main__":
    driver_main("bounded.run_C01")
