"""C10 (bounded): conjugation gives the bra - norms are positive, adjoint laws hold.

Oracles: the squared norm is sum(re^2 + im^2) of the independent densification; the
involution / adjoint laws are compared with arrays_equal (labels included) and with
the graded calculator (dagger == graded reversal of conj; dagger(phase_dual=False) ==
Grassmann adjoint); network norms reuse the route machinery of run_C04."""

import itertools

import numpy as np

from bounded.common import *  # noqa: F401,F403
from bounded.common import (
    CHARGE_SETS,
    G,
    arrays_equal,
    audit_valid,
    build_array,
    dense_of,
    driver_main,
    is_valid,
    jcharge,
    labels_of,
    rand_array_spec,
    sr,
    stable_hash,
    ucharge,
)
from bounded import oracles_fermi as OF
from bounded.run_C03 import SYM_ORDER, _structs_by_rank, _tier, charges_by_parity, mk_index, mk_spec, normalise, spec_feats, spec_fp
from bounded.run_C04 import TOPOS, check_network, dangling_patterns, gen_routes, label_assignments, make_network

_B = "quick: every index structure (charge subset x direction) of rank<=2, rank 3 from a 3-charge pool, <=2 charges per index, sizes 1-2; thorough: <=3 charges, sizes 1-3; then seeded random up to rank 4 with multi-label words"
CONTRACTS = {
    "C10.norm": (
        "<conj(x, phase_dual=pd), x>, <x, conj(x)> over all indices, and the same with dagger(phase_dual=pd) over reversed axes, equal sum|x|^2 whenever all legs are kets or pd=True; both operand orders always agree; all 5 symmetries, every direction pattern, even and odd charge, pending signs, real and complex data",
        _B,
    ),
    "C10.involution": ("conj(conj(x)) == x for all 4 (phase_permutation, phase_dual) settings and dagger(dagger(x)) == x for both phase_dual, exactly, labels included", _B),
    "C10.dagger_conj": ("dagger(phase_dual=pd) == conj(phase_dual=pd) followed by the full-reversal fermionic transpose, pd in {False, True}; x.H == dagger(); dagger() equals the Grassmann adjoint of the graded oracle", _B),
    "C10.network_norm": (
        "2-3 tensor networks (pairs with 1-2 bonds, 3-chain, triangle; every dangling pattern, bond orientation, parity assignment, label assignment) contracted with the network conjugated tensor by tensor (conj or dagger) with bra-like dangling legs phase-flipped: every sampled route gives sum|N|^2 > 0 where N is the graded-oracle value of the network",
        "quick: Z2 every structure, other symmetries every k-th; 6-10 routes per network (N-first, zipper, random merge orders, rotating route variants); thorough: all symmetries, 16 routes; then seeded random",
    ),
}

NET_TOPOS = [t for t in TOPOS if t[0] in ("pair1", "pair2", "chain3", "tri")]


def doubled_legs(legs, via):
    """leg names of the conjugated copies: bonds renamed, dangling names shared"""
    allnames = [x for lg in legs for x in lg]
    out = []
    for lg in legs:
        cl = [x if allnames.count(x) == 1 else x + "*" for x in lg]
        out.append(cl[::-1] if via == "dagger" else cl)
    return out


def named_routes(n):
    """two structured merge orders for the doubled network of n + n tensors:
    (ket network, bra network, join) and the zipper"""
    # slots 0..n-1 kets, n..2n-1 bras
    r1, nxt = [], 2 * n
    cur = 0
    for i in range(1, n):
        r1.append((cur, i))
        cur = nxt
        nxt += 1
    ket = cur
    cur = n
    for i in range(n + 1, 2 * n):
        r1.append((cur, i))
        cur = nxt
        nxt += 1
    r1.append((cur, ket))
    r2, nxt = [], 2 * n
    cur = None
    for i in range(n):
        if cur is None:
            r2.append((n + i, i))
        else:
            r2.append((cur, i))
            cur = nxt
            nxt += 1
            r2.append((n + i, cur))
        cur = nxt
        nxt += 1
    return [r1, r2]


def routes_for_doubled(legs2, h, count):
    from bounded.run_C04 import apply_variant

    n2 = len(legs2)
    routes = []
    for ri, pairs in enumerate(named_routes(n2 // 2)):
        # turn slot pairs into base steps (shared names computed by simulation)
        active = {i: list(l) for i, l in enumerate(legs2)}
        nxt = n2
        base = []
        for p, q in pairs:
            lp, lq = active.pop(p), active.pop(q)
            sh = [x for x in lp if x in lq]
            active[nxt] = [x for x in lp if x not in sh] + [x for x in lq if x not in sh]
            base.append((p, q, sh))
            nxt += 1
        steps, _ = apply_variant(legs2, base, (h + ri) % 5, h + ri)
        routes.append(steps)
    for r in gen_routes(legs2, h, max_base=count, sample=True):
        if r not in routes:
            routes.append(r)
    return routes


def gen_cases(tier, seed):
    T = _tier(tier)
    quick = tier == "quick"
    nsz = T["nsz"]
    ctr = 0
    # ---------------- single arrays, exhaustive structures
    for sym in SYM_ORDER:
        S = _structs_by_rank(sym, T)
        for nd in (1, 2, 3):
            for st in S[nd]:
                ctr += 1
                h = stable_hash((sym, "c10", st))
                indices = [mk_index(s, h + i, nsz) for i, s in enumerate(st)]
                for charge in charges_by_parity(sym, indices, T["all_charges"]):
                    ctr += 1
                    dtype = "complex128" if ctr % 2 else "float64"
                    lab = (3, [[1, 2]], 7)[ctr % 3]
                    a = mk_spec(sym, indices, charge, h + ctr, label=lab, lazy=(ctr % 3 != 0), sparse=(ctr % 4 == 1), dtype=dtype)
                    if nd <= 2 or sym in ("Z2", "U1") or not quick:
                        combos = [("conj", False), ("conj", True), ("dagger", False), ("dagger", True)]
                    else:
                        combos = [(("conj", "dagger")[ctr % 2], bool((ctr // 2) % 2)), (("dagger", "conj")[ctr % 2], not bool((ctr // 2) % 2))]
                    for via, pd in combos:
                        yield {"contract": "C10.norm", "a": a, "via": via, "pd": pd}
                    if nd <= 2 or ctr % 2 == 0 or not quick:
                        yield {"contract": "C10.involution", "a": a}
                        yield {"contract": "C10.dagger_conj", "a": a}
    # ---------------- networks
    for sym in SYM_ORDER:
        for topo in NET_TOPOS:
            name, n, bonds = topo
            nb = len(bonds)
            stride = 1 if (sym == "Z2" or not quick) else 5
            dps = dangling_patterns(n)
            if n == 2:
                dps = dps + [(2, 0), (2, 1)]
            k = 0
            for dang in dps:
                ndang = sum(dang)
                for orient in itertools.product((0, 1), repeat=nb):
                    for dd in itertools.product((0, 1), repeat=ndang):
                        for parities in itertools.product((0, 1), repeat=n):
                            if ndang == 0 and sum(parities) % 2:
                                continue
                            for labels in label_assignments(parities, cap=2 if quick else 6, h=ctr):
                                k += 1
                                if k % stride:
                                    continue
                                ctr += 1
                                h = stable_hash((sym, name, "c10", dang, orient, dd, parities, repr(labels)))
                                lab = labels
                                if ctr % 4 == 0:
                                    lab = [None if l is None else [[l % 2, l]] for l in labels]
                                specs, legs = make_network(sym, topo, dang, orient, parities, lab, h, nsz=2, lazy=(ctr % 3 == 0), sparse=(ctr % 5 == 0), dtype="complex128" if ctr % 2 else "float64", dang_duals=dd)
                                via = ("conj", "dagger")[ctr % 3 == 0]
                                legs2 = legs + doubled_legs(legs, via)
                                yield {"contract": "C10.network_norm", "sym": sym, "topo": name, "tensors": specs, "legs": legs, "via": via, "flip_on": ("bra", "ket")[ctr % 4 == 1], "routes": routes_for_doubled(legs2, h, 4 if quick else 14)}
    # ---------------- seeded random part
    rng = np.random.default_rng([seed, 10])
    nrand = 12000 if quick else 150000
    for it in range(nrand):
        sym = SYM_ORDER[it % 5]
        dtype = "complex128" if it % 2 else "float64"
        if it % 6 == 5:
            topo = NET_TOPOS[int(rng.integers(0, len(NET_TOPOS)))]
            name, n, bonds = topo
            dang = [int(rng.integers(0, 2)) for _ in range(n)]
            orient = rng.integers(0, 2, size=len(bonds)).tolist()
            parities = rng.integers(0, 2, size=n).tolist()
            labs = rng.permutation(9)[:n].tolist()
            labels = [1 + l if p else None for l, p in zip(labs, parities)]
            pool = CHARGE_SETS[sym]
            tables = []
            for _ in range(4):
                kk = int(rng.integers(1, min(3, len(pool)) + 1))
                tables.append([pool[i] for i in sorted(rng.choice(len(pool), size=kk, replace=False).tolist())])
            h = int(rng.integers(0, 2**31 - 1))
            specs, legs = make_network(sym, topo, dang, orient, parities, labels, h, nsz=3, lazy=bool(rng.integers(0, 2)), sparse=bool(rng.integers(0, 2)), tables=tables, dtype=dtype)
            via = ("conj", "dagger")[int(rng.integers(0, 2))]
            legs2 = legs + doubled_legs(legs, via)
            yield {"contract": "C10.network_norm", "sym": sym, "topo": name, "tensors": specs, "legs": legs, "via": via, "flip_on": ("bra", "ket")[int(rng.integers(0, 2))], "routes": routes_for_doubled(legs2, h, 5)}
            continue
        nd = int(rng.integers(1, 5))
        a = rand_array_spec(rng, sym, ndim=nd, fermionic=True, max_charges=3, sizes=(1, 2, 3), lazy=bool(rng.integers(0, 2)), dtype=dtype)
        r = int(rng.integers(0, 4))
        odd = "oddpos" in a
        if r == 0 and odd:
            a["oddpos"] = [[int(rng.integers(0, 3)), int(rng.integers(0, 9))]]
        elif r == 1:
            n = (1 if odd else 0) + 2 * int(rng.integers(0, 2))
            if n:
                a["oddpos"] = sorted(rng.choice(9, size=n, replace=False).tolist())
        yield {"contract": "C10.norm", "a": a, "via": ("conj", "dagger")[it % 2], "pd": bool(rng.integers(0, 2))}
        if it % 3 == 0:
            yield {"contract": "C10.involution", "a": a}
            yield {"contract": "C10.dagger_conj", "a": a}


# ----------------------------------------------------------------------------


def norm2(D):
    D = np.asarray(D)
    return np.sum(D.real**2 + D.imag**2)


def _exc(e):
    return f"{type(e).__name__}: {str(e)[:200]}"


def _scalar_of(r):
    """value of a rank-0 result (array or bare scalar), labels of it"""
    if hasattr(r, "blocks"):
        return dense_of(r)[()] if r.blocks else 0.0, labels_of(r)
    return r, ()


def _is_minus(z, x):
    dz, dx = dense_of(z), dense_of(x)
    return bool(dz.shape == dx.shape and np.array_equal(dz, -dx) and labels_of(z) == labels_of(x))


def check_case(d):
    d = normalise(d)
    c = d["contract"]
    if c == "C10.network_norm":
        return _check_network_norm(d)
    a = d["a"]
    sym = a["sym"]
    x = build_array(a)
    nd = len(a["indices"])
    duals = [bool(i["dual"]) for i in a["indices"]]
    feats = {"sym": sym, "allket": not any(duals), "allbra": all(duals), "dtype": a.get("dtype"), "nlabels": len(labels_of(x))}
    feats.update(spec_feats(a))
    fails = []
    nontrivial = bool(x.blocks)

    if c == "C10.norm":
        via, pd = d["via"], d["pd"]
        feats.update({"via": via, "phase_dual": pd})
        fp = ("n", spec_fp(a), via, pd)
        want = norm2(dense_of(x))
        claim = pd or not any(duals)
        try:
            if via == "conj":
                y = x.conj(phase_dual=pd)
                v1 = sr.tensordot(y, x, nd, preserve_array=True)
                v2 = sr.tensordot(x, y, axes=nd)
            else:
                y = x.dagger(phase_dual=pd)
                ax = (tuple(range(nd)), tuple(range(nd - 1, -1, -1)))
                v1 = sr.tensordot(y, x, axes=ax, preserve_array=True)
                v2 = sr.tensordot(x, y, axes=(ax[1], ax[0]))
        except Exception as e:  # noqa: BLE001
            return {"fingerprint": fp, "nontrivial": nontrivial, "failures": [(c + ".no_exception", _exc(e), feats)]}
        ok, why = is_valid(y)
        if not ok:
            fails.append((c + ".valid", f"{via}(x) not Valid: {why}", feats))
        s1, l1 = _scalar_of(v1)
        s2, _ = _scalar_of(v2)
        if l1 != ():
            fails.append((c + ".labels", f"<{via}(x), x> keeps labels {l1}", feats))
        if claim:
            if not np.array_equal(np.asarray(s1), want):
                fails.append((c + ".bra_ket", f"<{via}(x, phase_dual={pd}), x> = {s1!r}, sum|x|^2 = {want!r}", feats))
            if not np.array_equal(np.asarray(s2), want):
                fails.append((c + ".ket_bra", f"<x, {via}(x, phase_dual={pd})> = {s2!r}, sum|x|^2 = {want!r}", feats))
        if not np.array_equal(np.asarray(s1), np.asarray(s2)):
            fails.append((c + ".orders_agree", f"<{via}(x),x> = {s1!r} but <x,{via}(x)> = {s2!r}", feats))
        sample = {"sym": sym, "duals": duals, "charge": a["charge"], "via": via, "pd": pd, "norm2": float(want), "claimed": claim}
        return {"fingerprint": fp, "nontrivial": nontrivial and claim, "failures": fails, "sample": sample}

    if c == "C10.involution":
        fp = ("i", spec_fp(a))
        for pp in (True, False):
            for pd in (False, True):
                f2 = dict(feats, phase_permutation=pp, phase_dual=pd, op="conj")
                try:
                    y = x.conj(phase_permutation=pp, phase_dual=pd)
                    z = y.conj(phase_permutation=pp, phase_dual=pd)
                except Exception as e:  # noqa: BLE001
                    fails.append((c + ".no_exception", _exc(e), f2))
                    continue
                ok, why = arrays_equal(z, x, why=True)
                if not ok:
                    f2["minus_x"] = _is_minus(z, x)
                    fails.append((c + ".conj_conj", f"conj(conj(x)) != x with phase_permutation={pp}, phase_dual={pd}: {why}" + (" (result is exactly -x)" if f2["minus_x"] else ""), f2))
                ok, why = is_valid(y)
                if not ok:
                    fails.append((c + ".valid", f"conj(x) not Valid: {why}", f2))
        for pd in (False, True):
            f2 = dict(feats, phase_dual=pd, op="dagger")
            try:
                z = x.dagger(phase_dual=pd).dagger(phase_dual=pd)
            except Exception as e:  # noqa: BLE001
                fails.append((c + ".no_exception", _exc(e), f2))
                continue
            ok, why = arrays_equal(z, x, why=True)
            if not ok:
                f2["minus_x"] = _is_minus(z, x)
                fails.append((c + ".dagger_dagger", f"dagger(dagger(x)) != x with phase_dual={pd}: {why}" + (" (result is exactly -x)" if f2["minus_x"] else ""), f2))
        return {"fingerprint": fp, "nontrivial": nontrivial, "failures": fails[:6], "sample": {"sym": sym, "duals": duals, "charge": a["charge"]}}

    if c == "C10.dagger_conj":
        fp = ("d", spec_fp(a))
        rev = tuple(range(nd - 1, -1, -1))
        gx = OF.gt_of(x, sym)
        for pd in (False, True):
            f2 = dict(feats, phase_dual=pd)
            try:
                h = x.dagger(phase_dual=pd)
                cj = x.conj(phase_dual=pd)
                ct = cj.transpose(rev)
            except Exception as e:  # noqa: BLE001
                fails.append((c + ".no_exception", _exc(e), f2))
                continue
            ok, why = arrays_equal(h, ct, why=True)
            if not ok:
                fails.append((c + ".symmray_transpose", f"dagger(phase_dual={pd}) != conj(phase_dual={pd}).transpose(): {why}", f2))
            # the same with the oracle's graded reversal
            gh, gc = OF.gt_of(h, sym), OF.g_transpose(OF.gt_of(cj, sym), rev)
            if gh.dual != gc.dual or gh.labels != gc.labels or h.charge != cj.charge or not np.array_equal(gh.D, gc.D):
                fails.append((c + ".graded_reversal", f"dagger(phase_dual={pd}) is not the graded reversal of conj(phase_dual={pd})", f2))
            if not pd:
                ga = OF.g_dagger(gx)
                if gh.dual != ga.dual or gh.labels != ga.labels or not np.array_equal(gh.D, ga.D):
                    fails.append((c + ".adjoint", "dagger() is not the Grassmann adjoint of x", f2))
                if h.charge != G.neg(sym, x.charge):
                    fails.append((c + ".adjoint", f"dagger() has charge {h.charge!r}", f2))
        try:
            ok, why = arrays_equal(x.H, x.dagger(), why=True)
            if not ok:
                fails.append((c + ".H", f"x.H != x.dagger(): {why}", feats))
        except Exception as e:  # noqa: BLE001
            fails.append((c + ".no_exception", _exc(e), feats))
        return {"fingerprint": fp, "nontrivial": nontrivial, "failures": fails[:6], "sample": {"sym": sym, "duals": duals, "charge": a["charge"]}}
    raise ValueError(c)


def _check_network_norm(d):
    sym = d["sym"]
    legs = d["legs"]
    via = d["via"]
    arrays = [build_array(s) for s in d["tensors"]]
    allnames = [x for lg in legs for x in lg]
    out = sorted(x for x in allnames if allnames.count(x) == 1)
    fp = ("nn", sym, d.get("topo"), tuple(spec_fp(s) for s in d["tensors"]), repr(legs), via, d["flip_on"], stable_hash(repr(d["routes"])))
    feats = {"sym": sym, "topo": d.get("topo"), "via": via, "flip_on": d["flip_on"], "parities": [G.par(sym, x.charge) for x in arrays]}
    # graded-oracle value of the ket network and its norm
    gN = OF.g_network([OF.gt_of(x, sym) for x in arrays], legs, out)
    want = norm2(gN.D)
    kets, bras = [], []
    try:
        for x, lg in zip(arrays, legs):
            y = x.conj() if via == "conj" else x.dagger()
            cl = lg[::-1] if via == "dagger" else lg
            # dangling legs that are bra-like on the original tensor get a sign flip
            flips_bra = [k for k, name in enumerate(cl) if name in out and x.indices[lg.index(name)].dual]
            flips_ket = [k for k, name in enumerate(lg) if name in out and x.indices[k].dual]
            if d["flip_on"] == "bra":
                if flips_bra:
                    y = y.phase_flip(*flips_bra)
            elif flips_ket:
                x = x.phase_flip(*flips_ket)
            kets.append(x)
            bras.append(y)
    except Exception as e:  # noqa: BLE001
        return {"fingerprint": fp, "nontrivial": True, "failures": [("C10.network_norm.no_exception", _exc(e), feats)]}
    d2 = {"sym": sym, "topo": d.get("topo"), "legs": legs + doubled_legs(legs, via), "routes": d["routes"]}
    fails, g, how, results = check_network(d2, kets + bras, "C10.network_norm")
    if g.labels != () and np.any(g.D != 0):
        fails.append(("C10.network_norm.labels", f"norm network keeps labels {g.labels}", feats))
    if not np.array_equal(g.D[()], want):
        fails.append(("C10.network_norm.value", f"<N*,N> = {g.D[()]!r} (graded contraction of the conjugated tensors) but sum|N|^2 = {want!r}", feats))
    for ri, r in enumerate(results):
        v, _ = _scalar_of(r)
        if not np.array_equal(np.asarray(v), want):
            fails.append(("C10.network_norm.value", f"route {ri}: <N*,N> = {v!r}, sum|N|^2 = {want!r}", dict(feats, route=ri)))
            break
    if want < 0:
        fails.append(("C10.network_norm.positive", f"norm^2 {want!r} negative", feats))
    return {
        "fingerprint": fp,
        "nontrivial": bool(want > 0),
        "failures": fails[:6],
        "sample": {"sym": sym, "topo": d.get("topo"), "legs": legs, "via": via, "charges": [s["charge"] for s in d["tensors"]], "n_routes": len(d["routes"]), "norm2": float(want), "oracle": how},
    }


if __name__ == "__main__":
    driver_main("bounded.run_C10")
