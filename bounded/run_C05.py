"""C05 (bounded): fusing is an exact, invertible re-indexing described by the fused index.

Oracle (bounded/oracles_fuse.py) is the statement itself: axis order, fused direction,
signed combination of sub-charges, position read from the result's *own* sub-index
table (prefix sums of extents in stored order + row-major offset), exact zeros
elsewhere, bit-for-bit unfuse, insert == concat, cache on == cache off.
"""

import itertools

import numpy as np

from bounded.common import *  # noqa: F401,F403
from bounded.common import (
    G,
    Invalid,
    arrays_equal,
    audit_valid,
    build_array,
    driver_main,
    jcharge,
    rand_array_spec,
    reachable_charges,
    spec_valid_sectors,
    sr,
    ucharge,
)
from bounded.oracles_fuse import (
    abelian_equals_transposed,
    axis_plan,
    fingerprint_of,
    flatten_labels,
    fuse_layout_failures,
    nest_labels,
    ordered_group_families,
)

import symmray.abelian_core as _ac

CONTRACTS = {
    "C05.fuse_layout": (
        "y = x.fuse(*groups) for abelian (mode='insert') and fermionic arrays of rank <= 4 over Z2, Z4, U1, Z2Z2, U1U1, "
        "both directions per axis, any total charge, any non-empty subset of the valid sectors stored, every ordered family "
        "of disjoint ordered axis groups (single-axis groups, non-adjacent and permuted axes, several groups, groups "
        "containing an already fused axis): axis order, fused direction, every element found once at the position given by "
        "the result's own sub-index table, exact zeros elsewhere, Valid(y), dtype.  Fermionic: the same up to one sign per "
        "source block (the fermionic layout carries signs).",
        "quick: exhaustive for rank <= 2 (<= 2 charges per index, every index structure from a fixed list of 3-4 charge sets "
        "per symmetry, every total charge, every sector subset, every group family); rank 3 with two-charge indices: all 8 "
        "direction patterns x every total charge x every sector subset (<= 4 valid sectors, else all/one/seeded) x all 39 group "
        "families; other rank-3 index structures: 4% sample; rank 4 with two-charge indices, all 16 direction patterns, sector "
        "sets all / one / each single sector missing / seeded, 1.2-4% sample of the 316 group families; then VERIF_SEED-seeded "
        "random rank <= 4 arrays (<= 3 charges, sizes <= 3, float32/float64/complex128, pending fermionic signs) incl. nested "
        "fuses (8000 arrays).  thorough: rank-3 sample 50%, rank-4 families 50% (Z2, U1) / 15%, 150000 random arrays; "
        "stops at the time budget",
    ),
    "C05.unfuse_roundtrip": (
        "same universe: unfusing the fused axes one by one, unfuse_all(), and repeated unfuse_all() after a nested fuse "
        "restore the original (abelian: every original block bit-for-bit with the same dtype at the transposed key, extra "
        "blocks exactly zero, same indices incl. nested sub-index tables; fermionic: `val` view, labels and indices equal "
        "after transposing back)",
        "as C05.fuse_layout",
    ),
    "C05.strategies_agree": (
        "same universe, abelian arrays only (FermionicArray.fuse takes no mode argument): mode='insert', 'concat' and 'auto' "
        "give equal arrays incl. sub-index tables and dtypes; 'concat' raises nothing",
        "as C05.fuse_layout",
    ),
    "C05.cache_agree": (
        "same universe: fuse with the fuse-information cache disabled (_fuseinfo_cache_maxsize = 0), cold, warm, and warm "
        "through a *different* array object with the same structure but other data: all results equal; the warm result of "
        "the second array also satisfies the relocation oracle",
        "as C05.fuse_layout",
    ),
}

ALL_CONTRACTS = tuple(CONTRACTS)

# charge sets (<= 2 charges) used by the exhaustive strata; first entry = the two-charge set of stratum Q2
CS = {
    "Z2": [[0, 1], [0], [1]],
    "U1": [[0, 1], [-1, 1], [0], [1]],
    "Z4": [[1, 2], [1, 3], [0, 1], [3]],
    "Z2Z2": [[(0, 1), (1, 0)], [(0, 0), (1, 1)], [(0, 1)]],
    "U1U1": [[(0, 1), (1, 0)], [(0, 0), (-1, 1)], [(0, 1)]],
}
SZ = [(2, 1), (1, 2), (2, 3), (3, 2)]
SYMS_ALL = ("Z2", "U1", "Z4", "Z2Z2", "U1U1")


def _ispec(axis, cs, dual):
    return {"cm": [[jcharge(c), SZ[axis][k]] for k, c in enumerate(cs)], "dual": bool(dual)}


def _sector_subsets(valid, rng, exhaustive_upto=4, nrand=4, drop_each=False):
    """all non-empty subsets when few sectors; else all / each single / seeded subsets"""
    n = len(valid)
    if n == 0:
        return
    if n <= exhaustive_upto:
        for k in range(n, 0, -1):
            for comb in itertools.combinations(range(n), k):
                yield [valid[i] for i in comb]
        return
    yield list(valid)
    yield [valid[int(rng.integers(0, n))]]
    if drop_each:
        for i in range(n):
            yield valid[:i] + valid[i + 1 :]
    for _ in range(nrand):
        keep = [s for s in valid if rng.random() < 0.6]
        if keep and len(keep) < n:
            yield keep


def _specs_for(sym, fermionic, ispecs, rng, fill_seed, static, drop_each=False):
    for charge in reachable_charges(sym, ispecs):
        base = {
            "sym": sym,
            "fermionic": fermionic,
            "static": static and sym != "Z4",
            "indices": ispecs,
            "charge": jcharge(charge),
            "fill_seed": fill_seed,
            "dtype": "float64",
        }
        if fermionic and G.par(sym, charge):
            base["oddpos"] = 7
        valid = spec_valid_sectors(base)
        for sub in _sector_subsets(valid, rng, drop_each=drop_each):
            spec = dict(base)
            spec["sectors"] = "all" if len(sub) == len(valid) else [[jcharge(c) for c in s] for s in sub]
            yield spec


def _emit(spec, groups, pre=None):
    for c in ALL_CONTRACTS:
        if c == "C05.strategies_agree" and spec["fermionic"]:
            continue
        d = {"contract": c, "a": spec, "groups": groups}
        if pre:
            d["pre"] = pre
        yield d


_FAMILIES = {n: list(ordered_group_families(n)) for n in range(1, 5)}


def _exhaustive(tier, seed):
    quick = tier == "quick"
    n = 0
    # Q1: rank 1, 2 completely
    for sym in SYMS_ALL:
        for fermionic in (False, True):
            rng = np.random.default_rng([seed, 11, SYMS_ALL.index(sym), int(fermionic)])
            for nd in (1, 2):
                for css in itertools.product(CS[sym], repeat=nd):
                    for duals in itertools.product((False, True), repeat=nd):
                        ispecs = [_ispec(a, cs, dl) for a, (cs, dl) in enumerate(zip(css, duals))]
                        n += 1
                        for spec in _specs_for(sym, fermionic, ispecs, rng, n, static=bool(n % 2)):
                            for fam in _FAMILIES[nd]:
                                yield from _emit(spec, fam)
    # Q2: rank 3, two-charge indices, all directions x charges x sector subsets x families
    for sym in SYMS_ALL:
        for fermionic in (False, True):
            frac = 1.0
            rng = np.random.default_rng([seed, 12, SYMS_ALL.index(sym), int(fermionic)])
            for duals in itertools.product((False, True), repeat=3):
                ispecs = [_ispec(a, CS[sym][0], dl) for a, dl in enumerate(duals)]
                n += 1
                for spec in _specs_for(sym, fermionic, ispecs, rng, n, static=bool(n % 2)):
                    for fam in _FAMILIES[3]:
                        if frac < 1.0 and rng.random() >= frac:
                            continue
                        yield from _emit(spec, fam)
    # Q3: rank 3, the other index structures (sampled)
    frac = 0.04 if quick else 0.5
    for sym in SYMS_ALL:
        for fermionic in (False, True):
            rng = np.random.default_rng([seed, 13, SYMS_ALL.index(sym), int(fermionic)])
            for css in itertools.product(range(len(CS[sym])), repeat=3):
                if css == (0, 0, 0):
                    continue
                for duals in itertools.product((False, True), repeat=3):
                    ispecs = [_ispec(a, CS[sym][ci], dl) for a, (ci, dl) in enumerate(zip(css, duals))]
                    n += 1
                    for spec in _specs_for(sym, fermionic, ispecs, rng, n, static=bool(n % 2)):
                        for fam in _FAMILIES[3]:
                            if rng.random() >= frac:
                                continue
                            yield from _emit(spec, fam)


    # Q4: rank 4 (needed for a missing sub-block next to a single-axis group): two-charge indices,
    # all 16 direction patterns, sector sets = all / one / every single sector missing / seeded, sampled families
    for sym in SYMS_ALL:
        for fermionic in (False, True):
            frac = (0.04 if sym == "Z2" else 0.012) if quick else (0.5 if sym in ("Z2", "U1") else 0.15)
            rng = np.random.default_rng([seed, 15, SYMS_ALL.index(sym), int(fermionic)])
            for duals in itertools.product((False, True), repeat=4):
                ispecs = [_ispec(a, CS[sym][0], dl) for a, dl in enumerate(duals)]
                n += 1
                for spec in _specs_for(sym, fermionic, ispecs, rng, n, static=bool(n % 2), drop_each=True):
                    for fam in _FAMILIES[4]:
                        if rng.random() >= frac:
                            continue
                        yield from _emit(spec, fam)


def _rand_family(rng, nd, need_multi=False):
    fams = _FAMILIES[nd]
    for _ in range(50):
        fam = fams[int(rng.integers(0, len(fams)))]
        if not need_multi or any(len(g) > 1 for g in fam):
            return fam
    return fam


def _random(tier, seed):
    quick = tier == "quick"
    rng = np.random.default_rng([seed, 14])
    N = 8000 if quick else 150000
    for i in range(N):
        sym = SYMS_ALL[int(rng.integers(0, 5))]
        fermionic = bool(rng.integers(0, 2))
        nd = int(rng.choice([2, 3, 4, 4, 4]))
        spec = rand_array_spec(
            rng,
            sym,
            ndim=nd,
            fermionic=fermionic,
            max_charges=2 if (quick and i % 3) else 3,
            sizes=(1, 2, 3),
            sparsity=float(rng.choice([0.0, 0.3, 0.6])),
            dtype=str(rng.choice(["float64", "float64", "complex128", "float32"])),
            lazy=bool(fermionic and rng.integers(0, 2)),
        )
        if not spec["sectors"]:
            continue
        if spec["dtype"] == "complex128" and len(spec["sectors"]) > 1 and i % 4 == 0:
            spec["mixed_block_dtypes"] = True  # first stored block real, the others complex (as made by real + complex)
        kind = int(rng.integers(0, 3))
        if kind < 2 or nd < 3:
            yield from _emit(spec, _rand_family(rng, nd))
        else:
            # nested: first fuse, then a family over the new axes that contains the fused axis
            pre = _rand_family(rng, nd, need_multi=True)
            position, before, after, _ = axis_plan(nd, pre)
            nd1 = len(before) + len(pre) + len(after)
            fused_axes = [position + g for g, grp in enumerate(pre) if len(grp) > 1]
            for _ in range(50):
                fam = _rand_family(rng, nd1)
                if any(ax in fused_axes for g in fam for ax in g):
                    break
            yield from _emit(spec, fam, pre=pre)


def gen_cases(tier, seed):
    yield from _exhaustive(tier, seed)
    yield from _random(tier, seed)


# ----------------------------------------------------------------------------


def _fuse(x, groups, fermionic, mode=None):
    gs = [tuple(g) for g in groups]
    if fermionic or mode is None:
        return x.fuse(*gs)
    return x.fuse(*gs, mode=mode)


def _features(d, x, groups, **kw):
    f = {
        "sym": d["a"]["sym"],
        "fermionic": bool(d["a"]["fermionic"]),
        "ndim": len(x.indices),
        "n_groups": len(groups),
        "has_singlet_group": any(len(g) == 1 for g in groups),
        "singlet_last": len(groups[-1]) == 1,
        "nested": bool(d.get("pre")),
        "sparse": d["a"].get("sectors", "all") != "all",
        "mixed_block_dtypes": bool(d["a"].get("mixed_block_dtypes")),
    }
    f.update(kw)
    return f


def _full_unfuse(y):
    w = y
    for _ in range(6):
        if not any(ix.subinfo is not None for ix in w.indices):
            break
        w = w.unfuse_all()
    return w


def _cmp_restored(z, x, perm, fermionic, what):
    if not fermionic:
        return abelian_equals_transposed(z, x, perm, what)
    fails = []
    if len(z.indices) != len(perm):
        return [("C05.unfuse_restores", f"{what}: {len(z.indices)} axes, expected {len(perm)}")]
    inv = [perm.index(a) for a in range(len(perm))]
    w = z.transpose(tuple(inv))
    ok, why = arrays_equal(w, x, exact=True, check_subinfo=True, why=True)
    if not ok:
        fails.append(("C05.unfuse_restores", f"{what}: {why}"))
    for s in x.blocks:
        if s not in w.blocks:
            fails.append(("C05.unfuse_restores", f"{what}: original block {s!r} is missing"))
        elif np.asarray(w.blocks[s]).dtype != np.result_type(*[np.asarray(b).dtype for b in x.blocks.values()]):
            # the element type of the block itself, or -- for an array mixing element types -- their common type
            fails.append(("C05.unfuse_restores", f"{what}: dtype of block {s!r} changed"))
    try:
        audit_valid(z)
    except Invalid as e:
        fails.append(("C05.valid", f"{what}: invalid: {e}"))
    return fails


def check_case(d):
    contract = d["contract"]
    spec = d["a"]
    fermionic = bool(spec["fermionic"])
    groups = [list(g) for g in d["groups"]]
    pre = d.get("pre")
    x0 = build_array(spec)
    try:
        x = x0.fuse(*[tuple(g) for g in pre]) if pre else x0
    except Exception as e:  # noqa: BLE001
        return {
            "fingerprint": fingerprint_of(d),
            "nontrivial": True,
            "failures": [("C05.no_exception", f"preparatory fuse{pre} raised {type(e).__name__}: {e}", {"nested": True, "exception": type(e).__name__, "stage": "pre"})],
            "sample": None,
        }
    fails = []
    feats = _features(d, x, groups)

    def add(ob, what, **kw):
        f = dict(feats)
        f.update(kw)
        fails.append((ob, what, f))

    nd = len(x.indices)
    position, before, after, perm = axis_plan(nd, groups)

    if contract == "C05.fuse_layout":
        try:
            y = _fuse(x, groups, fermionic, "insert")
        except Exception as e:  # noqa: BLE001
            add("C05.no_exception", f"{type(e).__name__}: {e}", mode="insert", exception=type(e).__name__)
            y = None
        if y is not None:
            fl, info = fuse_layout_failures(x, y, groups, signed=fermionic)
            for ob, what in fl[:4]:
                add(ob, what, mode="insert", missing_subblock=info["missing_subblock"])
            if not fermionic and type(y) is not type(x):
                add("C05.class", f"class changed {type(x).__name__} -> {type(y).__name__}")
            # fusing in place gives the same array (and returns the receiver)
            try:
                xc = x.copy()
                gs = [tuple(g) for g in groups]
                y2 = xc.fuse(*gs, inplace=True) if fermionic else xc.fuse(*gs, mode="insert", inplace=True)
                if y2 is not xc:
                    add("C05.inplace_equals_out_of_place", "fuse(inplace=True) did not return the receiver", mode="insert")
                else:
                    ok2, why2 = arrays_equal(y2, y, exact=True, check_subinfo=True, why=True)
                    if not ok2:
                        add("C05.inplace_equals_out_of_place", f"fuse(inplace=True) differs from fuse(): {why2}", mode="insert")
            except Exception as e:  # noqa: BLE001
                add("C05.no_exception", f"inplace: {type(e).__name__}: {e}", mode="insert", exception=type(e).__name__)

    elif contract == "C05.unfuse_roundtrip":
        try:
            y = _fuse(x, groups, fermionic, "insert")
            z = y
            for g in reversed(range(len(groups))):
                if len(groups[g]) > 1:
                    z = z.unfuse(position + g)
            for ob, what in _cmp_restored(z, x, perm, fermionic, "unfuse of each fused axis")[:3]:
                add(ob, what)
            if not any(ix.subinfo is not None for ix in x.indices):
                za = y.unfuse_all()
                for ob, what in _cmp_restored(za, x, perm, fermionic, "unfuse_all")[:3]:
                    add(ob, what)
            if pre:
                w = _full_unfuse(y)
                e1 = nest_labels(list(range(len(x0.indices))), pre)
                e2 = nest_labels(e1, groups)
                order = flatten_labels(e2)
                for ob, what in _cmp_restored(w, x0, order, fermionic, "repeated unfuse_all after nested fuse")[:3]:
                    add(ob, what)
        except Exception as e:  # noqa: BLE001
            add("C05.no_exception", f"{type(e).__name__}: {e}", exception=type(e).__name__)

    elif contract == "C05.strategies_agree":
        y_ins = _fuse(x, groups, False, "insert")
        for mode in ("concat", "auto"):
            try:
                y_m = _fuse(x, groups, False, mode)
            except Exception as e:  # noqa: BLE001
                _, info = fuse_layout_failures(x, y_ins, groups)
                add(
                    f"C05.{mode}_no_exception",
                    f"{type(e).__name__}: {e}",
                    mode=mode,
                    exception=type(e).__name__,
                    missing_subblock=info["missing_subblock"],
                )
                continue
            ok, why = arrays_equal(y_ins, y_m, exact=True, check_subinfo=True, why=True)
            if not ok:
                add("C05.strategies_equal", f"insert vs {mode}: {why}", mode=mode)
            elif not d["a"].get("mixed_block_dtypes"):
                # (an array mixing real and complex blocks may come back with every fused block in the common
                # type from one strategy and only the fused blocks that contain complex data from the other: both
                # hold the same values; no property prescribes which)
                for k, b in y_ins.blocks.items():
                    bm = y_m.blocks.get(k)
                    if bm is not None and np.asarray(bm).dtype != np.asarray(b).dtype:
                        add("C05.strategies_equal", f"insert vs {mode}: dtype of block {k!r} differs", mode=mode)
                        break

    elif contract == "C05.cache_agree":
        old = _ac._fuseinfo_cache_maxsize
        try:
            _ac._fuseinfo_cache_maxsize = 0
            _ac._fuseinfos.clear()
            y0 = _fuse(x, groups, fermionic)
            spec2 = dict(spec)
            spec2["fill_seed"] = int(spec.get("fill_seed", 0)) + 1
            xb0 = build_array(spec2)
            xb = xb0.fuse(*[tuple(g) for g in pre]) if pre else xb0
            yb0 = _fuse(xb, groups, fermionic)
            _ac._fuseinfo_cache_maxsize = 8192
            _ac._fuseinfos.clear()
            y1 = _fuse(x, groups, fermionic)
            y2 = _fuse(x, groups, fermionic)
            yb1 = _fuse(xb, groups, fermionic)
            for nm, u, v in (("cold", y0, y1), ("warm", y0, y2), ("warm, other array object", yb0, yb1)):
                ok, why = arrays_equal(u, v, exact=True, check_subinfo=True, why=True)
                if not ok:
                    add("C05.cache_equal", f"cache disabled vs {nm}: {why}", history=nm)
            fl, info = fuse_layout_failures(xb, yb1, groups, signed=fermionic)
            for ob, what in fl[:3]:
                add(ob, "warm cache through other array: " + what, history="warm-other")
        except Exception as e:  # noqa: BLE001
            add("C05.no_exception", f"{type(e).__name__}: {e}", exception=type(e).__name__)
        finally:
            _ac._fuseinfo_cache_maxsize = old
            _ac._fuseinfos.clear()
    else:
        raise ValueError(contract)

    return {
        "fingerprint": fingerprint_of(d),
        "nontrivial": len(x.blocks) > 0,
        "failures": fails[:6],
        "sample": {"sym": spec["sym"], "fermionic": fermionic, "ndim": nd, "groups": groups, "pre": pre, "n_blocks": len(x.blocks)},
    }


if __name__ == "__main__":
    driver_main("bounded.run_C05")
