"""Oracles and case universes shared by the bounded drivers C02, C06 and C08.

Nothing here calls the symmray function under test: expected values are computed with
numpy on the independent densifier of ``common`` (`val_blocks`, sorted charge order),
extended to *embed* an array into a larger charge table (the meaning of an index that
lacks a charge is "that charge has only zeros").
"""

import itertools

import numpy as np

from bounded.common import (
    CHARGE_SETS,
    G,
    Invalid,
    audit_valid,
    conj_index_spec,
    dense_of,
    fill_block,
    jcharge,
    nonempty_subsets,
    rand_array_spec,
    rand_index_spec,
    reachable_charges,
    spec_valid_sectors,
    sr,
    stable_hash,
    ucharge,
    val_blocks,
)

MODES = ("auto", "fused", "blockwise")
ALL_SYMS = ("Z2", "U1", "Z2Z2", "U1U1", "Z4")

# ----------------------------------------------------------------------------
# dense views over explicit charge tables


def tables_of(x):
    return [dict(ix.chargemap) for ix in x.indices]


def merge_tables(t1, t2):
    out = dict(t1)
    for c, d in t2.items():
        if c in out and out[c] != d:
            raise ValueError(f"harness: conflicting sizes for charge {c!r}: {out[c]} vs {d}")
        out[c] = d
    return out


def offsets(table):
    offs, o = {}, 0
    for c in sorted(table):
        offs[c] = o
        o += table[c]
    return offs, o


def rand_dtype(rng):
    """float64 / complex128 mostly, single precision sometimes (fills are small integers: exact in every dtype)"""
    r = rng.random()
    return "float64" if r < 0.45 else "complex128" if r < 0.75 else "complex64" if r < 0.9 else "float32"


def dense_on(x, tables, dtype=None):
    """Dense form of `x` over the given per-axis charge tables (supersets of x's own):
    charges sorted per axis, pending fermionic signs multiplied in, absent = zero."""
    offs = [offsets(t) for t in tables]
    vb = val_blocks(x)
    if dtype is None:
        dtype = np.result_type(*[b.dtype for b in vb.values()]) if vb else np.float64
    out = np.zeros(tuple(o[1] for o in offs), dtype=dtype)
    for s, b in vb.items():
        sl = tuple(slice(offs[i][0][c], offs[i][0][c] + tables[i][c]) for i, c in enumerate(s))
        out[sl] = b
    return out


def restrict(full, full_tables, sub_tables):
    """(full restricted to the charges of sub_tables, whether everything outside is exactly zero)"""
    if full.ndim == 0:
        return full, True
    keep = []
    for ft, st in zip(full_tables, sub_tables):
        offs, _ = offsets(ft)
        pos = []
        for c in sorted(st):
            pos.extend(range(offs[c], offs[c] + ft[c]))
        keep.append(np.array(pos, dtype=int))
    ix = np.ix_(*keep)
    sub = full[ix]
    mask = np.ones(full.shape, dtype=bool)
    mask[ix] = False
    return sub, not full[mask].any()


def stored_mask(x):
    """Boolean mask (over dense_of(x)) of the positions covered by stored blocks."""
    tabs = tables_of(x)
    offs = [offsets(t) for t in tabs]
    m = np.zeros(tuple(o[1] for o in offs), dtype=bool)
    for s in x.blocks:
        sl = tuple(slice(offs[i][0][c], offs[i][0][c] + tabs[i][c]) for i, c in enumerate(s))
        m[sl] = True
    return m


def compare_with_dense(res, full, full_tables, exp_duals, exp_charge):
    """Compare a symmray result with the expected full dense result.  The result's
    index tables may have dropped charges: compare on the charges it keeps and require
    everything it dropped to be exactly zero.  Returns [(suffix, message)]."""
    fails = []
    if not isinstance(res, sr.AbelianArray):
        return [("type", f"result is {type(res).__name__}, not an array")]
    if res.ndim != full.ndim:
        return [("rank", f"result rank {res.ndim} != {full.ndim}")]
    if res.charge != exp_charge:
        fails.append(("charge", f"result charge {res.charge!r} != {exp_charge!r}"))
    try:
        audit_valid(res)
    except Invalid as e:
        fails.append(("valid", str(e)))
        return fails
    rt = tables_of(res)
    for i, t in enumerate(rt):
        bad = [c for c, d in t.items() if full_tables[i].get(c) != d]
        if bad:
            fails.append(("index_table", f"axis {i}: charges {bad} not in / differ from the operand's table {full_tables[i]}"))
            return fails
        if bool(res.indices[i].dual) != bool(exp_duals[i]):
            fails.append(("index_dual", f"axis {i}: direction {res.indices[i].dual} != {exp_duals[i]}"))
    sub, dz = restrict(full, full_tables, rt)
    got = dense_of(res)
    if got.shape != sub.shape or not np.array_equal(got, sub):
        fails.append(("values", f"dense(result) != dense contraction on the kept charges (shape {got.shape} vs {sub.shape})"))
    bad_dt = sorted({str(np.asarray(b).dtype) for b in res.blocks.values()} - {str(full.dtype)})
    if bad_dt:
        fails.append(("dtype", f"result blocks have dtype {bad_dt}, the dense contraction has {full.dtype}"))
    if not dz:
        fails.append(("dropped_nonzero", "result index dropped a charge whose dense rows are not all zero"))
    return fails


def norm_axes(axes, na, nb):
    if isinstance(axes, int):
        return tuple(range(na - axes, na)), tuple(range(axes))
    return tuple(x % na for x in axes[0]), tuple(x % nb for x in axes[1])


def expected_tensordot(a, b, axes):
    """np.tensordot of the dense forms, contracted indices embedded into the union of
    the two tables.  Returns (dense, free tables, free directions)."""
    na, nb = a.ndim, b.ndim
    axa, axb = norm_axes(axes, na, nb)
    ta, tb = tables_of(a), tables_of(b)
    for i, j in zip(axa, axb):
        u = merge_tables(ta[i], tb[j])
        ta[i] = u
        tb[j] = u
    A = dense_on(a, ta)
    B = dense_on(b, tb)
    npaxes = axes if isinstance(axes, int) else (list(axes[0]), list(axes[1]))
    full = np.tensordot(A, B, npaxes)
    fa = [i for i in range(na) if i not in axa]
    fb = [j for j in range(nb) if j not in axb]
    tabs = [ta[i] for i in fa] + [tb[j] for j in fb]
    duals = [a.indices[i].dual for i in fa] + [b.indices[j].dual for j in fb]
    return full, tabs, duals


def scalar_equal(got, want):
    g = np.asarray(got)
    return g.shape == () and bool(g == want)


# ----------------------------------------------------------------------------
# small-scope universes


def small_pool(sym, n=2):
    return CHARGE_SETS[sym][:n]


FIXED_SIZES = (2, 1, 3, 1, 2)


def small_index_specs(sym, npool=2, vary_sizes=False, max_charges=2):
    """All index structures with <= max_charges charges from the first `npool` charges."""
    pool = small_pool(sym, npool)
    out = []
    for cs in nonempty_subsets(list(range(len(pool))), max_charges):
        if vary_sizes:
            szs_all = list(itertools.product((1, 2), repeat=len(cs)))
        else:
            szs_all = [tuple(FIXED_SIZES[j] for j in cs)]
        for szs in szs_all:
            for d in (False, True):
                out.append({"cm": [[jcharge(pool[j]), s] for j, s in zip(cs, szs)], "dual": d})
    return out


def sector_subsets(valid, key, n_extra=2, include_empty=False):
    """Every non-empty subset when <= 4 valid sectors, else 'all', one, and a few seeded subsets."""
    n = len(valid)
    out = []
    if include_empty or n == 0:
        out.append([])
    if n == 0:
        return out
    if n <= 4:
        for sub in nonempty_subsets(list(range(n))):
            out.append("all" if len(sub) == n else [valid[i] for i in sub])
        return out
    out.append("all")
    rng = np.random.default_rng(stable_hash(("subsets", key)))
    out.append([valid[int(rng.integers(0, n))]])
    for _ in range(n_extra):
        keep = [s for s in valid if rng.random() < 0.5]
        if keep and len(keep) < n:
            out.append(keep)
    return out


def jsectors(sub):
    return sub if sub == "all" else [[jcharge(c) for c in s] for s in sub]


def cap_list(items, cap):
    """Deterministically thin a list to <= cap entries keeping the first and the last."""
    if cap is None or len(items) <= cap:
        return items
    if cap == 1:
        return [items[-1]]
    pick = sorted({round(i * (len(items) - 1) / (cap - 1)) for i in range(cap)})
    return [items[i] for i in pick]


def gen_small_arrays(sym, ndim, idx_specs, seed=0, fermionic=False, include_empty=False, n_extra=2, charges="all", subset_cap=None):
    """All arrays over `idx_specs`^ndim x reachable total charges x sector subsets."""
    for idxs in itertools.product(idx_specs, repeat=ndim):
        idxs = list(idxs)
        reach = reachable_charges(sym, idxs) if ndim else [G.zero(sym)]
        if charges == "zero":
            reach = [c for c in reach if c == G.zero(sym)]
        for ch in reach:
            h = stable_hash((sym, idxs, ch))
            base = {
                "sym": sym,
                "fermionic": fermionic,
                "static": bool(h & 1),
                "indices": idxs,
                "charge": jcharge(ch),
                "dtype": "complex128" if (h >> 1) & 1 else "float64",
            }
            valid = spec_valid_sectors(base)
            for sub in cap_list(sector_subsets(valid, (sym, idxs, ch), n_extra=n_extra, include_empty=include_empty), subset_cap):
                spec = dict(base)
                spec["sectors"] = jsectors(sub)
                spec["fill_seed"] = (h ^ seed) & 0x7FFFFFFF
                yield spec


def sub_table_variants(ispec, sym, pool):
    """Tables for the partner of a contracted index: same, a strict sub-table (partner lacks
    a charge), a strict super-table (partner has an extra charge)."""
    out = [("same", ispec["cm"])]
    if len(ispec["cm"]) >= 2:
        out.append(("partner_sub", ispec["cm"][:1]))
        out.append(("partner_sub", ispec["cm"][1:]))
    have = [ucharge(c) for c, _ in ispec["cm"]]
    extra = [c for c in pool if c not in have]
    if extra:
        c = extra[0]
        out.append(("partner_super", ispec["cm"] + [[jcharge(c), FIXED_SIZES[pool.index(c) % len(FIXED_SIZES)]]]))
    return out


def make_b_specs(sym, a_spec, axes_a, axes_b, nb, free_specs, pool, variant, seed=0, n_extra=1):
    """b operands for a given a: contracted indices = conj of a's (per `variant` for the first
    contracted pair), free indices from free_specs, every reachable charge x sector subsets."""
    k = len(axes_a)
    contracted = {}
    for n_, (i, j) in enumerate(zip(axes_a, axes_b)):
        isp = a_spec["indices"][i]
        cm = isp["cm"]
        if n_ == 0 and variant is not None:
            cm = variant
        contracted[j] = {"cm": cm, "dual": not isp["dual"]}
    free_pos = [j for j in range(nb) if j not in contracted]
    for frees in itertools.product(free_specs, repeat=len(free_pos)):
        idxs = [None] * nb
        for j, isp in contracted.items():
            idxs[j] = isp
        for j, isp in zip(free_pos, frees):
            idxs[j] = isp
        reach = reachable_charges(sym, idxs) if nb else [G.zero(sym)]
        for ch in reach:
            h = stable_hash((sym, idxs, ch, "b"))
            base = {
                "sym": sym,
                "fermionic": a_spec.get("fermionic", False),
                "static": bool(h & 1),
                "indices": idxs,
                "charge": jcharge(ch),
                "dtype": a_spec.get("dtype", "float64"),
            }
            valid = spec_valid_sectors(base)
            for sub in sector_subsets(valid, (sym, idxs, ch, "b"), n_extra=n_extra):
                spec = dict(base)
                spec["sectors"] = jsectors(sub)
                spec["fill_seed"] = (h ^ seed ^ 0x5A5A) & 0x7FFFFFFF
                yield spec


def gen_small_pairs(sym, na, nb, k, idx_specs, pool, seed=0, variants=True, orders="all"):
    """Exhaustive small-scope pair universe: yields (a_spec, b_spec, axes, variant_name)."""
    for a_spec in gen_small_arrays(sym, na, idx_specs, seed=seed, n_extra=1):
        if orders == "all":
            aa = list(itertools.permutations(range(na), k))
        else:
            aa = list(itertools.combinations(range(na), k))
        for axes_a in aa:
            for axes_b in itertools.permutations(range(nb), k):
                if k and variants:
                    var = sub_table_variants(a_spec["indices"][axes_a[0]], sym, pool)
                else:
                    var = [("same", None)]
                for vname, vcm in var:
                    for b_spec in make_b_specs(sym, a_spec, axes_a, axes_b, nb, idx_specs, pool, vcm, seed=seed):
                        yield a_spec, b_spec, [list(axes_a), list(axes_b)], vname


# ----------------------------------------------------------------------------
# random pairs


def fuse_axis_map(ndim, group):
    """Where each axis goes when `group` is fused (fused axis lands at min(group))."""
    pos = min(group)
    before = [ax for ax in range(pos) if ax not in group]
    after = [ax for ax in range(pos, ndim) if ax not in group]
    m = {ax: ax for ax in before}
    for ax in group:
        m[ax] = pos
    for j, ax in enumerate(after):
        m[ax] = pos + 1 + j
    return m, len(before) + 1 + len(after)


def rand_partner_cm(rng, sym, ispec, p_sub=0.3):
    """Table of the partner of a contracted index: same / strict sub-table / with an extra charge."""
    cm = ispec["cm"]
    r = rng.random()
    if r < p_sub / 2 and len(cm) >= 2:
        keep = sorted(rng.choice(len(cm), size=int(rng.integers(1, len(cm))), replace=False).tolist())
        return [cm[i] for i in keep], "partner_sub"
    if r < p_sub:
        have = [ucharge(c) for c, _ in cm]
        extra = [c for c in CHARGE_SETS[sym] if c not in have]
        if extra:
            c = extra[int(rng.integers(0, len(extra)))]
            new = cm + [[jcharge(c), int(rng.integers(1, 4))]]
            new.sort(key=lambda e: ucharge(e[0]))
            return new, "partner_super"
    return cm, "same"


def rand_pair(
    rng,
    sym,
    fermionic=False,
    max_ndim=4,
    max_k=3,
    prefuse=False,
    dtype=None,
    axes_style=True,
    min_k=0,
    lazy=False,
    sparsity=0.35,
    max_charges=3,
    sizes=(1, 2, 3),
    int_prob=0.15,
):
    """A random contractible pair.  Returns dict(a=spec, b=spec, axes=..., variant=..., prefused=None|('a'|'b', group))."""
    for _ in range(100):
        na = int(rng.integers(1, max_ndim + 1))
        nb = int(rng.integers(1, max_ndim + 1))
        if rng.random() < 0.04:
            na = 0
        if rng.random() < 0.04:
            nb = 0
        hi = min(na, nb, max_k)
        if hi < min_k:
            continue
        k = int(rng.integers(min_k, hi + 1))
        if prefuse and max(na, nb) - k < 2:
            continue
        break
    else:
        raise RuntimeError("harness: could not draw a pair")
    axes_a = rng.choice(na, size=k, replace=False).tolist() if k else []
    axes_b = rng.choice(nb, size=k, replace=False).tolist() if k else []
    use_int = axes_style and rng.random() < int_prob
    if use_int:
        axes_a = list(range(na - k, na))
        axes_b = list(range(k))
    if dtype is None:
        dtype = rand_dtype(rng)
    dta = dtb = dtype
    if rng.random() < 0.1:
        dtb = {"float64": "complex128", "complex128": "float64", "float32": "complex64", "complex64": "float32"}[dta]
    ia = [rand_index_spec(rng, sym, max_charges, sizes) for _ in range(na)]
    ib = [rand_index_spec(rng, sym, max_charges, sizes) for _ in range(nb)]
    variant = "same"
    for i, j in zip(axes_a, axes_b):
        cm, v = rand_partner_cm(rng, sym, ia[i])
        if v != "same":
            variant = v
        ib[j] = {"cm": cm, "dual": not ia[i]["dual"]}
    a = rand_array_spec(rng, sym, fermionic=fermionic, indices=ia, dtype=dta, odd_label=1, lazy=lazy, sparsity=sparsity)
    b = rand_array_spec(rng, sym, fermionic=fermionic, indices=ib, dtype=dtb, odd_label=2, lazy=lazy, sparsity=sparsity)
    if rng.random() < 0.03:
        (a if rng.random() < 0.5 else b)["sectors"] = []
    raw_axes = [list(map(int, axes_a)), list(map(int, axes_b))]
    if use_int:
        axes = k
    else:
        axes = raw_axes
        if axes_style:
            axes = [
                [ax - na if rng.random() < 0.25 else ax for ax in raw_axes[0]],
                [ax - nb if rng.random() < 0.25 else ax for ax in raw_axes[1]],
            ]
    out = {"a": a, "b": b, "axes": axes, "raw_axes": raw_axes, "variant": variant, "prefuse": None}
    if prefuse:
        cands = []
        if na - k >= 2:
            cands.append("a")
        if nb - k >= 2:
            cands.append("b")
        which = cands[int(rng.integers(0, len(cands)))]
        nd, axes_c = (na, axes_a) if which == "a" else (nb, axes_b)
        free = [ax for ax in range(nd) if ax not in axes_c]
        g = int(rng.integers(2, len(free) + 1))
        group = [int(v) for v in rng.permutation(free)[:g]]
        fm = None if fermionic else ("auto", "insert", "concat")[int(rng.integers(0, 3))]
        out["prefuse"] = {"which": which, "group": group, "lone": len(free) == g, "fuse_mode": fm}
    return out


def prefused_version(p):
    """(a', b', axes') where the operand p['prefuse']['which'] has its free-leg group fused
    beforehand (as a pre_op) and the contraction axes are renumbered accordingly."""
    pf = p["prefuse"]
    a, b = dict(p["a"]), dict(p["b"])
    spec = a if pf["which"] == "a" else b
    nd = len(spec["indices"])
    m, _ = fuse_axis_map(nd, pf["group"])
    op = ["fuse", [pf["group"]]]
    if pf.get("fuse_mode") is not None:
        op.append({"mode": pf["fuse_mode"]})
    spec["pre_ops"] = list(spec.get("pre_ops", [])) + [op]
    axa, axb = p["raw_axes"]
    if pf["which"] == "a":
        axa = [m[ax] for ax in axa]
    else:
        axb = [m[ax] for ax in axb]
    return a, b, [axa, axb]


# ----------------------------------------------------------------------------
# fingerprints


def spec_struct(spec):
    """Structure of an array spec up to fill data."""
    s = spec.get("sectors", "all")
    return (
        spec["sym"],
        bool(spec.get("fermionic", False)),
        bool(spec.get("static", True)),
        repr(spec["indices"]),
        repr(spec.get("charge")),
        "all" if s == "all" else repr(sorted(map(repr, s))),
        spec.get("dtype", "float64"),
        repr(spec.get("pre_ops", [])),
        repr(spec.get("oddpos")),
    )


# ----------------------------------------------------------------------------
# block vectors


def build_vector(vspec):
    """{"blocks": [[charge, size], ...], "fill_seed", "dtype"} -> BlockVector"""
    blocks = {}
    for c, d in vspec["blocks"]:
        c = ucharge(c)
        blocks[c] = fill_block(vspec.get("fill_seed", 0), ("vec", c), (int(d),), vspec.get("dtype", "float64"))
    return sr.BlockVector(blocks)


def vector_struct(vspec):
    return (repr(vspec["blocks"]), vspec.get("dtype", "float64"))
