"""C20 (bounded): element type and precision are preserved.

For float32, float64, complex64, complex128 and every public operation: every block of
every result (also the entirely-zero ones created to fill missing sectors) has the dtype
of the input data (the real counterpart for singular values, eigenvalues and norms), the
dense result has the same dtype, and complex data keeps its imaginary parts: structural
operations preserve the multiset of (|re|, |im|) of the non-zero elements exactly,
arithmetic / contractions are compared exactly (integer-valued data) with numpy on the
harness' dense form where that is defined without fermionic signs, and decompositions
must reconstruct within 1e-9 (1e-4 for 32-bit).  A numpy ComplexWarning is an error.
"""

import itertools
import warnings

import numpy as np

from bounded.common import *  # noqa: F401,F403
from bounded.common import (
    G,
    apply_op,
    arrays_equal,
    build_array,
    conj_index_spec,
    dense_of,
    driver_main,
    fill_block,
    index_offsets,
    jcharge,
    rand_array_spec,
    rand_index_spec,
    spec_valid_sectors,
    sr,
    ucharge,
    val_blocks,
)
from bounded.oracles_linalg import (
    ALL_SYMS,
    REAL_OF,
    TOL,
    build_matrix,
    call,
    contract,
    has_subinfo,
    herm_matrix,
    mat_fp,
    random_matrix,
    rich_indices,
    forces_zero_fill,
    same_up_to_dropped_charges,
    solve_system,
    spec_fp,
)

DTYPES = ("float32", "float64", "complex64", "complex128")

CONTRACTS = {
    "C20.structural": (
        "transpose, conj, dagger, fuse (abelian: insert and concat; fermionic: default), unfuse, reshape, to_dense, fill_missing_blocks, "
        "squeeze, expand_dims, phase_sync, negation on rank 1-4 abelian and fermionic arrays over the five symmetries with ~50% missing sectors, 4 dtypes",
        "seeded random structures, fixed part + VERIF_SEED part; dtype of every result block + exact multiset of (|re|,|im|)",
    ),
    "C20.arithmetic": (
        "+ - * / (array-array and python scalars), tensordot (fused and blockwise), @, einsum, trace, multiply_diagonal, norm; misaligned sparse operands; 4 dtypes; abelian and fermionic",
        "seeded random; dtype of every result block / scalar; exact comparison with numpy on the dense form (contractions, traces: abelian only)",
    ),
    "C20.entry_points": (
        "get_random_fill_fn / cls.random with scale and loc given as python float, numpy float64 / float32 scalar or 0-d value, 4 dtypes, 2 distributions (block, fused block and dense dtype); "
        "from_dense with numpy-integer charge labels (Z2, Z2Z2; abelian and fermionic) followed by transpose, conj, fuse, to_dense, negation and -- fermionic -- conj / dagger with phase_dual, phase_flip, each followed by phase_sync / to_dense",
        "enumerated combinations; dtype of every result block",
    ),
    "C20.linalg": (
        "qr (plain, stabilised), svd, svd_truncated (4 absorbs, with and without truncation), eigh, solve on the C11 matrix universe incl. fused matrices; 4 dtypes; abelian and fermionic",
        "seeded random; factor dtypes (real counterpart for singular values / eigenvalues), reconstruction within 1e-9 / 1e-4",
    ),
}

STRUCT_OPS = ("transpose", "conj", "dagger", "fuse_insert", "fuse_concat", "fuse_default", "unfuse", "reshape", "to_dense", "fill_missing", "squeeze", "expand_dims", "phase_sync", "neg", "copy_ops")
ARITH_OPS = ("add", "sub", "mul", "scalar_mul", "scalar_div", "scalar_cmul", "tensordot_fused", "tensordot_blockwise", "tensordot_auto", "matmul", "matvec", "einsum", "trace", "multiply_diagonal", "norm")
LINALG_OPS = ("qr", "qr_stab", "svd", "svd_truncated", "eigh", "solve")

_GROUPS = {
    2: [[[0, 1]], [[1, 0]]],
    3: [[[0, 1]], [[1, 2]], [[2, 0]], [[0, 1, 2]], [[0, 2], [1]], [[0], [1, 2]]],
    4: [[[0, 1], [2, 3]], [[0, 2], [1, 3]], [[1, 2]], [[3, 0], [2, 1]], [[0, 1, 2]], [[0], [1, 2, 3]]],
}
_GROUPS_MULTI = {  # every group has >= 2 axes (concat mode with single-axis groups is finding F6, property C05)
    2: [[[0, 1]], [[1, 0]]],
    3: [[[0, 1]], [[1, 2]], [[2, 0]], [[0, 1, 2]]],
    4: [[[0, 1], [2, 3]], [[0, 2], [1, 3]], [[1, 2]], [[3, 0], [2, 1]], [[0, 1, 2]]],
}


def _arr(rng, sym, fermionic, dtype, nd, sparsity=0.5, sizes=(1, 2), max_charges=2, **kw):
    if "indices" not in kw and nd >= 2 and rng.random() < 0.75:
        kw["indices"] = rich_indices(rng, sym, nd, sizes)
        sparsity = min(sparsity, 0.4)
    return rand_array_spec(rng, sym, ndim=nd, fermionic=fermionic, max_charges=max_charges, sizes=sizes, sparsity=sparsity, dtype=dtype, lazy=fermionic and rng.random() < 0.5, **kw)


def _gen_struct(rng, op, sym, fermionic, dtype):
    d = {"contract": "C20.structural", "op": op}
    nd = int(rng.integers(2, 5))
    if op == "transpose":
        d["a"] = _arr(rng, sym, fermionic, dtype, nd)
        d["perm"] = rng.permutation(nd).tolist()
    elif op in ("conj", "dagger"):
        d["a"] = _arr(rng, sym, fermionic, dtype, nd)
        if fermionic:
            d["kw"] = {"phase_dual": bool(rng.integers(0, 2))}
    elif op in ("fuse_insert", "fuse_concat", "fuse_default"):
        pool = _GROUPS_MULTI if op == "fuse_concat" else _GROUPS
        for _ in range(8):  # prefer structures where fusing has to create zeros
            nd = int(rng.integers(2, 5))
            d["a"] = _arr(rng, sym, fermionic, dtype, nd, max_charges=3 if nd < 4 else 2)
            d["groups"] = pool[nd][int(rng.integers(0, len(pool[nd])))]
            if forces_zero_fill(d["a"], d["groups"]):
                break
    elif op == "unfuse":
        nd = int(rng.integers(3, 5))
        a = _arr(rng, sym, fermionic, dtype, nd)
        g = _GROUPS[nd][int(rng.integers(0, len(_GROUPS[nd])))]
        a["pre_ops"] = list(a.get("pre_ops", ())) + [["fuse", g]]
        d["a"] = a
        d["axis"] = min(min(x) for x in g) + [len(x) > 1 for x in g].index(True)
    elif op == "reshape":
        nd = int(rng.integers(3, 5))
        d["a"] = _arr(rng, sym, fermionic, dtype, nd)
        d["k"] = int(rng.integers(0, nd - 1))
    elif op in ("to_dense", "fill_missing", "neg", "copy_ops"):
        d["a"] = _arr(rng, sym, fermionic, dtype, int(rng.integers(1, 5)), sparsity=0.6)
    elif op == "squeeze":
        a = _arr(rng, sym, fermionic, dtype, nd - 1)
        ax = int(rng.integers(0, nd))
        a["pre_ops"] = list(a.get("pre_ops", ())) + [["expand_dims", ax]]
        d["a"] = a
        d["axis"] = ax
    elif op == "expand_dims":
        d["a"] = _arr(rng, sym, fermionic, dtype, nd - 1)
        d["axis"] = int(rng.integers(0, nd))
    elif op == "phase_sync":
        a = _arr(rng, sym, True, dtype, nd)
        a["pre_ops"] = list(a.get("pre_ops", ())) + [["phase_flip", [0]], ["phase_global"]]
        d["a"] = a
    a = d["a"]
    if "complex" in dtype and op in ("fuse_insert", "fuse_concat", "fuse_default", "reshape", "transpose", "conj", "to_dense", "copy_ops") and not a.get("pre_ops") and a.get("sectors") and (a["sectors"] == "all" or len(a["sectors"]) > 1) and rng.random() < 0.15:
        # as made by  real_array + complex_array : the first stored block is real, the others complex
        a["mixed_block_dtypes"] = True
    return d


def _pair(rng, sym, fermionic, dtype, nda, ndb, ncon):
    """Two arrays whose last `ncon` (a) / first `ncon` (b) indices are mutually conjugate."""
    a = _arr(rng, sym, fermionic, dtype, nda, odd_label=3)
    con = [conj_index_spec(i) for i in a["indices"][nda - ncon :]]
    rest = [rand_index_spec(rng, sym, 2, (1, 2)) for _ in range(ndb - ncon)]
    b = _arr(rng, sym, fermionic, dtype, ndb, indices=con + rest, odd_label=8)
    return a, b


def _gen_arith(rng, op, sym, fermionic, dtype):
    d = {"contract": "C20.arithmetic", "op": op}
    if op in ("add", "sub", "mul"):
        a = _arr(rng, sym, fermionic, dtype, int(rng.integers(1, 4)), odd_label=4)
        b = dict(a, fill_seed=int(rng.integers(0, 2**31 - 1)))
        if op != "sub":
            valid = spec_valid_sectors(a)
            keep = [s for s in valid if rng.random() < 0.6] or valid[:1]
            b["sectors"] = [[jcharge(c) for c in s] for s in keep]
        d["a"], d["b"] = a, b
    elif op in ("scalar_mul", "scalar_div", "scalar_cmul", "norm"):
        d["a"] = _arr(rng, sym, fermionic, dtype, int(rng.integers(1, 4)))
    elif op.startswith("tensordot"):
        nda, ndb = int(rng.integers(1, 4)), int(rng.integers(1, 4))
        ncon = int(rng.integers(1, min(nda, ndb) + 1))
        d["a"], d["b"] = _pair(rng, sym, fermionic, dtype, nda, ndb, ncon)
        d["ncon"] = ncon
    elif op == "matmul":
        d["a"], d["b"] = _pair(rng, sym, fermionic, dtype, 2, 2, 1)
    elif op == "matvec":
        d["a"], d["b"] = _pair(rng, sym, fermionic, dtype, 2, 1, 1)
    elif op == "einsum":
        ix = rand_index_spec(rng, sym, 2, (1, 2))
        jx = rand_index_spec(rng, sym, 2, (1, 2))
        kind = int(rng.integers(0, 3))
        if fermionic:
            ix["dual"] = True  # traced pairs must be bra-ket ordered for the fermionic trace
        if kind == 0:
            inds, eq = [ix, conj_index_spec(ix), jx], "aab->b"
        elif kind == 1:
            inds, eq = [jx, ix, conj_index_spec(ix)], "abb->a"
        else:
            kx = rand_index_spec(rng, sym, 2, (1, 2))
            inds, eq = [jx, ix, kx, conj_index_spec(ix)], "abcb->ca"
        d["a"] = _arr(rng, sym, fermionic, dtype, len(inds), indices=inds, sparsity=0.3)
        d["eq"] = eq
    elif op == "trace":
        ix = rand_index_spec(rng, sym, 3, (1, 2, 3))
        d["a"] = _arr(rng, sym, fermionic, dtype, 2, indices=[ix, conj_index_spec(ix)], charge=G.zero(sym), sparsity=0.3)
    elif op == "multiply_diagonal":
        nd = int(rng.integers(1, 4))
        d["a"] = _arr(rng, sym, fermionic, dtype, nd)
        d["axis"] = int(rng.integers(0, nd))
        d["v_seed"] = int(rng.integers(0, 2**31 - 1))
        d["v_real"] = bool(rng.integers(0, 2))
    return d


def _gen_linalg(rng, op, sym, fermionic, dtype):
    d = {"contract": "C20.linalg", "op": op}
    if op == "eigh":
        d["m"] = herm_matrix(rng, sym, fermionic, dtype, fused=rng.random() < 0.3)
    elif op == "solve":
        a, b = solve_system(rng, sym, fermionic, dtype, fused=rng.random() < 0.25, a_charge=jcharge(G.zero(sym)) if fermionic else None)
        d["m"], d["b"] = a, b
    else:
        m = random_matrix(rng, dtypes=(dtype,), fermionic=fermionic)
        # keep the symmetry rotating as for the other ops
        d["m"] = m
        if op == "svd_truncated":
            d["max_bond"] = int(rng.choice([-1, 1, 2, 3]))
            d["cutoff"] = float(rng.choice([-1.0, 1e-10, 0.3]))
            d["cutoff_mode"] = int(rng.integers(1, 7))
    return d


def _gen_block(rng, reps):
    for dtype in DTYPES:
        for fermionic in (False, True):
            for sym in ALL_SYMS:
                for _ in range(reps):
                    for op in STRUCT_OPS:
                        if (op == "phase_sync" and not fermionic) or (op in ("fuse_insert", "fuse_concat") and fermionic) or (op == "fuse_default" and not fermionic):
                            continue
                        yield _gen_struct(rng, op, sym, fermionic, dtype)
                    for op in ARITH_OPS:
                        yield _gen_arith(rng, op, sym, fermionic, dtype)
                    for op in LINALG_OPS:
                        yield _gen_linalg(rng, op, sym, fermionic, dtype)


def gen_cases(tier, seed):
    quick = tier == "quick"
    yield from _gen_block(np.random.default_rng([20, 0]), 4 if quick else 20)
    yield from _gen_block(np.random.default_rng([20, 1, seed]), 12 if quick else 400)
    yield from _gen_entry_points(quick, seed)


SCALARS = {"py": lambda v: float(v), "np64": lambda v: np.float64(v), "np32": lambda v: np.float32(v), "np0d": lambda v: np.asarray(v, dtype="float64")[()]}


def _gen_entry_points(quick, seed):
    """ways of getting data in that do not go through the harness' builder: random fills with every kind of
    scalar for scale / loc, and from_dense with numpy-integer charge labels"""
    rng = np.random.default_rng([20, 2, seed])
    for dtype in ("float32", "complex64", "float64", "complex128"):
        for sk in SCALARS:
            for lk in (None, "py", "np64"):
                for dist in ("normal", "uniform"):
                    yield {"contract": "C20.entry_points", "op": "random_fill", "dtype": dtype, "scale_kind": sk, "loc_kind": lk, "dist": dist, "scale": [0.5, 1.0, 1.0 / 3.0][int(rng.integers(3))], "seed": int(rng.integers(2**31))}
        for sym in ("Z2", "Z2Z2"):
            for fermionic in (False, True):
                for k in range(2 if quick else 8):
                    yield {"contract": "C20.entry_points", "op": "numpy_integer_labels", "dtype": dtype, "sym": sym, "fermionic": fermionic, "seed": int(rng.integers(2**31)), "ndim": 2 + k % 2}


def _check_entry(d):
    dtype = d["dtype"]
    feats = {"op": d["op"], "dtype": dtype, "zero_block": False}
    fails = []
    if d["op"] == "random_fill":
        feats.update(scale_kind=d["scale_kind"], loc_kind=str(d["loc_kind"]))
        kw = {"scale": SCALARS[d["scale_kind"]](d["scale"])}
        if d["loc_kind"]:
            kw["loc"] = SCALARS[d["loc_kind"]](0.25)
        ix = sr.BlockIndex({0: 2, 1: 3}, dual=False)
        fn = sr.utils.get_random_fill_fn(seed=d["seed"], dist=d["dist"], dtype=dtype, **kw)
        b = fn((2, 3))
        if str(b.dtype) != dtype:
            fails.append(("C20.block_dtype", f"get_random_fill_fn(dtype={dtype}, {kw!r}) returns {b.dtype}", feats))
        ok, x = call(sr.Z2Array.random, (ix, ix.conj()), seed=d["seed"], dtype=dtype, dist=d["dist"], **kw)
        if not ok:
            fails.append(("C20.no_exception", f"Z2Array.random: {x}", feats))
        else:
            fails += _dtype_failures(x, dtype, "random", feats, "C20.block_dtype")
            fails += _dtype_failures(x.fuse((0, 1)), dtype, "random.fuse", feats, "C20.block_dtype")
            dn = x.to_dense()
            if str(dn.dtype) != dtype:
                fails.append(("C20.block_dtype", f"to_dense of a random {dtype} array is {dn.dtype}", feats))
        return ("entry", d["op"], dtype, d["scale_kind"], str(d["loc_kind"]), d["dist"]), fails
    # from_dense with numpy-integer labels (np.int64 compares and hashes like int): every later operation
    # keeps the element type, in particular the ones that apply pending signs
    sym, fermionic, nd = d["sym"], d["fermionic"], d["ndim"]
    feats.update(sym=sym, fermionic=fermionic)
    rng = np.random.default_rng(d["seed"])
    n = 4
    if sym == "Z2":
        labels = [np.array([0, 1, 0, 1]) for _ in range(nd)]
        keyed = labels
    else:
        labels = [[(np.int64(a), np.int64(b)) for a, b in ((0, 0), (0, 1), (1, 0), (1, 1))] for _ in range(nd)]
        keyed = labels
    D = rng.integers(-3, 4, size=(n,) * nd).astype("float64")
    if "complex" in dtype:
        D = D + 1j * rng.integers(-3, 4, size=(n,) * nd)
    D = D.astype(dtype)
    cls = (FERMI_CLS if fermionic else ABELIAN_CLS)[sym]
    duals = tuple(bool(i % 2) for i in range(nd))
    ok, x = call(cls.from_dense, D, keyed, duals, invalid_sectors="ignore")
    if not ok:
        return ("entry", d["op"], dtype, sym, fermionic, nd), [("C20.no_exception", f"from_dense with numpy integer labels: {x}", feats)]
    ops = [("transpose", lambda y: y.transpose(tuple(range(nd))[::-1])), ("conj", lambda y: y.conj()), ("fuse", lambda y: y.fuse(tuple(range(nd)))), ("to_dense", lambda y: y.to_dense()), ("neg", lambda y: -y)]
    if fermionic:
        ops += [("conj_phase_dual", lambda y: y.conj(phase_dual=True)), ("dagger_phase_dual", lambda y: y.dagger(phase_dual=True)), ("phase_flip_sync", lambda y: y.phase_flip(0).phase_sync()),
                ("conj_phase_dual_sync", lambda y: y.conj(phase_dual=True).phase_sync()), ("conj_phase_dual_dense", lambda y: y.conj(phase_dual=True).to_dense()), ("transpose_sync", lambda y: y.transpose(tuple(range(nd))[::-1]).phase_sync())]
    for name, f in ops:
        ok, r = call(f, x)
        if not ok:
            fails.append(("C20.no_exception", f"{name}: {r}", dict(feats, step=name)))
            continue
        fails += _dtype_failures(r, dtype, name, dict(feats, step=name), "C20.block_dtype")
    return ("entry", d["op"], dtype, sym, fermionic, nd), fails[:6]


# ----------------------------------------------------------------------------
# checks


def _blocks_of(res, label):
    """(label, ndarray-like) for every block / array / numpy scalar inside a result."""
    out = []
    if isinstance(res, (tuple, list)):
        for i, r in enumerate(res):
            out.extend(_blocks_of(r, f"{label}[{i}]"))
    elif res is None:
        pass
    elif hasattr(res, "blocks"):
        for s, b in res.blocks.items():
            out.append((f"{label}.block{s!r}", b))
    elif isinstance(res, (np.ndarray, np.generic)):
        out.append((label, res))
    else:
        out.append((label, res))  # python scalar
    return out


def _dtype_failures(res, want, label, feats, ob, real_for=()):
    fails = []
    for lab, b in _blocks_of(res, label):
        w = want
        if any(lab.startswith(r) for r in real_for):
            w = REAL_OF[want]
        dt = getattr(b, "dtype", None)
        if dt is None:
            # python scalar: only produced for empty contractions (nothing to join)
            if isinstance(b, complex) and "complex" not in w:
                fails.append((ob, f"{lab}: python complex for {w} data", feats))
            continue
        if str(dt) != w:
            z = bool(np.size(b)) and not np.any(b)
            fails.append((ob, f"{lab}: dtype {dt} != {w}" + (" (all-zero block)" if z else ""), dict(feats, zero_block=z)))
    return fails


def _multiset(blocks_or_array):
    arrs = list(blocks_or_array.values()) if isinstance(blocks_or_array, dict) else [blocks_or_array]
    if not arrs:
        return np.zeros((0, 2))
    v = np.concatenate([np.asarray(a).reshape(-1) for a in arrs]).astype(np.complex128)
    v = v[v != 0]
    pairs = np.stack([np.abs(v.real), np.abs(v.imag)], axis=1)
    return pairs[np.lexsort((pairs[:, 1], pairs[:, 0]))]


def _dense_in(x, cms, dtype):
    """Paste the val blocks of x into a dense array laid out by reference tables."""
    offs = []
    for cm in cms:
        o, t = {}, 0
        for c in sorted(cm):
            o[c] = t
            t += cm[c]
        offs.append((o, t))
    out = np.zeros(tuple(t for _, t in offs), dtype=dtype)
    for s, b in val_blocks(x).items():
        sl = tuple(slice(offs[i][0][c], offs[i][0][c] + cms[i][c]) for i, c in enumerate(s))
        out[sl] = b
    return out


def _input_dtype_failures(x, dtype, spec, feats):
    """The inputs are built by the constructor (plus recorded pre_ops such as fuse): a block
    of another dtype at this point is a finding about those operations, not a harness fault
    (the constructor itself stores the blocks it is given)."""
    bad = [(s, str(np.asarray(b).dtype)) for s, b in x.blocks.items() if str(np.asarray(b).dtype) != dtype]
    if not bad:
        return []
    if not spec.get("pre_ops"):
        raise AssertionError("harness: constructor input block dtype")
    ops = [o[0] for o in spec["pre_ops"]]
    return [("C20.block_dtype", f"building the input through {ops}: block {bad[0][0]!r} has dtype {bad[0][1]} != {dtype}", dict(feats, op="input:fuse" if "fuse" in ops else "input"))]


def _check_struct(d):
    op = d["op"]
    spec = d["a"]
    dtype = spec["dtype"]
    feats = {"op": op, "dtype": dtype, "fermionic": bool(spec.get("fermionic")), "sym": spec["sym"], "zero_block": False}
    if op.startswith("fuse"):
        feats["forces_zero_fill"] = forces_zero_fill(spec, d["groups"])
    mixed = bool(spec.get("mixed_block_dtypes"))
    feats["mixed_block_dtypes"] = mixed
    x = build_array(spec)
    pre = [] if mixed else _input_dtype_failures(x, dtype, spec, feats)
    if pre:
        return ("struct", op, spec_fp(spec), "input"), pre, x
    before = _multiset(val_blocks(x))
    args = ()
    if op == "transpose":
        fn = lambda: x.transpose(tuple(d["perm"]))  # noqa: E731
        args = (tuple(d["perm"]),)
    elif op == "conj":
        fn = lambda: x.conj(**d.get("kw", {}))  # noqa: E731
        args = (repr(d.get("kw")),)
    elif op == "dagger":
        fn = lambda: x.dagger(**d.get("kw", {}))  # noqa: E731
        args = (repr(d.get("kw")),)
    elif op in ("fuse_insert", "fuse_concat", "fuse_default"):
        kw = {} if op == "fuse_default" else {"mode": op.split("_")[1]}
        fn = lambda: x.fuse(*[tuple(g) for g in d["groups"]], **kw)  # noqa: E731
        args = (repr(d["groups"]),)
    elif op == "unfuse":
        fn = lambda: x.unfuse(d["axis"])  # noqa: E731
        args = (d["axis"],)
    elif op == "reshape":
        k = d["k"]
        shp = tuple(x.shape)
        new = shp[:k] + (shp[k] * shp[k + 1],) + shp[k + 2 :]

        def fn():
            y = x.reshape(new)
            z = y.reshape(shp)
            return y, z

        args = (k,)
    elif op == "to_dense":
        fn = x.to_dense
    elif op == "fill_missing":

        def fn():
            y = x.copy()
            y.fill_missing_blocks()
            return y

    elif op == "squeeze":
        fn = lambda: (x.squeeze(d["axis"]), sr.squeeze(x, d["axis"]))  # noqa: E731
        args = (d["axis"],)
    elif op == "expand_dims":
        fn = lambda: (x.expand_dims(d["axis"]), sr.expand_dims(x, d["axis"]))  # noqa: E731
        args = (d["axis"],)
    elif op == "phase_sync":
        fn = x.phase_sync
    elif op == "neg":
        fn = lambda: -x  # noqa: E731
    elif op == "copy_ops":
        fn = lambda: (x.copy(), x.copy_with(blocks=dict(x.blocks)))  # noqa: E731
    else:
        raise ValueError(op)
    fp = ("struct", op, spec_fp(spec), args)
    ok, res = call(fn)
    if not ok:
        return fp, [("C20.no_exception", f"{op}: {res}", feats)], x
    # blocks of mixed element type: only "the imaginary part of complex data is never discarded" is claimed
    fails = [] if mixed else _dtype_failures(res, dtype, op, feats, "C20.block_dtype")
    results = res if isinstance(res, tuple) else (res,)
    for r in results:
        after = _multiset(r if isinstance(r, np.ndarray) else val_blocks(r))
        if after.shape != before.shape or not np.array_equal(after, before):
            fails.append(("C20.values_kept", f"{op}: multiset of (|re|,|im|) of the non-zero elements changed ({before.shape[0]} -> {after.shape[0]} elements)", feats))
    if op == "to_dense":
        want = dense_of(x, dtype=dtype)
        if not isinstance(res, np.ndarray) or res.shape != want.shape or not np.array_equal(res, want):
            fails.append(("C20.values_kept", "to_dense differs from the harness' dense form", feats))
    if op == "fill_missing":
        valid = set(map(tuple, spec_valid_sectors(dict(spec, indices=spec["indices"])))) if not spec.get("pre_ops") or all(o[0].startswith("phase") for o in spec["pre_ops"]) else None
        if valid is not None and set(res.blocks) != valid:
            fails.append(("C20.fill_complete", f"{len(res.blocks)} blocks after fill_missing_blocks, {len(valid)} valid sectors", feats))
        if not arrays_equal(res, x, exact=True):
            fails.append(("C20.values_kept", "fill_missing_blocks changed the array", feats))
    return fp, fails, x


def _check_arith(d):
    op = d["op"]
    sa = d["a"]
    dtype = sa["dtype"]
    fermionic = bool(sa.get("fermionic"))
    feats = {"op": op, "dtype": dtype, "fermionic": fermionic, "sym": sa["sym"], "zero_block": False}
    a = build_array(sa)
    b = build_array(d["b"]) if "b" in d else None
    fp = ("arith", op, spec_fp(sa), spec_fp(d["b"]) if b is not None else None, d.get("ncon"), d.get("eq"), d.get("axis"), d.get("v_real"))
    da = dense_of(a, dtype=dtype)
    db = dense_of(b, dtype=dtype) if b is not None else None
    real_for = ()
    want_dense = None  # (reference tables, expected dense) or scalar
    if op == "add":
        fn, want_dense = (lambda: a + b), ("same", da + db)
    elif op == "sub":
        fn, want_dense = (lambda: a - b), ("same", da - db)
    elif op == "mul":
        fn, want_dense = (lambda: a * b), ("same", da * db)
    elif op == "scalar_mul":
        fn, want_dense = (lambda: (a * 2, 2 * a, a * 0.5)), ("same3", (da * 2, da * 2, da * 0.5))
    elif op == "scalar_div":
        fn, want_dense = (lambda: a / 2), ("same", da / 2)
    elif op == "scalar_cmul":
        if "complex" not in dtype:
            fn, want_dense = (lambda: a * 3), ("same", da * 3)
        else:
            fn, want_dense = (lambda: a * (1 + 2j)), ("same", (da * (1 + 2j)).astype(dtype))
    elif op == "norm":
        fn = lambda: (a.norm(), sr.linalg.norm(a))  # noqa: E731
        real_for = ("norm",)
    elif op.startswith("tensordot") or op in ("matmul", "matvec"):
        ncon = d.get("ncon", 1)
        nda, ndb = len(sa["indices"]), len(d["b"]["indices"])
        axes = (tuple(range(nda - ncon, nda)), tuple(range(ncon)))
        if op == "tensordot_fused":
            fn = lambda: sr.tensordot(a, b, axes, mode="fused")  # noqa: E731
        elif op == "tensordot_blockwise":
            fn = lambda: sr.tensordot(a, b, axes, mode="blockwise")  # noqa: E731
        elif op == "tensordot_auto":
            fn = lambda: sr.tensordot(a, b, ncon)  # noqa: E731
        else:
            fn = lambda: a @ b  # noqa: E731
        if not fermionic:
            cms = [dict(ix.chargemap) for ix in a.indices[: nda - ncon]] + [dict(ix.chargemap) for ix in b.indices[ncon:]]
            want_dense = ("tables", cms, np.tensordot(da, db, axes=axes))
    elif op == "einsum":
        fn = lambda: (a.einsum(d["eq"]), sr.einsum(d["eq"], a))  # noqa: E731
        if not fermionic:
            lhs, rhs = d["eq"].split("->")
            cms = [dict(a.indices[lhs.index(q)].chargemap) for q in rhs]
            want_dense = ("tables2", cms, np.einsum(d["eq"], da))
    elif op == "trace":
        fn = lambda: (a.trace(), sr.trace(a))  # noqa: E731
        if not fermionic:
            want_dense = ("scalar2", np.trace(da))
    elif op == "multiply_diagonal":
        ax = d["axis"]
        vdt = REAL_OF[dtype] if d["v_real"] else dtype
        cm = a.indices[ax].chargemap
        v = sr.BlockVector({c: fill_block(d["v_seed"], ("v", c), (cm[c],), vdt) for c in cm})
        dv = np.concatenate([np.asarray(v.blocks[c]) for c in sorted(cm)])
        shape = [1] * len(a.indices)
        shape[ax] = -1
        fn = lambda: (a.multiply_diagonal(v, ax), sr.multiply_diagonal(a, v, ax))  # noqa: E731
        want_dense = ("same2", (da * dv.reshape(shape)).astype(dtype))
    else:
        raise ValueError(op)
    ok, res = call(fn)
    if not ok:
        return fp, [("C20.no_exception", f"{op}: {res}", feats)], a
    fails = _dtype_failures(res, dtype, op, feats, "C20.block_dtype", real_for=real_for)
    if op == "norm":
        want = float(np.linalg.norm(da.astype(np.complex128)))
        for r in res:
            if np.iscomplexobj(r):
                fails.append(("C20.values_kept", f"norm {r!r} is complex", feats))
            elif abs(float(r) - want) > TOL[dtype] * (1 + want):
                fails.append(("C20.values_kept", f"norm {r!r} != {want!r}", feats))
    if want_dense is not None:
        kind = want_dense[0]
        if kind in ("same", "same2", "same3"):
            rs = res if isinstance(res, tuple) else (res,)
            ws = want_dense[1] if kind == "same3" else (want_dense[1],) * len(rs)
            for r, w in zip(rs, ws):
                g = _dense_in(r, [dict(ix.chargemap) for ix in a.indices], dtype) if len(r.indices) == len(a.indices) else None
                if g is None or not np.array_equal(g, w):
                    fails.append(("C20.values_kept", f"{op}: result differs from numpy on the dense form", feats))
        elif kind in ("tables", "tables2"):
            cms, w = want_dense[1], want_dense[2]
            rs = res if isinstance(res, tuple) else (res,)
            for r in rs:
                if not cms:
                    g = r if not hasattr(r, "blocks") else (r.blocks.get((), 0))
                    good = np.array_equal(np.asarray(g, dtype=np.complex128), np.asarray(w, dtype=np.complex128))
                else:
                    good = hasattr(r, "indices") and len(r.indices) == len(cms) and all(set(ix.chargemap) <= set(cm) for ix, cm in zip(r.indices, cms)) and np.array_equal(_dense_in(r, cms, dtype), w)
                if not good:
                    fails.append(("C20.values_kept", f"{op}: result differs from numpy on the dense form", feats))
        elif kind == "scalar2":
            for r in res:
                if complex(r) != complex(want_dense[1]):
                    fails.append(("C20.values_kept", f"{op}: {r!r} != {want_dense[1]!r}", feats))
    return fp, fails, a


def _check_linalg(d):
    op = d["op"]
    m = d["m"]
    dtype = m["spec"]["dtype"]
    tol = TOL[dtype]
    feats = {"op": op, "dtype": dtype, "fermionic": bool(m["spec"].get("fermionic")), "sym": m["spec"]["sym"], "zero_block": False, "fused": any(o[0] == "fuse" for o in m["spec"].get("pre_ops", ()))}
    x = build_matrix(m)
    pre = _input_dtype_failures(x, dtype, m["spec"], feats)
    if pre:
        return ("linalg", op, mat_fp(m), "input"), pre, x
    fused = has_subinfo(x)
    fp = ("linalg", op, mat_fp(m), spec_fp(d["b"]) if "b" in d else None, d.get("max_bond"), d.get("cutoff"), d.get("cutoff_mode"))
    fails = []

    def recon(p, target, what, t=tol):
        same, why = same_up_to_dropped_charges(p, target, t)
        if not same:
            fails.append(("C20.values_kept", f"{what} ({why})", feats))

    if op in ("qr", "qr_stab"):
        ok, res = call(sr.linalg.qr, x, stabilized=(op == "qr_stab"))
        if not ok:
            return fp, [("C20.no_exception", f"{op}: {res}", feats)], x
        fails += _dtype_failures(res, dtype, op, feats, "C20.block_dtype")
        ok, p = call(contract, res[0], res[1], fused)
        if ok:
            fails += _dtype_failures(p, dtype, op + ".product", feats, "C20.block_dtype")
            recon(p, x, "q.r != x")
        else:
            fails.append(("C20.no_exception", f"tensordot(q, r): {p}", feats))
    elif op == "svd":
        ok, res = call(sr.linalg.svd, x)
        if not ok:
            return fp, [("C20.no_exception", f"svd: {res}", feats)], x
        fails += _dtype_failures(res, dtype, "svd", feats, "C20.block_dtype", real_for=("svd[1]",))
        ok, p = call(lambda: contract(res[0].multiply_diagonal(res[1], 1), res[2], fused))
        if ok:
            fails += _dtype_failures(p, dtype, "svd.product", feats, "C20.block_dtype")
            recon(p, x, "u.s.vh != x")
        else:
            fails.append(("C20.no_exception", f"u.s.vh: {p}", feats))
    elif op == "svd_truncated":
        for absorb in (None, -1, 0, 1):
            ok, res = call(sr.linalg.svd_truncated, x, cutoff=d["cutoff"], cutoff_mode=d["cutoff_mode"], max_bond=d["max_bond"], absorb=absorb)
            if not ok:
                fails.append(("C20.no_exception", f"svd_truncated absorb={absorb}: {res}", feats))
                continue
            fails += _dtype_failures(res, dtype, f"svd_truncated(absorb={absorb})", feats, "C20.block_dtype", real_for=(f"svd_truncated(absorb={absorb})[1]",))
            if d["cutoff"] <= 1e-9 and d["max_bond"] < 0:
                U, s, VH = res
                ok, p = call(lambda: contract(U if s is None else U.multiply_diagonal(s, 1), VH, fused))
                if ok:
                    recon(p, x, f"svd_truncated(absorb={absorb}) without truncation does not reconstruct")
                else:
                    fails.append(("C20.no_exception", f"U.VH: {p}", feats))
    elif op == "eigh":
        ok, res = call(sr.linalg.eigh, x)
        if not ok:
            return fp, [("C20.no_exception", f"eigh: {res}", feats)], x
        fails += _dtype_failures(res, dtype, "eigh", feats, "C20.block_dtype", real_for=("eigh[0]",))
        el, ev = res
        ok, p = call(lambda: ev.multiply_diagonal(el, 1) @ ev.dagger())
        if ok:
            fails += _dtype_failures(p, dtype, "eigh.product", feats, "C20.block_dtype")
            recon(p, x, "ev.el.ev^dagger != h", tol * 10)
        else:
            fails.append(("C20.no_exception", f"ev.el.ev^dagger: {p}", feats))
    elif op == "solve":
        b = build_array(d["b"])
        ok, sol = call(sr.linalg.solve, x, b)
        if not ok:
            return fp, [("C20.no_exception", f"solve: {sol}", feats)], x
        fails += _dtype_failures(sol, dtype, "solve", feats, "C20.block_dtype")
        ok, p = call(contract, x, sol, fused)
        if ok:
            fails += _dtype_failures(p, dtype, "solve.product", feats, "C20.block_dtype")
            recon(p, b, "a.x != b", tol * 10)
        else:
            fails.append(("C20.no_exception", f"tensordot(a, x): {p}", feats))
    else:
        raise ValueError(op)
    return fp, fails, x


def check_case(d):
    with warnings.catch_warnings():
        warnings.simplefilter("error", np.exceptions.ComplexWarning)
        c = d["contract"]
        try:
            if c == "C20.structural":
                fp, fails, x = _check_struct(d)
            elif c == "C20.arithmetic":
                fp, fails, x = _check_arith(d)
            elif c == "C20.entry_points":
                fp, fails = _check_entry(d)
                return {"fingerprint": fp, "nontrivial": True, "failures": fails[:6], "sample": {"contract": c, "op": d["op"], "dtype": d["dtype"]}}
            else:
                fp, fails, x = _check_linalg(d)
        except np.exceptions.ComplexWarning as e:
            # raised by library code while the inputs were being built through recorded pre_ops
            # (the harness itself never casts complex to real): an imaginary part was discarded
            spec = d.get("a") or d["m"]["spec"]
            feats = {"op": "input:fuse" if any(o[0] == "fuse" for o in spec.get("pre_ops", ())) else "input", "dtype": spec["dtype"], "fermionic": bool(spec.get("fermionic")), "sym": spec["sym"], "zero_block": False}
            return {"fingerprint": ("input", c, d["op"], spec_fp(spec)), "nontrivial": True, "failures": [("C20.values_kept", f"ComplexWarning while building the input: {e}", feats)]}
    return {
        "fingerprint": fp,
        "nontrivial": len(x.blocks) > 0,
        "failures": fails[:6],
        "sample": {"contract": c, "op": d["op"], "dtype": (d.get("a") or d["m"]["spec"])["dtype"]},
    }


if __name__ == "__main__":
    driver_main("bounded.run_C20")
