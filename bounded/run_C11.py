"""C11 (bounded): decompositions reconstruct the input from properly structured factors.

qr (plain / stabilised), svd, eigh and solve over the shared matrix universe of
`oracles_linalg`: abelian and fermionic 2-D arrays of every symmetry, direction pattern
and reachable total charge, tall / wide / square / size-1 / rank-deficient blocks,
missing blocks, float64 and complex128, pending fermionic signs, and matrices obtained
by fusing rank-3/4 arrays.  Oracles are written from the property statement; products
are formed with the library's own contraction and compared through the `val` view.
"""

import numpy as np

from bounded.common import *  # noqa: F401,F403
from bounded.common import G, arrays_equal, build_array, driver_main, index_struct, sr, ucharge, val_blocks, dense_of
from bounded.oracles_linalg import (
    ALL_SYMS,
    TOL,
    bond_audit,
    build_matrix,
    call,
    contract,
    has_subinfo,
    herm_matrix,
    mat_features,
    mat_fp,
    orthonormal_columns,
    orthonormal_rows,
    random_matrix,
    same_up_to_dropped_charges,
    solve_system,
    spec_fp,
    systematic_matrices,
    tall_and_single_precision_matrices,
    valid_msgs,
)

_DOMAIN = (
    "2-D abelian and fermionic arrays over Z2, U1, Z2Z2, U1U1 (static and generic classes) and Z4 (generic), "
    "4 direction patterns, every reachable total charge (odd fermionic with a label), blocks of shape 1x1 .. 4x4 "
    "(tall, wide, square), integer rank-1/2 blocks, zero blocks, missing blocks, float64/complex128, pending signs, very tall / wide blocks (aspect 40..100: well / ill conditioned 1e5, 1e7 / rank one), float32/complex64 (tol 1e-4), "
    "and matrices fused from rank-3/4 arrays"
)
CONTRACTS = {
    "C11.qr": (_DOMAIN + "; stabilized in {False, True}", "systematic small scope (5 syms x 9 pool pairs x 3 size patterns x 4 directions x all charges x abelian/fermionic) + seeded random; tol 1e-9"),
    "C11.svd": (_DOMAIN, "same universe; tol 1e-9"),
    "C11.eigh": ("h = m + m.dagger() with m of charge zero on (ix, conj ix), <=3 charges of size <=3, also fused from rank 4; abelian and fermionic; pending signs; non-zero charge must raise", "seeded random; tol 1e-9"),
    "C11.solve": ("a square-blocked of every total charge (blocks shifted by 20*identity), b one-block 1-D array on a's row index, abelian and fermionic (odd a: finding F13), pending signs, also fused from rank 4", "seeded random; tol 1e-9"),
}


def gen_cases(tier, seed):
    quick = tier == "quick"
    # --- systematic
    for m in systematic_matrices(stride=1):
        yield {"contract": "C11.qr", "m": m, "stabilized": False}
        yield {"contract": "C11.qr", "m": m, "stabilized": True}
        yield {"contract": "C11.svd", "m": m}
    for k, m in enumerate(tall_and_single_precision_matrices()):
        if quick and k % 2:
            continue
        yield {"contract": "C11.qr", "m": m, "stabilized": bool(k % 4 < 2)}
        yield {"contract": "C11.svd", "m": m}
    rng = np.random.default_rng([11, 0])
    for sym in ALL_SYMS:
        for fermionic in (False, True):
            for dtype in ("float64", "complex128"):
                for k in range(12 if quick else 60):
                    yield {"contract": "C11.eigh", "m": herm_matrix(rng, sym, fermionic, dtype, fused=(k % 3 == 2))}
                for k in range(16 if quick else 80):
                    a, b = solve_system(rng, sym, fermionic, dtype, fused=(k % 4 == 3))
                    yield {"contract": "C11.solve", "a": a, "b": b}
    # eigh on a non-zero charge must raise
    for sym in ALL_SYMS:
        for fermionic in (False, True):
            for _ in range(3):
                m = random_matrix(rng, fermionic=fermionic, fused=False)
                yield {"contract": "C11.eigh", "m": m, "expect_raise_if_charged": True}
    # --- seeded random
    rng = np.random.default_rng([11, 1, seed])
    n = 12000 if quick else 400000
    for i in range(n):
        m = random_matrix(rng)
        r = i % 5
        if r == 0:
            yield {"contract": "C11.qr", "m": m, "stabilized": bool(i % 2)}
        elif r == 1:
            yield {"contract": "C11.qr", "m": m, "stabilized": not bool(i % 2)}
            yield {"contract": "C11.svd", "m": m}
        elif r == 2:
            yield {"contract": "C11.svd", "m": m}
        elif r == 3:
            sym = ALL_SYMS[int(rng.integers(0, 5))]
            yield {"contract": "C11.eigh", "m": herm_matrix(rng, sym, bool(rng.integers(0, 2)), ("float64", "complex128")[int(rng.integers(0, 2))], fused=rng.random() < 0.3)}
        else:
            sym = ALL_SYMS[int(rng.integers(0, 5))]
            a, b = solve_system(rng, sym, bool(rng.integers(0, 2)), ("float64", "complex128")[int(rng.integers(0, 2))], fused=rng.random() < 0.25)
            yield {"contract": "C11.solve", "a": a, "b": b}


def _inner_sign(x_sym, bond_on_right_dual, c):
    """Sign with which an odd charge of the new bond enters the contraction when the
    bond is ket-bra ordered (C03): the effective right factor is sign * val."""
    return -1 if (bond_on_right_dual and G.par(x_sym, c)) else 1


def _check_qr(d):
    m = d["m"]
    feats = dict(mat_features(m), stabilized=bool(d["stabilized"]))
    x = build_matrix(m)
    tol = TOL[m["spec"].get("dtype", "float64")]
    fails = []
    ok, res = call(sr.linalg.qr, x, stabilized=d["stabilized"])
    if not ok:
        return [("C11.no_exception", f"qr: {res}", feats)]
    q, r = res
    for msg in valid_msgs("qr factor", q, r):
        fails.append(("C11.qr_valid", msg, feats))
    if fails:
        return fails
    for msg in bond_audit(x, q, r, None, tol, "qr"):
        fails.append(("C11.qr_bond", msg, feats))
    sym = feats["sym"]
    fermionic = feats["fermionic"]
    rv = val_blocks(r)
    for s, b in q.blocks.items():
        if not orthonormal_columns(b, tol):
            fails.append(("C11.q_orthonormal", f"Q block {s!r} does not have orthonormal columns", feats))
    for s, b in rv.items():
        b = np.asarray(b)
        if np.any(np.abs(np.tril(b, -1)) > tol):
            fails.append(("C11.r_upper_triangular", f"R block {s!r} has entries below the diagonal", feats))
        if d["stabilized"]:
            dg = np.diagonal(b) * (_inner_sign(sym, r.indices[0].dual, s[0]) if fermionic else 1)
            scale = max(1.0, float(np.max(np.abs(b))) if b.size else 1.0)
            if np.any(np.abs(dg.imag) > tol * scale) or np.any(dg.real < -tol * scale):
                fails.append(("C11.r_diag_nonneg", f"stabilised R block {s!r} has diagonal {dg.tolist()}", feats))
    fused = has_subinfo(x)
    for mode in ((None,) if fused else (None, "blockwise")):
        ok, p = call(contract, q, r, fused, mode)
        if not ok:
            fails.append(("C11.no_exception", f"tensordot(q, r): {p}", feats))
            continue
        same, why = same_up_to_dropped_charges(p, x, tol)
        if not same:
            fails.append(("C11.qr_reconstruct", f"q.r != x ({why}; mode {mode or ('blockwise' if fused else 'default')})", feats))
    return fails


def _check_svd(d):
    m = d["m"]
    feats = mat_features(m)
    x = build_matrix(m)
    tol = TOL[m["spec"].get("dtype", "float64")]
    fails = []
    ok, res = call(sr.linalg.svd, x)
    if not ok:
        return [("C11.no_exception", f"svd: {res}", feats)]
    u, s, vh = res
    for msg in valid_msgs("svd factor", u, s, vh):
        fails.append(("C11.svd_valid", msg, feats))
    if fails:
        return fails
    for msg in bond_audit(x, u, vh, s, tol, "svd"):
        fails.append(("C11.svd_bond", msg, feats))
    for k, b in u.blocks.items():
        if not orthonormal_columns(b, tol):
            fails.append(("C11.u_orthonormal", f"U block {k!r} does not have orthonormal columns", feats))
    for k, b in vh.blocks.items():
        if not orthonormal_rows(b, tol):
            fails.append(("C11.vh_orthonormal", f"VH block {k!r} does not have orthonormal rows", feats))
    for c, v in s.blocks.items():
        v = np.asarray(v)
        if np.iscomplexobj(v) or np.any(v < 0):
            fails.append(("C11.s_nonneg", f"singular values of charge {c!r}: {v.tolist()}", feats))
        if np.any(np.diff(v) > 0):
            fails.append(("C11.s_nonincreasing", f"singular values of charge {c!r} not non-increasing: {v.tolist()}", feats))
    fused = has_subinfo(x)
    ok, us = call(u.multiply_diagonal, s, axis=1)
    if not ok:
        return fails + [("C11.no_exception", f"multiply_diagonal: {us}", feats)]
    ok2, sv = call(vh.multiply_diagonal, s, axis=0)
    for mode in ((None,) if fused else (None, "blockwise")):
        ok, p = call(contract, us, vh, fused, mode)
        if not ok:
            fails.append(("C11.no_exception", f"tensordot(u.s, vh): {p}", feats))
            continue
        same, why = same_up_to_dropped_charges(p, x, tol)
        if not same:
            fails.append(("C11.svd_reconstruct", f"(u.s).vh != x ({why})", feats))
    if ok2:
        ok, p = call(contract, u, sv, fused)
        if not ok:
            fails.append(("C11.no_exception", f"tensordot(u, s.vh): {p}", feats))
        else:
            same, why = same_up_to_dropped_charges(p, x, tol)
            if not same:
                fails.append(("C11.svd_reconstruct", f"u.(s.vh) != x ({why})", feats))
    else:
        fails.append(("C11.no_exception", f"multiply_diagonal(vh, s, 0): {sv}", feats))
    return fails


def _check_eigh(d):
    m = d["m"]
    feats = mat_features(m)
    sym = feats["sym"]
    if d.get("expect_raise_if_charged"):
        x = build_matrix(m)
        ok, res = call(sr.linalg.eigh, x)
        if x.charge != G.zero(sym):
            if ok or not res.startswith("ValueError"):
                return [("C11.eigh_charged_raises", f"eigh on charge {x.charge!r} gave {res if not ok else 'a result'}", feats)]
        return []
    h = build_matrix(m)
    tol = TOL[m["spec"].get("dtype", "float64")]
    dh = dense_of(h)
    if not np.array_equal(dh, dh.conj().T):
        raise AssertionError("harness: m + m.dagger() is not Hermitian in the dense sense")
    fails = []
    ok, res = call(sr.linalg.eigh, h)
    if not ok:
        return [("C11.no_exception", f"eigh: {res}", feats)]
    el, ev = res
    for msg in valid_msgs("eigh result", el, ev):
        fails.append(("C11.eigh_valid", msg, feats))
    if fails:
        return fails
    if set(ev.blocks) != set(h.blocks) or set(el.blocks) != {s[1] for s in h.blocks}:
        fails.append(("C11.eigh_sectors", f"eigenvector sectors {sorted(ev.blocks)} / eigenvalue keys {sorted(el.blocks)} vs input {sorted(h.blocks)}", feats))
    if [index_struct(i) for i in ev.indices] != [index_struct(i) for i in h.indices] or ev.charge != h.charge:
        fails.append(("C11.eigh_indices", "eigenvector array does not carry the indices / charge of the input", feats))
    for s, b in ev.blocks.items():
        if not orthonormal_columns(b, tol) or np.shape(b)[0] != np.shape(b)[1]:
            fails.append(("C11.ev_unitary", f"eigenvector block {s!r} is not unitary", feats))
    for c, v in el.blocks.items():
        if np.iscomplexobj(np.asarray(v)):
            fails.append(("C11.el_real", f"eigenvalues of charge {c!r} are complex", feats))
    ok, w = call(ev.multiply_diagonal, el, 1)
    if not ok:
        return fails + [("C11.no_exception", f"multiply_diagonal: {w}", feats)]
    ok, evd = call(ev.dagger)
    if not ok:
        return fails + [("C11.no_exception", f"dagger: {evd}", feats)]
    ok, p = call(lambda: w @ evd)
    if not ok:
        return fails + [("C11.no_exception", f"(ev.el) @ ev.dagger(): {p}", feats)]
    same, why = same_up_to_dropped_charges(p, h, tol)
    if not same:
        fails.append(("C11.eigh_reconstruct", f"ev.diag(el).ev^dagger != h via @ ({why})", feats))
    ok, p = call(contract, w, evd, has_subinfo(h))
    if not ok:
        fails.append(("C11.no_exception", f"tensordot(ev.el, ev.dagger()): {p}", feats))
    else:
        same, why = same_up_to_dropped_charges(p, h, tol)
        if not same:
            fails.append(("C11.eigh_reconstruct", f"ev.diag(el).ev^dagger != h via tensordot ({why})", feats))
    return fails


def _check_solve(d):
    am, bspec = d["a"], d["b"]
    a = build_matrix(am)
    b = build_array(bspec)
    sym = am["spec"]["sym"]
    fermionic = bool(am["spec"].get("fermionic"))
    a_par = G.par(sym, a.charge)
    feats = dict(mat_features(am), a_parity=a_par if fermionic else 0, b_parity=G.par(sym, b.charge))
    known = fermionic and a_par == 1
    tol = TOL[am["spec"].get("dtype", "float64")]

    def ob(name):
        return "C11.solve_fermionic_odd_a" if known else name

    ok, x = call(sr.linalg.solve, a, b)
    if not ok:
        return [(ob("C11.no_exception"), f"solve: {x}", feats)]
    fails = []
    for msg in valid_msgs("solution", x):
        fails.append((ob("C11.solve_valid"), msg, feats))
    want = G.add(sym, b.charge, G.neg(sym, a.charge))
    if x.charge != want:
        fails.append((ob("C11.solve_charge"), f"solution charge {x.charge!r} != b - a = {want!r}", feats))
    if len(x.indices) != 1 or index_struct(x.indices[0])[:2] != (index_struct(a.indices[1])[0], not a.indices[1].dual):
        fails.append((ob("C11.solve_index"), "solution index is not the conjugate of a's column index", feats))
    if fails:
        return fails
    fused = has_subinfo(a)
    for mode in ((None,) if fused else (None, "blockwise")):
        ok, p = call(contract, a, x, fused, mode)
        if not ok:
            fails.append((ob("C11.no_exception"), f"tensordot(a, x): {p}", feats))
            continue
        same, why = same_up_to_dropped_charges(p, b, tol * 10)
        if not same:
            fails.append((ob("C11.solve_residual"), f"a.x != b ({why})", feats))
    return fails


def check_case(d):
    c = d["contract"]
    if c == "C11.qr":
        fails = _check_qr(d)
        fp = ("qr", mat_fp(d["m"]), d["stabilized"])
        nb = d["m"]
    elif c == "C11.svd":
        fails = _check_svd(d)
        fp = ("svd", mat_fp(d["m"]))
        nb = d["m"]
    elif c == "C11.eigh":
        fails = _check_eigh(d)
        fp = ("eigh", mat_fp(d["m"]), bool(d.get("expect_raise_if_charged")))
        nb = d["m"]
    else:
        fails = _check_solve(d)
        fp = ("solve", mat_fp(d["a"]), spec_fp(d["b"]))
        nb = d["a"]
    sect = nb["spec"].get("sectors", "all")
    return {
        "fingerprint": fp,
        "nontrivial": sect == "all" or len(sect) > 0,
        "failures": fails[:6],
        "sample": {"contract": c, "features": mat_features(nb)},
    }


if __name__ == "__main__":
    driver_main("bounded.run_C11")
