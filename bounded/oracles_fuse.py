"""Oracles shared by the C05 / C07 / C15 drivers.

Everything here is written from the property statements (C05: element relocation
described by the fused index's own sub-index table; C07: shape-level interpreter of a
reshape plan) and uses only numpy, the reference group arithmetic `G` and the public
attributes of the arrays (`indices`, `blocks`, `charge`, `subinfo.indices`,
`subinfo.extents`).  No symmray routine is called to *predict* anything.
"""

import itertools
import json

import numpy as np

from bounded.common import G, Invalid, audit_valid, index_struct, sym_name, val_blocks

# ----------------------------------------------------------------------------
# combinatorics of groupings


def compositions(k):
    """All ways of cutting range(k) into consecutive non-empty pieces (as lengths)."""
    if k == 0:
        yield ()
        return
    for first in range(1, k + 1):
        for rest in compositions(k - first):
            yield (first,) + rest


def ordered_group_families(n):
    """Every ordered family of non-empty, pairwise disjoint, *ordered* groups of
    axes of range(n): single-axis groups, non-adjacent and permuted axes, several
    groups.  (n=1: 1, n=2: 6, n=3: 39, n=4: 316 families.)"""
    for k in range(1, n + 1):
        for seq in itertools.permutations(range(n), k):
            for comp in compositions(k):
                out, i = [], 0
                for ln in comp:
                    out.append(list(seq[i : i + ln]))
                    i += ln
                yield out


def axis_plan(ndim, groups):
    """Statement clause (1): ungrouped axes before the minimum fused axis, then the
    groups in the order given, then the remaining ungrouped axes."""
    grouped = [ax for g in groups for ax in g]
    position = min(grouped)
    gs = set(grouped)
    before = [ax for ax in range(position) if ax not in gs]
    after = [ax for ax in range(position, ndim) if ax not in gs]
    perm = before + grouped + after
    return position, before, after, perm


def nest_labels(entries, groups):
    """Apply a grouping to a list of (possibly nested) axis labels."""
    position, before, after, _ = axis_plan(len(entries), groups)
    new = [entries[ax] for ax in before]
    for g in groups:
        new.append(entries[g[0]] if len(g) == 1 else tuple(entries[ax] for ax in g))
    new.extend(entries[ax] for ax in after)
    return new


def flatten_labels(entries):
    out = []
    for e in entries:
        if isinstance(e, tuple):
            out.extend(flatten_labels(e))
        else:
            out.append(e)
    return out


def fingerprint_of(d, drop=("fill_seed",)):
    """Structure fingerprint of a descriptor: everything but the fill data."""

    def strip(o):
        if isinstance(o, dict):
            return {k: strip(v) for k, v in sorted(o.items()) if k not in drop}
        if isinstance(o, (list, tuple)):
            return [strip(v) for v in o]
        return o

    return json.dumps(strip(d), sort_keys=True, default=str)


# ----------------------------------------------------------------------------
# C05: relocation oracle


def fused_charge(sym, x, grp, sector):
    gd = x.indices[grp[0]].dual
    if len(grp) == 1:
        return sector[grp[0]]
    return G.signed_sum(sym, [sector[ax] for ax in grp], [x.indices[ax].dual != gd for ax in grp])


def fuse_layout_failures(x, y, groups, signed=False):
    """Compare y (claimed to be x.fuse(*groups)) with the statement of C05.

    signed=True (fermionic): every source block may carry one overall sign +-1.
    Returns (failures, info) where failures = [(obligation, what)], info has
    'missing_subblock' (some fused block has positions no element maps to).
    """
    fails = []
    info = {"missing_subblock": False, "n_elements": 0}
    sym = sym_name(x)
    nd = len(x.indices)
    position, before, after, perm = axis_plan(nd, groups)
    ng = len(groups)
    new_nd = len(before) + ng + len(after)
    if len(y.indices) != new_nd:
        return [("C05.axis_order", f"result has {len(y.indices)} axes, statement gives {new_nd}")], info
    if y.charge != x.charge:
        fails.append(("C05.total_charge", f"total charge changed {x.charge!r} -> {y.charge!r}"))
    for j, ax in enumerate(before):
        if index_struct(y.indices[j]) != index_struct(x.indices[ax]):
            fails.append(("C05.axis_order", f"ungrouped axis {ax} expected at new position {j} unchanged"))
    for j, ax in enumerate(after):
        if index_struct(y.indices[position + ng + j]) != index_struct(x.indices[ax]):
            fails.append(("C05.axis_order", f"ungrouped axis {ax} expected at new position {position + ng + j} unchanged"))
    for g, grp in enumerate(groups):
        iy = y.indices[position + g]
        gd = x.indices[grp[0]].dual
        if bool(iy.dual) != bool(gd):
            fails.append(("C05.fused_direction", f"group {grp}: direction {iy.dual} != that of its first axis {gd}"))
        if len(grp) == 1:
            if index_struct(iy) != index_struct(x.indices[grp[0]]):
                fails.append(("C05.singlet_group_index", f"single-axis group {grp}: index changed"))
        else:
            si = iy.subinfo
            if si is None:
                fails.append(("C05.subindex_table", f"group {grp}: fused index has no sub-index table"))
            elif tuple(index_struct(s) for s in si.indices) != tuple(index_struct(x.indices[ax]) for ax in grp):
                fails.append(("C05.subindex_table", f"group {grp}: sub-indices are not the fused axes in the given order"))
    if fails:
        return fails, info

    xv, yv = val_blocks(x), val_blocks(y)
    cover = {}
    for s, B in xv.items():
        key = [s[ax] for ax in before]
        for grp in groups:
            key.append(fused_charge(sym, x, grp, s))
        key.extend(s[ax] for ax in after)
        key = tuple(key)
        if key not in yv:
            fails.append(("C05.relocation", f"block {s!r}: target block {key!r} (signed combination of sub-charges) is absent"))
            continue
        Y = yv[key]
        raw = y.blocks[key]
        # a fused block holds several original blocks: its element type is the common type of the array's blocks
        # (equal to each block's own type unless the array mixes element types)
        want_dt = np.result_type(*[np.asarray(b).dtype for b in x.blocks.values()])
        if np.asarray(raw).dtype != want_dt:
            fails.append(("C05.dtype", f"block {key!r}: dtype {np.asarray(raw).dtype} != {want_dt} (common element type of the stored blocks)"))
        I = np.indices(B.shape) if B.ndim else []
        idx = [I[ax] for ax in before]
        bad = False
        for g, grp in enumerate(groups):
            if len(grp) == 1:
                idx.append(I[grp[0]])
                continue
            iy = y.indices[position + g]
            ext = iy.subinfo.extents.get(key[position + g])
            t = tuple(s[ax] for ax in grp)
            if ext is None or t not in ext:
                fails.append(("C05.subindex_table", f"block {s!r}: sub-sector {t!r} not listed under fused charge {key[position + g]!r}"))
                bad = True
                break
            prefix = 0
            for tt, dd in ext.items():
                if tt == t:
                    break
                prefix += dd
            subsizes = [iy.subinfo.indices[j].chargemap[t[j]] for j in range(len(grp))]
            if int(np.prod(subsizes)) != ext[t]:
                fails.append(("C05.subindex_table", f"extent of {t!r} is {ext[t]} != product of sub sizes {subsizes}"))
                bad = True
                break
            off = 0
            for j, ax in enumerate(grp):
                off = off * subsizes[j] + I[ax]
            idx.append(prefix + off)
        if bad:
            continue
        idx.extend(I[ax] for ax in after)
        if any(int(np.max(i_)) >= Y.shape[a] for a, i_ in enumerate(idx) if np.size(i_)):
            fails.append(("C05.relocation", f"block {s!r}: predicted position outside target block {key!r} of shape {Y.shape}"))
            continue
        tidx = tuple(idx)
        got = Y[tidx] if B.ndim else Y
        info["n_elements"] += int(B.size)
        if not np.array_equal(got, B):
            if not (signed and np.array_equal(got, -B)):
                fails.append(("C05.relocation", f"block {s!r}: elements are not at the positions the fused index's sub-index table assigns (target {key!r})"))
        cv = cover.get(key)
        if cv is None:
            cv = cover[key] = np.zeros(Y.shape, dtype=np.int64)
        if B.ndim:
            np.add.at(cv, tidx, 1)
        else:
            cv[()] += 1
    for key, Y in yv.items():
        cv = cover.get(key)
        if cv is None:
            if np.any(Y != 0):
                fails.append(("C05.exact_zero", f"block {key!r} receives no element of the original but is not zero"))
            continue
        if cv.size and cv.max() > 1:
            fails.append(("C05.relocation", f"block {key!r}: two original elements map to the same position"))
        hole = cv == 0
        if hole.any():
            info["missing_subblock"] = True
            if np.any(Y[hole] != 0):
                fails.append(("C05.exact_zero", f"block {key!r}: position outside every relocated element is not exactly 0"))
    try:
        audit_valid(y)
    except Invalid as e:
        fails.append(("C05.valid", f"fused array invalid: {e}"))
    return fails, info


def abelian_equals_transposed(z, x, perm, what):
    """z must hold every block of x transposed by perm bit-for-bit (same dtype), extra
    blocks exactly zero, and x's indices in the order perm."""
    fails = []
    if len(z.indices) != len(perm):
        return [("C05.unfuse_restores", f"{what}: {len(z.indices)} axes, expected {len(perm)}")]
    if z.charge != x.charge:
        fails.append(("C05.unfuse_restores", f"{what}: total charge {z.charge!r} != {x.charge!r}"))
    for j, ax in enumerate(perm):
        if index_struct(z.indices[j]) != index_struct(x.indices[ax]):
            fails.append(("C05.unfuse_restores", f"{what}: index {j} is not the original index {ax}"))
    if fails:
        return fails
    for s, B in x.blocks.items():
        k = tuple(s[ax] for ax in perm)
        Z = z.blocks.get(k)
        want = np.transpose(np.asarray(B), perm)
        if Z is None:
            fails.append(("C05.unfuse_restores", f"{what}: original block {s!r} is missing"))
        elif np.asarray(Z).dtype != np.result_type(*[np.asarray(b).dtype for b in x.blocks.values()]) or not np.array_equal(np.asarray(Z), want):
            # exact values; the element type is that of the original block, except that an array mixing element
            # types comes back in their common type (a fused block cannot hold two types)
            fails.append(("C05.unfuse_restores", f"{what}: original block {s!r} not restored exactly"))
    want_keys = {tuple(s[ax] for ax in perm) for s in x.blocks}
    for k, Z in z.blocks.items():
        if k not in want_keys and np.any(np.asarray(Z) != 0):
            fails.append(("C05.unfuse_extra_zero", f"{what}: extra block {k!r} is not exactly zero"))
    try:
        audit_valid(z)
    except Invalid as e:
        fails.append(("C05.valid", f"{what}: invalid: {e}"))
    return fails


# ----------------------------------------------------------------------------
# C07: shape-level interpreter of a reshape plan


class PlanError(Exception):
    pass


def reshape_plan_apply(shape, subsizes, plan, track=False):
    """unfuse replaces an axis by its sub sizes (in the order given, positions refer
    to the current shape); each grouping fuses its groups simultaneously, the fused
    axes are inserted at the first fused position; expand inserts size-1 axes at
    the given positions in the given order."""
    axs_unfuse, groupings, axs_expand = plan
    cur = list(shape)
    subs = list(subsizes)
    for ax in axs_unfuse:
        if not (0 <= ax < len(cur)) or subs[ax] is None:
            raise PlanError(f"unfuse of axis {ax} which has no sub sizes (current shape {cur})")
        cur[ax : ax + 1] = list(subs[ax])
        subs[ax : ax + 1] = [None] * len(subs[ax])
    for grouping in groupings:
        flat = [ax for g in grouping for ax in g]
        if len(set(flat)) != len(flat):
            raise PlanError(f"groups overlap: {grouping}")
        for g in grouping:
            if not g:
                raise PlanError(f"empty group in {grouping}")
            if list(g) != list(range(g[0], g[0] + len(g))):
                raise PlanError(f"group {g} not contiguous")
            if g[0] < 0 or g[-1] >= len(cur):
                raise PlanError(f"group {g} outside current shape {cur}")
        position, before, after, _ = axis_plan(len(cur), [list(g) for g in grouping])
        new = [cur[a] for a in before]
        newsubs = [subs[a] for a in before]
        for g in grouping:
            p = 1
            for a in g:
                p *= cur[a]
            new.append(p)
            # a fused axis remembers the sizes of its parts; a single-axis group is unchanged
            newsubs.append(subs[g[0]] if len(g) == 1 else tuple(cur[a] for a in g))
        new.extend(cur[a] for a in after)
        newsubs.extend(subs[a] for a in after)
        # adjacency: simultaneous fusing must not reorder the untouched axes
        kept_old = [a for a in range(len(cur)) if a not in set(flat)]
        if before + after != kept_old:
            raise PlanError("ungrouped axes reordered")
        lo, hi = min(flat), max(flat)
        if any(lo < a < hi for a in kept_old):
            raise PlanError(f"grouping {grouping} is not a run of adjacent groups (would move axes)")
        cur = new
        subs = newsubs
    for ax in axs_expand:
        if not (0 <= ax <= len(cur)):
            raise PlanError(f"expand position {ax} outside current shape {cur}")
        cur.insert(ax, 1)
        subs.insert(ax, None)
    if track:
        return tuple(cur), tuple(subs)
    return tuple(cur)
