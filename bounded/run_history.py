"""Bounded stand-in for history independence through SHARED index objects (C15, C05, C01, C06, C10):
an array derived from another (conj / dagger / transpose / copy / phase ops / squeeze+expand) shares or
copies the BlockIndex objects of its parent, including any memoised hash key.  Operations on the
derived array after the parent has been fused / contracted must give what they give in a fresh
history (cache cleared, parent never touched), and results must be valid."""

import itertools

import numpy as np

from bounded.common import *  # noqa: F401,F403
from bounded.common import G, SYMS, arrays_equal, audit_valid, build_array, conj_index_spec, driver_main, is_valid, rand_array_spec, sr, stable_hash
import symmray.abelian_core as ac

CONTRACTS = {
    "HIST.derived_after_parent_use": (
        "x (abelian or fermionic, rank 2-4, five symmetries) is fused / contracted first; then y = derive(x) for derive in conj, dagger, transpose, copy, conj+transpose; then y is fused with the same / other groupings, contracted with x, and unfused",
        "seeded random arrays (rank <= 4, <= 3 charges per index) x all groupings of two fixed shapes x 6 derivations; compared exactly with the same computation in a cold history",
    ),
}

CONTRACTS["HIST.nested_fuse_structural_ops"] = (
    "x of rank 3-5 is fused twice on its leading axes (nested sub-index info), then conjugated / daggered / transposed / copied; the result must be valid at every nesting level and unfusing twice must give the same operation applied to x",
    "seeded random arrays (rank 3-5, five symmetries with emphasis on the non self-inverse ones, abelian and fermionic)",
)

DERIVE = ["conj", "dagger", "transpose_rev", "copy", "conj_transpose", "neg"]


def derive(x, how):
    if how == "conj":
        return x.conj()
    if how == "dagger":
        return x.dagger()
    if how == "transpose_rev":
        return x.transpose()
    if how == "copy":
        return x.copy()
    if how == "conj_transpose":
        return x.conj().transpose()
    if how == "neg":
        return -x
    raise ValueError(how)


def gen_cases(tier, seed):
    rng = np.random.default_rng(seed + 77)
    n = 400 if tier == "quick" else 6000
    for i in range(n):
        sym = SYMS[i % len(SYMS)]
        ferm = bool((i // len(SYMS)) % 2)
        nd = int(rng.integers(2, 5))
        spec = rand_array_spec(rng, sym, ndim=nd, fermionic=ferm, max_charges=3, sizes=(1, 2), sparsity=0.2, lazy=ferm and bool(rng.integers(0, 2)))
        perm = rng.permutation(nd).tolist()
        k = int(rng.integers(1, nd))
        groups = [perm[:k], perm[k:]] if rng.integers(0, 2) else [perm[: max(2, k)]]
        yield {"contract": "HIST.derived_after_parent_use", "a": spec, "groups": groups, "how": DERIVE[i % len(DERIVE)]}
    yield from gen_nested(tier, seed)


def gen_nested(tier, seed):
    rng = np.random.default_rng(seed + 177)
    n = 300 if tier == "quick" else 5000
    syms = ["U1", "U1U1", "Z4", "U1", "Z2", "Z2Z2"]
    for i in range(n):
        sym = syms[i % len(syms)]
        ferm = bool((i // 3) % 2) and sym != "Z4"
        nd = int(rng.integers(3, 6))
        spec = rand_array_spec(rng, sym, ndim=nd, fermionic=ferm, max_charges=3, sizes=(1, 2), sparsity=0.15)
        yield {"contract": "HIST.nested_fuse_structural_ops", "a": spec, "how": ["conj", "dagger", "copy", "neg"][i % 4]}


def check_nested(d):
    x = build_array(d["a"])
    how = d["how"]
    feats = {"how": how, "fermionic": bool(d["a"].get("fermionic")), "sym": d["a"]["sym"], "nested": True}
    fails = []
    try:
        y = x.fuse((0, 1)).fuse((0, 1))  # axes 0,1 fused, then (that, next) fused: nested sub-index info
        z = derive(y, how)
        v, msg = is_valid(z)
        if not v:
            fails.append(("HIST.nested.valid_after_" + how, msg, feats))
        ferm = bool(d["a"].get("fermionic"))
        if how in ("conj", "copy", "neg"):
            u = z.unfuse(0).unfuse(0)
            v, msg = is_valid(u)
            if not v:
                fails.append(("HIST.nested.valid_after_unfusing", msg, feats))
            # fermionic conj of a fused leg keeps the internal order of its sub-legs, so it differs from
            # conj of the unfused array by a reordering sign: equality is only claimed without fermionic signs
            if not (ferm and how == "conj"):
                want = derive(x, how)
                ok, why = arrays_equal(u, want, exact=True, why=True)
                if not ok:
                    fails.append(("HIST.nested.unfuse_twice_equals_op_on_original", f"{how}: {why}", feats))
        else:
            nd = z.ndim
            u = z.unfuse(nd - 1).unfuse(nd - 1)
            v, msg = is_valid(u)
            if not v:
                fails.append(("HIST.nested.valid_after_unfusing", msg, feats))
    except Exception as e:  # noqa: BLE001
        fails.append(("HIST.nested.no_exception", f"{type(e).__name__}: {str(e)[:200]}", feats))
    return {
        "fingerprint": ("nested", d["a"]["sym"], d["a"].get("fermionic"), repr(d["a"]["indices"]), how),
        "nontrivial": len(x.blocks) > 0,
        "failures": fails[:3],
        "sample": {"sym": d["a"]["sym"], "how": how, "ndim": len(d["a"]["indices"])},
    }


def _run(d, warm):
    ac._fuseinfos.clear()
    x = build_array(d["a"])
    groups = [tuple(g) for g in d["groups"]]
    if warm:
        # history: the parent is used first (hash keys memoised on its index objects, cache filled)
        x.fuse(*groups)
        if x.ndim >= 2:
            xc = x.conj()
            sr.tensordot(x, xc, axes=(tuple(range(x.ndim)), tuple(range(x.ndim))))
        ac._fuseinfos  # noqa: B018
    y = derive(x, d["how"])
    nd = y.ndim
    # the same axis groups (as positions) on the derived array
    yf = y.fuse(*groups)
    out = [yf]
    out.append(yf.unfuse_all() if hasattr(yf, "unfuse_all") else yf)
    # contraction of the derived array with a matching partner in the default (fused) mode
    z = y.conj() if d["how"] not in ("conj", "conj_transpose") else y.conj()
    r = sr.tensordot(y, z, axes=(tuple(range(nd - 1)), tuple(range(nd - 1))), preserve_array=True) if nd >= 2 else None
    if r is not None:
        out.append(r)
    return out


def check_case(d):
    if d["contract"] == "HIST.nested_fuse_structural_ops":
        return check_nested(d)
    fails = []
    feats = {"how": d["how"], "fermionic": bool(d["a"].get("fermionic")), "sym": d["a"]["sym"]}
    try:
        cold = _run(d, False)
    except Exception as e:  # noqa: BLE001
        return {"fingerprint": ("hist", stable_hash(repr(d))), "nontrivial": False, "failures": [("HIST.no_exception_cold", f"{type(e).__name__}: {e}", feats)]}
    try:
        warm = _run(d, True)
    except Exception as e:  # noqa: BLE001
        fails.append(("HIST.no_exception_after_parent_use", f"{type(e).__name__}: {str(e)[:200]}", feats))
        warm = None
    finally:
        ac._fuseinfos.clear()
    if warm is not None:
        for i, (c, w) in enumerate(zip(cold, warm)):
            ok, why = arrays_equal(c, w, exact=True, why=True)
            if not ok:
                fails.append(("HIST.same_result_as_cold_history", f"result {i} of derive={d['how']} groups={d['groups']}: {why}", feats))
                break
        for i, w in enumerate(warm):
            v, msg = is_valid(w)
            if not v:
                fails.append(("HIST.valid_after_parent_use", f"result {i}: {msg}", feats))
                break
    x = build_array(d["a"])
    return {
        "fingerprint": ("hist", d["a"]["sym"], d["a"].get("fermionic"), repr(d["a"]["indices"]), repr(d["groups"]), d["how"]),
        "nontrivial": len(x.blocks) > 0,
        "failures": fails,
        "sample": {"sym": d["a"]["sym"], "fermionic": d["a"].get("fermionic"), "groups": d["groups"], "how": d["how"]},
    }


if __name__ == "__main__":
    driver_main("bounded.run_history")
