"""C02 (bounded): abelian contraction == dense contraction.

Oracle: numpy (tensordot / matmul / trace / einsum) on the independent dense form of the
operands (charges sorted per axis, contracted indices embedded into the union of the two
charge tables), compared EXACTLY (integer-valued data) with the dense form of the result on
the charges the result keeps; everything the result dropped must be exactly zero.
"""

import itertools

import autoray as ar
import numpy as np

from bounded.common import *  # noqa: F401,F403
from bounded.common import G, build_array, dense_of, driver_main, jcharge, rand_array_spec, rand_index_spec, sr, stable_hash, ucharge
from bounded.oracles_abelian import (
    ALL_SYMS,
    MODES,
    compare_with_dense,
    dense_on,
    expected_tensordot,
    gen_small_arrays,
    gen_small_pairs,
    merge_tables,
    norm_axes,
    rand_dtype,
    rand_pair,
    rand_partner_cm,
    scalar_equal,
    small_index_specs,
    small_pool,
    spec_struct,
    tables_of,
)

CONTRACTS = {
    "C02.tensordot_dense": (
        "sr.tensordot / autoray.do('tensordot') of two abelian arrays (Z2, U1, Z2Z2, U1U1 static+generic classes, Z4 generic) sharing 0..3 matched index pairs "
        "(same table opposite direction, or a strict sub-/super-table on one side), every order of contracted axes, int and negative axes, "
        "modes auto/fused/blockwise, missing blocks, nothing aligned, scalar results with preserve_array False/True, outer products, float64/complex128/float32/complex64 (also mixed; integer fills, exact)",
        "quick: exhaustive for operands of rank<=2 over index structures with <=2 charges from the first 2 charges of the symmetry (fixed block sizes), all total charges, "
        "every sector subset (<=4 valid sectors) -- about 9e4 pairs -- then seeded random pairs up to rank 4 with <=3 charges per index, sizes 1..3; "
        "thorough: the first 3 charges for pairs with rank sum <= 3, and 1.5e6 random cases",
    ),
    "C02.matmul_dense": (
        "x @ y for 1-D/2-D abelian operands with matching inner index (same/sub/super table)",
        "exhaustive small scope (as above) + seeded random",
    ),
    "C02.trace_dense": (
        "x.trace() / sr.trace / autoray trace of abelian matrices whose two indices match (same/sub/super table, opposite direction)",
        "exhaustive small scope over all matching index pairs, charges, sector subsets + seeded random with <=4 charges per index",
    ),
    "C02.einsum_dense": (
        "x.einsum(eq) / sr.einsum for every single-array equation over <=4 letters with <=2 traced pairs and every output order, preserve_array False/True for scalars",
        "exhaustive small scope for <=3 letters and the doubly traced 4-letter equations, seeded random for all 52 equations up to rank 4",
    ),
}


# ----------------------------------------------------------------------------
# einsum equations


def all_einsum_eqs(max_n=4, max_t=2):
    """[(eq, traced pairs [(i,j)..], n)] for every single-array equation."""
    out = []
    for n in range(1, max_n + 1):
        for t in range(0, min(max_t, n // 2) + 1):
            for pos in itertools.combinations(range(n), 2 * t):
                for match in _matchings(list(pos)):
                    letters = [None] * n
                    nxt = 0
                    pair_of = {}
                    for i, j in match:
                        pair_of[i] = (i, j)
                        pair_of[j] = (i, j)
                    names = {}
                    for p in range(n):
                        key = pair_of.get(p, p)
                        if key not in names:
                            names[key] = "abcdefgh"[nxt]
                            nxt += 1
                        letters[p] = names[key]
                    kept = [letters[p] for p in range(n) if p not in pair_of]
                    for rhs in itertools.permutations(kept):
                        out.append(("".join(letters) + "->" + "".join(rhs), [list(m) for m in match], n))
    return out


def _matchings(pos):
    if not pos:
        yield []
        return
    first = pos[0]
    for k in range(1, len(pos)):
        rest = pos[1:k] + pos[k + 1 :]
        for m in _matchings(rest):
            yield [(first, pos[k])] + m


EINSUM_EQS = all_einsum_eqs()


# ----------------------------------------------------------------------------
# case generation


def _td(a, b, axes, variant, route="sr", pa=False):
    return {"contract": "C02.tensordot_dense", "a": a, "b": b, "axes": axes, "variant": variant, "route": route, "pa": pa}


def _matched_matrix_specs(sym, idx_specs, pool, seed):
    """Small-scope matrices whose second index matches the first (same / sub / super table)."""
    from bounded.oracles_abelian import jsectors, sector_subsets, sub_table_variants
    from bounded.common import reachable_charges, spec_valid_sectors

    for i0 in idx_specs:
        for vname, cm in sub_table_variants(i0, sym, pool):
            idxs = [i0, {"cm": cm, "dual": not i0["dual"]}]
            for ch in reachable_charges(sym, idxs):
                h = stable_hash((sym, idxs, ch, "tr"))
                base = {"sym": sym, "fermionic": False, "static": bool(h & 1), "indices": idxs, "charge": jcharge(ch),
                        "dtype": "complex128" if (h >> 1) & 1 else "float64"}
                valid = spec_valid_sectors(base)
                for sub in sector_subsets(valid, (sym, idxs, ch)):
                    spec = dict(base)
                    spec["sectors"] = jsectors(sub)
                    spec["fill_seed"] = (h ^ seed) & 0x7FFFFFFF
                    yield spec, vname


def _einsum_array_specs_small(sym, eq, pairs, n, idx_specs, pool, seed):
    from bounded.oracles_abelian import jsectors, sector_subsets
    from bounded.common import reachable_charges, spec_valid_sectors

    second = {j: i for i, j in pairs}
    indep = [p for p in range(n) if p not in second]
    for choice in itertools.product(idx_specs, repeat=len(indep)):
        idxs = [None] * n
        for p, isp in zip(indep, choice):
            idxs[p] = isp
        for j, i in second.items():
            idxs[j] = {"cm": idxs[i]["cm"], "dual": not idxs[i]["dual"]}
        for ch in reachable_charges(sym, idxs):
            h = stable_hash((sym, idxs, ch, "es"))
            base = {"sym": sym, "fermionic": False, "static": bool(h & 1), "indices": idxs, "charge": jcharge(ch),
                    "dtype": "complex128" if (h >> 1) & 1 else "float64"}
            valid = spec_valid_sectors(base)
            for sub in sector_subsets(valid, (sym, idxs, ch), n_extra=1):
                spec = dict(base)
                spec["sectors"] = jsectors(sub)
                spec["fill_seed"] = (h ^ seed) & 0x7FFFFFFF
                yield spec


def _rand_einsum_case(rng, sym):
    eq, pairs, n = EINSUM_EQS[int(rng.integers(0, len(EINSUM_EQS)))]
    idxs = [rand_index_spec(rng, sym, 3, (1, 2, 3)) for _ in range(n)]
    for i, j in pairs:
        cm, _ = rand_partner_cm(rng, sym, idxs[i], p_sub=0.25)
        idxs[j] = {"cm": cm, "dual": not idxs[i]["dual"]}
    # prefer a total charge that the traced structure can carry: pick from reachable at random
    spec = rand_array_spec(rng, sym, indices=idxs, dtype=rand_dtype(rng))
    return {"contract": "C02.einsum_dense", "a": spec, "eq": eq}


def gen_cases(tier, seed):
    quick = tier == "quick"
    npool = 2 if quick else 3
    # ---- exhaustive small scope -------------------------------------------------
    for sym in ALL_SYMS:
        idx = small_index_specs(sym, npool=npool)
        pool = small_pool(sym, npool)
        n = 0
        for na in (0, 1, 2):
            for nb in (0, 1, 2):
                # thorough: the first 3 charges for the smaller pairs, the first 2 for rank 2 x rank 2
                np_ = npool if na + nb <= 3 else 2
                idx_, pool_ = small_index_specs(sym, npool=np_), small_pool(sym, np_)
                for k in range(0, min(na, nb) + 1):
                    for a, b, axes, vname in gen_small_pairs(sym, na, nb, k, idx_, pool_, seed=seed):
                        n += 1
                        yield _td(a, b, axes, vname, route="ar" if n % 5 == 0 else "sr", pa=bool(n % 2))
        # matmul: (1,1) (1,2) (2,1) (2,2), inner index = last of a / first of b
        for na in (1, 2):
            for nb in (1, 2):
                np_ = npool if na + nb <= 3 else 2
                for a, b, axes, vname in gen_small_pairs(sym, na, nb, 1, small_index_specs(sym, npool=np_), small_pool(sym, np_), seed=seed + 1):
                    if axes == [[na - 1], [0]]:
                        yield {"contract": "C02.matmul_dense", "a": a, "b": b, "variant": vname}
        for spec, vname in _matched_matrix_specs(sym, small_index_specs(sym, npool=max(npool, 3), vary_sizes=True), small_pool(sym, max(npool, 3)), seed):
            yield {"contract": "C02.trace_dense", "a": spec, "variant": vname}
        for eq, pairs, n_ in EINSUM_EQS:
            t = len(pairs)
            if n_ <= 3 or t == 2:
                np_ = npool if n_ - t <= 2 else 2
                for spec in _einsum_array_specs_small(sym, eq, pairs, n_, small_index_specs(sym, npool=np_), small_pool(sym, np_), seed):
                    yield {"contract": "C02.einsum_dense", "a": spec, "eq": eq}
    # ---- seeded random ----------------------------------------------------------
    rng = np.random.default_rng([seed, 202])
    n_rand = 40000 if quick else 1500000
    for i in range(n_rand):
        sym = ALL_SYMS[i % len(ALL_SYMS)]
        r = i % 10
        if r < 7:
            p = rand_pair(rng, sym, max_ndim=4, max_k=3)
            yield _td(p["a"], p["b"], p["axes"], p["variant"], route="ar" if i % 7 == 0 else "sr", pa=bool(rng.integers(0, 2)))
        elif r == 7:
            p = rand_pair(rng, sym, max_ndim=2, max_k=1, min_k=1, int_prob=1.0)
            yield {"contract": "C02.matmul_dense", "a": p["a"], "b": p["b"], "variant": p["variant"]}
        elif r == 8:
            i0 = rand_index_spec(rng, sym, 4, (1, 2, 3))
            cm, vname = rand_partner_cm(rng, sym, i0)
            idxs = [i0, {"cm": cm, "dual": not i0["dual"]}]
            if rng.random() < 0.5:
                idxs = idxs[::-1]
            spec = rand_array_spec(rng, sym, indices=idxs, dtype=rand_dtype(rng))
            yield {"contract": "C02.trace_dense", "a": spec, "variant": vname}
        else:
            yield _rand_einsum_case(rng, sym)


# ----------------------------------------------------------------------------
# checks


def _feat(d, **kw):
    f = {"sym": d["a"]["sym"], "variant": d.get("variant", "same")}
    f.update(kw)
    return f


def _call(fn, *args, **kw):
    try:
        return True, fn(*args, **kw)
    except Exception as e:  # symmray raising on a valid input is a finding, not a crash
        return False, f"{type(e).__name__}: {e}"


def check_tensordot(d):
    a = build_array(d["a"])
    b = build_array(d["b"])
    sym = d["a"]["sym"]
    axes = d["axes"]
    na, nb = a.ndim, b.ndim
    axa, axb = norm_axes(axes, na, nb)
    k = len(axa)
    full, tabs, duals = expected_tensordot(a, b, axes)
    exp_charge = G.add(sym, a.charge, b.charge)
    fails = []
    scalar = na + nb - 2 * k == 0
    pas = (False, True) if scalar else (bool(d.get("pa", False)),)
    lib_axes = axes if isinstance(axes, int) else (tuple(axes[0]), tuple(axes[1]))
    aligned = bool(np.any(full != 0))
    for mode in MODES:
        for pa in pas:
            feats = _feat(d, mode=mode, preserve_array=pa, int_axes=isinstance(axes, int), empty_operand=(not a.blocks or not b.blocks))
            det = f" [mode={mode} ranks {na}x{nb} contracted={k} axes={axes} dtypes={d['a'].get('dtype')}/{d['b'].get('dtype')}]"
            if d.get("route") == "ar" and mode == "auto":
                ok, res = _call(ar.do, "tensordot", a, b, lib_axes, preserve_array=pa)
            else:
                ok, res = _call(sr.tensordot, a, b, lib_axes, mode=mode, preserve_array=pa)
            if not ok:
                fails.append(("C02.tensordot_dense.no_exception", res + det, feats))
                continue
            if scalar and not pa:
                if isinstance(res, sr.AbelianArray):
                    fails.append(("C02.tensordot_dense.scalar", "scalar contraction returned an array with preserve_array=False" + det, feats))
                elif not scalar_equal(res, full):
                    fails.append(("C02.tensordot_dense.scalar", f"scalar result {res!r} != dense {full!r}" + det, feats))
                continue
            for suffix, msg in compare_with_dense(res, full, tabs, duals, exp_charge):
                fails.append((f"C02.tensordot_dense.{suffix}", msg + det, feats))
    fp = ("td", spec_struct(d["a"]), spec_struct(d["b"]), repr(axes))
    return {
        "fingerprint": fp,
        "nontrivial": aligned,
        "failures": fails[:6],
        "sample": {"sym": sym, "shape_a": list(a.shape), "shape_b": list(b.shape), "axes": axes, "result_shape": list(full.shape)},
    }


def check_matmul(d):
    a = build_array(d["a"])
    b = build_array(d["b"])
    sym = d["a"]["sym"]
    na, nb = a.ndim, b.ndim
    axes = [[na - 1], [0]]
    full, tabs, duals = expected_tensordot(a, b, axes)
    # independent second form: the @ of the embedded dense operands
    ta, tb = tables_of(a), tables_of(b)
    u = merge_tables(ta[na - 1], tb[0])
    ta[na - 1] = u
    tb[0] = u
    full2 = dense_on(a, ta) @ dense_on(b, tb)
    if not np.array_equal(full, full2):
        raise RuntimeError("harness: np.tensordot and @ disagree on the dense operands")
    feats = _feat(d, ranks=f"{na}x{nb}")
    fails = []
    ok, res = _call(lambda: a @ b)
    if not ok:
        fails.append(("C02.matmul_dense.no_exception", res, feats))
    elif na == 1 and nb == 1:
        if isinstance(res, sr.AbelianArray) or not scalar_equal(res, full):
            fails.append(("C02.matmul_dense.scalar", f"{res!r} != {full!r}", feats))
    else:
        for suffix, msg in compare_with_dense(res, full, tabs, duals, G.add(sym, a.charge, b.charge)):
            fails.append((f"C02.matmul_dense.{suffix}", msg, feats))
    return {
        "fingerprint": ("mm", spec_struct(d["a"]), spec_struct(d["b"])),
        "nontrivial": bool(np.any(full != 0)),
        "failures": fails,
        "sample": {"sym": sym, "shape_a": list(a.shape), "shape_b": list(b.shape)},
    }


def check_trace(d):
    a = build_array(d["a"])
    ta = tables_of(a)
    u = merge_tables(ta[0], ta[1])
    A = dense_on(a, [u, u])
    want = np.trace(A)
    feats = _feat(d)
    fails = []
    got = {}
    for route, fn in (("method", lambda: a.trace()), ("function", lambda: sr.trace(a)), ("autoray", lambda: ar.do("trace", a))):
        ok, res = _call(fn)
        if not ok:
            fails.append(("C02.trace_dense.no_exception", f"{route}: {res}", dict(feats, route=route)))
            continue
        got[route] = res
        if not scalar_equal(res, want):
            fails.append(("C02.trace_dense.value", f"{route}: trace {res!r} != dense trace {want!r}", dict(feats, route=route)))
    return {
        "fingerprint": ("tr", spec_struct(d["a"])),
        "nontrivial": any(s[0] == s[1] for s in a.blocks),
        "failures": fails,
        "sample": {"sym": d["a"]["sym"], "shape": list(a.shape), "trace": repr(want)},
    }


def check_einsum(d):
    a = build_array(d["a"])
    eq = d["eq"]
    lhs, rhs = eq.split("->")
    ta = tables_of(a)
    pos = {}
    for p, q in enumerate(lhs):
        pos.setdefault(q, []).append(p)
    for q, ps in pos.items():
        if len(ps) == 2:
            u = merge_tables(ta[ps[0]], ta[ps[1]])
            ta[ps[0]] = u
            ta[ps[1]] = u
    A = dense_on(a, ta)
    full = np.einsum(eq, A)
    tabs = [ta[lhs.index(q)] for q in rhs]
    duals = [a.indices[lhs.index(q)].dual for q in rhs]
    feats = _feat(d, n_traced=sum(1 for ps in pos.values() if len(ps) == 2), scalar_result=not rhs)
    fails = []
    calls = [("method", lambda: a.einsum(eq), False), ("function", lambda: sr.einsum(eq, a), False)]
    if not rhs:
        calls.append(("method_preserve", lambda: a.einsum(eq, preserve_array=True), True))
    for route, fn, pa in calls:
        ok, res = _call(fn)
        f = dict(feats, route=route)
        if not ok:
            fails.append(("C02.einsum_dense.no_exception", f"{eq} {route}: {res}", f))
            continue
        if not rhs and not pa:
            if isinstance(res, sr.AbelianArray) or not scalar_equal(res, full):
                fails.append(("C02.einsum_dense.scalar", f"{eq} {route}: {res!r} != {full!r}", f))
            continue
        for suffix, msg in compare_with_dense(res, np.asarray(full), tabs, duals, a.charge):
            fails.append((f"C02.einsum_dense.{suffix}", f"{eq} {route}: {msg}", f))
    return {
        "fingerprint": ("es", eq, spec_struct(d["a"])),
        "nontrivial": bool(np.any(full != 0)),
        "failures": fails[:6],
        "sample": {"sym": d["a"]["sym"], "eq": eq, "shape": list(a.shape)},
    }


def check_case(d):
    c = d["contract"]
    if c == "C02.tensordot_dense":
        return check_tensordot(d)
    if c == "C02.matmul_dense":
        return check_matmul(d)
    if c == "C02.trace_dense":
        return check_trace(d)
    if c == "C02.einsum_dense":
        return check_einsum(d)
    raise ValueError(c)


if __name__ == "__main__":
    driver_main("bounded.run_C02")
