"""C08 (bounded): structural / elementwise / arithmetic operations commute with densification
(abelian arrays and BlockVector); method == symmray function == autoray dispatch.

Oracle: the same numpy operation on the independent dense form (`dense_of`, charges sorted
per axis), compared exactly where only + - * neg abs clip transpose conj are involved and
with rtol 1e-12 where / ** sqrt norm are.  Reductions / elementwise functions whose value at
an implicit zero matters (max, min, all, isfinite, clip) are evaluated on the *stored region*
of the dense form (positions covered by stored blocks) -- the rest of the dense array is
structurally zero and symmray never looks at it; this restriction is explicit in the domain.
"""

import itertools

import autoray as ar
import numpy as np

from bounded.common import *  # noqa: F401,F403
from bounded.common import (
    CHARGE_SETS,
    G,
    Invalid,
    arrays_equal,
    audit_valid,
    build_array,
    dense_of,
    driver_main,
    jcharge,
    rand_array_spec,
    reachable_charges,
    spec_valid_sectors,
    sr,
    stable_hash,
    ucharge,
)
from bounded.oracles_abelian import (
    ALL_SYMS,
    build_vector,
    cap_list,
    dense_on,
    gen_small_arrays,
    jsectors,
    sector_subsets,
    small_index_specs,
    small_pool,
    spec_struct,
    stored_mask,
    tables_of,
    vector_struct,
)

CONTRACTS = {
    "C08.transpose_dense": ("x.transpose(perm) / .T / sr.transpose / autoray transpose of abelian arrays, every permutation", "exhaustive small scope rank<=3; random rank<=4, all 24 permutations reachable"),
    "C08.conj_dagger_dense": ("conj (three routes) and dagger / .H: dense conj (+ reversed axes), directions flipped, charge negated", "exhaustive small scope rank<=3 + random rank<=5"),
    "C08.squeeze": (
        "squeeze(axis) with axis None / int / tuple / negative: equals np.squeeze on size-one zero-charge axes; MUST raise ValueError when a named axis is larger than one or carries a non-zero charge",
        "exhaustive small scope rank<=3 over index structures incl. size-one zero- and non-zero-charge axes, every single axis (+ and -), all-unit tuple, None; random rank<=5",
    ),
    "C08.expand_dims": ("expand_dims at every position (negative too), default and explicit charge / direction: dense np.expand_dims, new unit index, total charge updated", "exhaustive small scope rank<=3; random rank<=4"),
    "C08.scalar_ops": ("x*s, s*x, x/s, -x for real and complex python scalars", "exhaustive small scope rank<=3 x 4 scalars; random rank<=5"),
    "C08.add_sub": ("a+b and a-b for arrays with equal indices and charge but different stored sectors and dtypes; a-b may raise ValueError when the sector sets differ", "every ordered pair of (capped) sector subsets in the small scope rank<=3; random rank<=4"),
    "C08.mul_elementwise": ("a*b (elementwise) for operands with different stored sectors: dense product; a*b == b*a", "as C08.add_sub"),
    "C08.multiply_diagonal": (
        "multiply_diagonal(v, axis) with a BlockVector missing some of the axis' charges (and holding foreign ones): dense multiply along the axis, missing charge == zeros; three routes; negative axis may raise",
        "small scope: every axis x every subset of the axis' charges (+ foreign charge); random rank<=4",
    ),
    "C08.reductions": (
        "sum, norm (whole dense form), any; max, min, all on the stored region of the dense form (implicit zeros outside stored blocks are not looked at by symmray; accounted for explicitly), three routes each",
        "exhaustive small scope rank<=3 + random rank<=5",
    ),
    "C08.elementwise_array": ("abs, sqrt(abs) (whole dense form), isfinite, clip (stored region) on arrays, three routes", "exhaustive small scope rank<=3 + random rank<=5"),
    "C08.vector_ops": (
        "BlockVector: + - * / ** with scalars (both sides) and vectors (different key sets: + is outer, * is inner, - / ** need equal keys else ValueError), unary minus, abs sqrt clip isfinite, sum max min norm all any, to_dense; three routes",
        "all vectors over the first 2 charges with block sizes 1..2, all ordered pairs; random vectors over <=4 charges, sizes 1..3, float64/complex128",
    ),
    "C08.routes_agree": (
        "for every function exported by symmray/interface.py except log/log2/log10: method, symmray function and autoray.do give identical results or raise the same exception type (arrays and vectors)",
        "small-scope arrays rank<=3 (capped) and vectors + random",
    ),
    "C08.log_dispatch": ("sr.log / log2 / log10 and autoray.do on arrays and vectors: returns the blockwise logarithm or raises; recorded whether the exception is a RecursionError (features.recursion)", "a few arrays and vectors per symmetry"),
}

SCALARS = [2, -3, 0.5, [1, 2]]


def _scalar(s):
    return complex(*s) if isinstance(s, list) else s


def eq(a, b, exact=True):
    a, b = np.asarray(a), np.asarray(b)
    if a.shape != b.shape:
        return False
    if exact:
        return bool(np.array_equal(a, b, equal_nan=True))
    return bool(np.allclose(a, b, rtol=1e-12, atol=1e-12, equal_nan=True))


def idx_of(x):
    return [(dict(ix.chargemap), bool(ix.dual)) for ix in x.indices]


def expect_array(res, want_dense, want_indices, want_charge, exact=True):
    if not isinstance(res, sr.AbelianArray):
        return [("type", f"result is {type(res).__name__}")]
    if res.ndim != len(want_indices):
        return [("rank", f"rank {res.ndim} != {len(want_indices)}")]
    fails = []
    if res.charge != want_charge:
        fails.append(("charge", f"charge {res.charge!r} != {want_charge!r}"))
    try:
        audit_valid(res)
    except Invalid as e:
        return fails + [("valid", str(e))]
    for i, (ix, (cm, dual)) in enumerate(zip(res.indices, want_indices)):
        if dict(ix.chargemap) != cm or bool(ix.dual) != dual:
            return fails + [("indices", f"axis {i}: {dict(ix.chargemap)} dual={ix.dual} expected {cm} dual={dual}")]
    got = dense_of(res)
    if not eq(got, want_dense, exact):
        fails.append(("values", "dense(result) != numpy op on dense(operand)"))
    return fails


def run_routes(routes):
    out = {}
    for name, th in routes:
        try:
            out[name] = ("ok", th())
        except RecursionError:
            out[name] = ("exc", "RecursionError", "")
        except Exception as e:
            out[name] = ("exc", type(e).__name__, str(e)[:200])
    return out


def same_result(r1, r2):
    if isinstance(r1, tuple) or isinstance(r2, tuple):
        return isinstance(r1, tuple) and isinstance(r2, tuple) and len(r1) == len(r2) and all(same_result(p, q) for p, q in zip(r1, r2))
    s1 = isinstance(r1, (sr.AbelianArray, sr.BlockVector))
    s2 = isinstance(r2, (sr.AbelianArray, sr.BlockVector))
    if s1 or s2:
        if type(r1) is not type(r2):
            return False
        if isinstance(r1, sr.BlockVector):
            if set(r1.blocks) != set(r2.blocks):
                return False
            return all(eq(r1.blocks[k], r2.blocks[k]) for k in r1.blocks)
        return bool(arrays_equal(r1, r2, exact=True, check_subinfo=True))
    return eq(r1, r2)


def routes_disagree(out, ref="method"):
    msgs = []
    if ref not in out:
        ref = next(iter(out))
    r0 = out[ref]
    for name, r in out.items():
        if name == ref:
            continue
        if r0[0] != r[0]:
            msgs.append(f"{ref}: {r0[0]} {r0[1] if r0[0] == 'exc' else ''} but {name}: {r[0]} {r[1] if r[0] == 'exc' else ''}")
        elif r0[0] == "exc":
            if r0[1] != r[1]:
                msgs.append(f"{ref} raises {r0[1]} but {name} raises {r[1]}")
        elif not same_result(r0[1], r[1]):
            msgs.append(f"{ref} and {name} return different results")
    return msgs


# ----------------------------------------------------------------------------
# universes


def small_arrays(sym, seed, tier):
    idxv = small_index_specs(sym, 2, vary_sizes=True)
    idxf = small_index_specs(sym, 2 if tier == "quick" else 3)
    for nd in (0, 1, 2):
        yield from gen_small_arrays(sym, nd, idxv, seed=seed, n_extra=2, include_empty=(nd == 1))
    yield from gen_small_arrays(sym, 3, idxf, seed=seed, n_extra=2, subset_cap=4 if tier == "quick" else None)


def small_structures(sym, tier):
    """(indices, charge, valid sectors) of the small scope, for binary operations."""
    idxv = small_index_specs(sym, 2, vary_sizes=True)
    idxf = small_index_specs(sym, 2 if tier == "quick" else 3)
    for nd, idx in ((1, idxv), (2, idxv), (3, idxf)):
        for idxs in itertools.product(idx, repeat=nd):
            idxs = list(idxs)
            for ch in reachable_charges(sym, idxs):
                base = {"sym": sym, "fermionic": False, "indices": idxs, "charge": jcharge(ch)}
                yield base, spec_valid_sectors(base)


def _mk(base, sub, tag, seed, dtype=None, static=None):
    h = stable_hash((base["sym"], base["indices"], base["charge"], tag))
    spec = dict(base)
    spec["static"] = bool(h & 1) if static is None else static
    spec["dtype"] = dtype or ("complex128" if (h >> 1) & 1 else "float64")
    spec["sectors"] = jsectors(sub)
    spec["fill_seed"] = (h ^ seed ^ stable_hash(repr(sub))) & 0x7FFFFFFF
    return spec


def vector_for_axis(spec, axis, keep, extra, seed, dtype="float64"):
    cm = spec["indices"][axis]["cm"]
    blocks = [[c, d] for (c, d), k in zip(cm, keep) if k]
    if extra is not None:
        blocks.append([jcharge(extra), 2])
    return {"blocks": blocks, "fill_seed": seed, "dtype": dtype}


def small_vectors(sym, seed):
    pool = small_pool(sym, 2)
    out = []
    for cs in ([0], [1], [0, 1]):
        for szs in itertools.product((1, 2), repeat=len(cs)):
            for dt in ("float64", "complex128"):
                out.append({"blocks": [[jcharge(pool[j]), s] for j, s in zip(cs, szs)], "fill_seed": (seed + len(out)) & 0xFFFF, "dtype": dt})
    return out


def rand_vector(rng, sym, keys=None, sizes=None):
    pool = CHARGE_SETS[sym]
    if keys is None:
        k = int(rng.integers(1, min(4, len(pool)) + 1))
        keys = [pool[i] for i in sorted(rng.choice(len(pool), size=k, replace=False).tolist())]
    blocks = [[jcharge(c), int(sizes[c]) if sizes and c in sizes else int(rng.integers(1, 4))] for c in keys]
    return {"blocks": blocks, "fill_seed": int(rng.integers(0, 2**31 - 1)), "dtype": "complex128" if rng.random() < 0.4 else "float64"}


ARRAY_FNS = ("conj", "max", "min", "sum", "all", "any", "isfinite", "abs", "sqrt", "clip", "squeeze", "expand_dims", "reshape", "tensordot", "einsum", "transpose", "trace", "multiply_diagonal", "align_axes", "fuse")
VECTOR_FNS = ("conj", "max", "min", "sum", "all", "any", "isfinite", "abs", "sqrt", "clip")
VEC_SCALAR_OPS = ("add", "radd", "sub", "rsub", "mul", "rmul", "truediv", "rtruediv", "pow", "rpow")
VEC_VECTOR_OPS = ("add", "sub", "mul", "truediv", "pow")


def _array_cases(spec, rng_small, tier):
    """All per-array descriptors of one array spec."""
    nd = len(spec["indices"])
    sym = spec["sym"]
    if nd <= 4:
        perms = list(itertools.permutations(range(nd)))
        for ip, p in enumerate(perms):
            yield {"contract": "C08.transpose_dense", "a": spec, "perm": list(p)}
            if nd >= 1 and (ip + nd) % 2 == 0:
                # the same permutation with some axes counted from the end (numpy spelling)
                yield {"contract": "C08.transpose_dense", "a": spec, "perm": list(p), "neg_mask": (3 * ip + nd) % (2**nd - 1) + 1}
        yield {"contract": "C08.transpose_dense", "a": spec, "perm": None}
    yield {"contract": "C08.conj_dagger_dense", "a": spec}
    if "complex" in spec.get("dtype", "float64") and spec.get("sectors") and (spec["sectors"] == "all" or len(spec["sectors"]) > 1):
        # blocks of mixed element type, as made by  real_array + complex_array : first stored block real, others complex
        yield {"contract": "C08.conj_dagger_dense", "a": dict(spec, mixed_block_dtypes=True)}
        yield {"contract": "C08.transpose_dense", "a": dict(spec, mixed_block_dtypes=True), "perm": list(range(nd))[::-1]} if nd >= 1 else {"contract": "C08.conj_dagger_dense", "a": spec}
    yield {"contract": "C08.squeeze", "a": spec, "axis": None}
    unit = [i for i, ix in enumerate(spec["indices"]) if sum(d for _, d in ix["cm"]) == 1]
    for i in range(nd):
        yield {"contract": "C08.squeeze", "a": spec, "axis": i}
        yield {"contract": "C08.squeeze", "a": spec, "axis": i - nd}
    if len(unit) >= 2:
        yield {"contract": "C08.squeeze", "a": spec, "axis": unit}
    if nd <= 4:
        pool = CHARGE_SETS[sym]
        for n_, pos in enumerate(range(-(nd + 1), nd + 1)):
            yield {"contract": "C08.expand_dims", "a": spec, "axis": pos, "c": None, "dual": None}
            if pos >= 0:
                h = stable_hash((spec["indices"], spec.get("charge"), pos))
                c = pool[h % len(pool)]
                which = (h >> 5) % 3 if tier == "quick" else None
                if which in (0, None):
                    yield {"contract": "C08.expand_dims", "a": spec, "axis": pos, "c": jcharge(c), "dual": bool((h >> 3) & 1)}
                if which in (1, None):
                    yield {"contract": "C08.expand_dims", "a": spec, "axis": pos, "c": jcharge(c if (h >> 7) & 1 else G.zero(sym)), "dual": None}
                if which in (2, None):
                    yield {"contract": "C08.expand_dims", "a": spec, "axis": pos, "c": None, "dual": bool((h >> 4) & 1)}
    yield {"contract": "C08.scalar_ops", "a": spec}
    yield {"contract": "C08.reductions", "a": spec}
    yield {"contract": "C08.elementwise_array", "a": spec}


def _mdiag_cases(spec, seed):
    nd = len(spec["indices"])
    sym = spec["sym"]
    for axis in range(nd):
        cm = spec["indices"][axis]["cm"]
        have = [ucharge(c) for c, _ in cm]
        extra = [c for c in CHARGE_SETS[sym] if c not in have]
        for keep in itertools.product((True, False), repeat=len(cm)):
            v = vector_for_axis(spec, axis, keep, None, seed, dtype="complex128" if stable_hash((keep, axis)) & 1 else "float64")
            yield {"contract": "C08.multiply_diagonal", "a": spec, "v": v, "axis": axis}
        if extra:
            v = vector_for_axis(spec, axis, [True] + [False] * (len(cm) - 1), extra[0], seed)
            yield {"contract": "C08.multiply_diagonal", "a": spec, "v": v, "axis": axis}
    if nd:
        v = vector_for_axis(spec, nd - 1, [True] * len(spec["indices"][-1]["cm"]), None, seed)
        yield {"contract": "C08.multiply_diagonal", "a": spec, "v": v, "axis": -1}


def _route_cases_array(spec, seed):
    nd = len(spec["indices"])
    for fn in ARRAY_FNS:
        if fn in ("trace",) and nd != 2:
            continue
        if fn in ("multiply_diagonal", "fuse", "align_axes", "tensordot") and nd == 0:
            continue
        yield {"contract": "C08.routes_agree", "kind": "array", "fn": fn, "a": spec}


def gen_cases(tier, seed):
    quick = tier == "quick"
    # ---- exhaustive small scope -------------------------------------------------
    for sym in ALL_SYMS:
        n = 0
        for spec in small_arrays(sym, seed, tier):
            n += 1
            yield from _array_cases(spec, None, tier)
            yield from _mdiag_cases(spec, seed)
            if n % 4 == 0:
                yield from _route_cases_array(spec, seed)
            if n % 97 == 0:
                for fn in ("log", "log2", "log10"):
                    yield {"contract": "C08.log_dispatch", "kind": "array", "fn": fn, "a": spec}
        for base, valid in small_structures(sym, tier):
            subs = cap_list(sector_subsets(valid, (sym, base["indices"], base["charge"]), include_empty=True), 5 if quick else 9)
            for sa in subs:
                for sb in subs:
                    a = _mk(base, sa, "a", seed)
                    b = _mk(base, sb, "b", seed)
                    yield {"contract": "C08.add_sub", "a": a, "b": b}
                    yield {"contract": "C08.mul_elementwise", "a": a, "b": b}
        vecs = small_vectors(sym, seed)
        for v in vecs:
            yield {"contract": "C08.vector_ops", "kind": "unary", "v": v}
            for op in VEC_SCALAR_OPS:
                for s in SCALARS:
                    yield {"contract": "C08.vector_ops", "kind": "scalar", "v": v, "op": op, "s": s}
            for fn in VECTOR_FNS:
                yield {"contract": "C08.routes_agree", "kind": "vector", "fn": fn, "v": v}
            for w in vecs:
                sv, sw = dict(map(lambda e: (repr(e[0]), e[1]), v["blocks"])), dict(map(lambda e: (repr(e[0]), e[1]), w["blocks"]))
                if any(sw.get(k_, d_) != d_ for k_, d_ in sv.items()):
                    continue  # same charge with different block sizes: not a valid pair
                for op in VEC_VECTOR_OPS:
                    yield {"contract": "C08.vector_ops", "kind": "vector", "v": v, "w": w, "op": op}
        for fn in ("log", "log2", "log10"):
            yield {"contract": "C08.log_dispatch", "kind": "vector", "fn": fn, "v": vecs[-1]}
    # ---- seeded random ----------------------------------------------------------
    rng = np.random.default_rng([seed, 808])
    n_rand = 2500 if quick else 60000
    for i in range(n_rand):
        sym = ALL_SYMS[i % len(ALL_SYMS)]
        nd = int(rng.integers(0, 6))
        spec = rand_array_spec(rng, sym, ndim=nd, dtype="complex128" if rng.random() < 0.4 else "float64", sizes=(1, 1, 2, 3) if rng.random() < 0.5 else (1, 2, 3))
        if rng.random() < 0.03:
            spec["sectors"] = []
        if nd <= 4:
            cases = list(_array_cases(spec, None, tier))
            # keep a random third of the transposes for rank 4 to stay within budget
            for d in cases:
                if d["contract"] == "C08.transpose_dense" and nd == 4 and rng.random() < 0.6:
                    continue
                yield d
        else:
            for d in _array_cases(spec, None, tier):
                yield d
        if nd <= 4:
            yield from _mdiag_cases(spec, int(rng.integers(0, 2**16)))
            yield from _route_cases_array(spec, seed)
            # binary operations: same structure, different sectors / dtype / class kind
            valid = spec_valid_sectors(spec)
            if valid:
                other = dict(spec)
                keep = [s for s in valid if rng.random() < 0.6]
                other["sectors"] = jsectors(keep)
                other["fill_seed"] = int(rng.integers(0, 2**31 - 1))
                other["dtype"] = "complex128" if rng.random() < 0.4 else "float64"
                yield {"contract": "C08.add_sub", "a": spec, "b": other}
                yield {"contract": "C08.mul_elementwise", "a": spec, "b": other}
                same = dict(other)
                same["sectors"] = spec.get("sectors", "all")
                yield {"contract": "C08.add_sub", "a": spec, "b": same}
        v = rand_vector(rng, sym)
        keys = [ucharge(c) for c, _ in v["blocks"]]
        sizes = {ucharge(c): d for c, d in v["blocks"]}
        if rng.random() < 0.5:
            w = rand_vector(rng, sym, keys=keys, sizes=sizes)
        else:
            pool = CHARGE_SETS[sym]
            k2 = [c for c in pool if rng.random() < 0.6] or [pool[0]]
            w = rand_vector(rng, sym, keys=k2, sizes=sizes)
        yield {"contract": "C08.vector_ops", "kind": "unary", "v": v}
        for op in VEC_VECTOR_OPS:
            yield {"contract": "C08.vector_ops", "kind": "vector", "v": v, "w": w, "op": op}
        op = VEC_SCALAR_OPS[int(rng.integers(0, len(VEC_SCALAR_OPS)))]
        yield {"contract": "C08.vector_ops", "kind": "scalar", "v": v, "op": op, "s": SCALARS[int(rng.integers(0, len(SCALARS)))]}
        fn = VECTOR_FNS[int(rng.integers(0, len(VECTOR_FNS)))]
        yield {"contract": "C08.routes_agree", "kind": "vector", "fn": fn, "v": v}


# ----------------------------------------------------------------------------
# checks: arrays


def _f(d, **kw):
    f = {"sym": (d.get("a") or {}).get("sym")}
    f.update(kw)
    return f


def _collect(prefix, pairs, feats, fails):
    for suffix, msg in pairs:
        fails.append((f"{prefix}.{suffix}", msg, feats))


def check_transpose(d):
    x = build_array(d["a"])
    perm = d["perm"]
    D = dense_of(x)
    nd = x.ndim
    p = tuple(perm) if perm is not None else tuple(range(nd - 1, -1, -1))
    want = np.transpose(D, p)
    ix = idx_of(x)
    want_idx = [ix[i] for i in p]
    fails = []
    if perm is None:
        routes = [("method", lambda: x.transpose()), ("T", lambda: x.T), ("function", lambda: sr.transpose(x)), ("autoray", lambda: ar.do("transpose", x))]
    else:
        mask = d.get("neg_mask", 0)
        q = tuple(ax - nd if (mask >> i) & 1 else ax for i, ax in enumerate(p))  # spelling handed to the library
        routes = [("method", lambda: x.transpose(q)), ("function", lambda: sr.transpose(x, q)), ("autoray", lambda: ar.do("transpose", x, q))]
    out = run_routes(routes)
    for name, r in out.items():
        feats = _f(d, route=name, default_perm=perm is None, negative_axes=bool(d.get("neg_mask", 0)))
        if r[0] == "exc":
            fails.append(("C08.transpose_dense.no_exception", f"{name}: {r[1]}: {r[2]}", feats))
        else:
            _collect("C08.transpose_dense", [(s, f"{name}: {m}") for s, m in expect_array(r[1], want, want_idx, x.charge)], feats, fails)
    return {"fingerprint": ("tr", spec_struct(d["a"]), repr(perm), d.get("neg_mask", 0)), "nontrivial": bool(x.blocks), "failures": fails[:6],
            "sample": {"sym": d["a"]["sym"], "shape": list(x.shape), "perm": perm}}


def check_conj_dagger(d):
    x = build_array(d["a"])
    sym = d["a"]["sym"]
    D = dense_of(x)
    ix = idx_of(x)
    cidx = [(cm, not dual) for cm, dual in ix]
    ncharge = G.neg(sym, x.charge)
    fails = []
    out = run_routes([("method", lambda: x.conj()), ("function", lambda: sr.conj(x)), ("autoray", lambda: ar.do("conj", x))])
    for name, r in out.items():
        feats = _f(d, op="conj", route=name)
        if r[0] == "exc":
            fails.append(("C08.conj_dense.no_exception", f"{name}: {r[1]}: {r[2]}", feats))
        else:
            _collect("C08.conj_dense", [(s, f"{name}: {m}") for s, m in expect_array(r[1], np.conj(D), cidx, ncharge)], feats, fails)
    rev = tuple(range(x.ndim - 1, -1, -1))
    out = run_routes([("method", lambda: x.dagger()), ("H", lambda: x.H)])
    for name, r in out.items():
        feats = _f(d, op="dagger", route=name)
        if r[0] == "exc":
            fails.append(("C08.dagger_dense.no_exception", f"{name}: {r[1]}: {r[2]}", feats))
        else:
            _collect("C08.dagger_dense", [(s, f"{name}: {m}") for s, m in expect_array(r[1], np.transpose(np.conj(D), rev), cidx[::-1], ncharge)], feats, fails)
    return {"fingerprint": ("cj", spec_struct(d["a"])), "nontrivial": bool(x.blocks), "failures": fails[:6], "sample": {"sym": sym, "shape": list(x.shape)}}


def check_squeeze(d):
    x = build_array(d["a"])
    sym = d["a"]["sym"]
    axis = d["axis"]
    nd = x.ndim
    D = dense_of(x)
    zero = G.zero(sym)
    if axis is None:
        named = [i for i, ix in enumerate(x.indices) if sum(ix.chargemap.values()) == 1]
        lib_axis = None
    elif isinstance(axis, int):
        named = [axis % nd]
        lib_axis = axis
    else:
        named = [a_ % nd for a_ in axis]
        lib_axis = tuple(axis)
    neg = (isinstance(axis, int) and axis < 0) or (isinstance(axis, list) and any(a_ < 0 for a_ in axis))
    too_big = [i for i in named if sum(x.indices[i].chargemap.values()) > 1]
    charged = [i for i in named if not too_big and list(x.indices[i].chargemap) != [zero]]
    must_raise = bool(too_big or charged)
    feats0 = _f(d, negative_axis=neg, axis_kind="none" if axis is None else ("int" if isinstance(axis, int) else "tuple"), must_raise=must_raise)
    fails = []
    routes = [("method", lambda: x.squeeze(lib_axis)), ("function", lambda: sr.squeeze(x, lib_axis)), ("autoray", lambda: ar.do("squeeze", x, lib_axis))]
    if axis is None:
        routes.append(("method_default", lambda: x.squeeze()))
    out = run_routes(routes)
    ix = idx_of(x)
    for name, r in out.items():
        feats = dict(feats0, route=name)
        if must_raise:
            if r[0] == "ok":
                fails.append(("C08.squeeze.must_raise", f"{name}: squeeze({axis}) of an axis that is {'larger than one' if too_big else 'charged'} returned shape {getattr(r[1], 'shape', None)} instead of raising", feats))
            elif r[1] != "ValueError":
                fails.append(("C08.squeeze.must_raise", f"{name}: raised {r[1]} instead of ValueError: {r[2]}", feats))
            continue
        if r[0] == "exc":
            fails.append(("C08.squeeze.no_exception", f"{name}: {r[1]}: {r[2]}", feats))
            continue
        want = np.squeeze(D, axis=tuple(named))
        want_idx = [ix[i] for i in range(nd) if i not in named]
        _collect("C08.squeeze", [(s, f"{name}: squeeze({axis}): {m}") for s, m in expect_array(r[1], want, want_idx, x.charge)], feats, fails)
    return {"fingerprint": ("sq", spec_struct(d["a"]), repr(axis)), "nontrivial": bool(x.blocks) and bool(named), "failures": fails[:6],
            "sample": {"sym": sym, "shape": list(x.shape), "axis": axis, "must_raise": must_raise}}


def check_expand_dims(d):
    x = build_array(d["a"])
    sym = d["a"]["sym"]
    axis, c, dual = d["axis"], d["c"], d["dual"]
    nd = x.ndim
    D = dense_of(x)
    pos = axis if axis >= 0 else axis + nd + 1
    cc = G.zero(sym) if c is None else ucharge(c)
    want = np.expand_dims(D, pos)
    ix = idx_of(x)
    fails = []
    kw = {}
    if c is not None:
        kw["c"] = cc
    if dual is not None:
        kw["dual"] = dual
    routes = [("method", lambda: x.expand_dims(axis, **kw))]
    if not kw:
        routes += [("function", lambda: sr.expand_dims(x, axis)), ("autoray", lambda: ar.do("expand_dims", x, axis))]
    out = run_routes(routes)
    for name, r in out.items():
        feats = _f(d, route=name, negative_axis=axis < 0, explicit_charge=c is not None, explicit_dual=dual is not None)
        if r[0] == "exc":
            fails.append(("C08.expand_dims.no_exception", f"{name}: {r[1]}: {r[2]}", feats))
            continue
        res = r[1]
        if not isinstance(res, sr.AbelianArray) or res.ndim != nd + 1:
            fails.append(("C08.expand_dims.rank", f"{name}: rank {getattr(res, 'ndim', None)} != {nd + 1}", feats))
            continue
        new_dual = bool(res.indices[pos].dual) if dual is None else bool(dual)
        want_idx = ix[:pos] + [({cc: 1}, new_dual)] + ix[pos:]
        want_charge = G.add(sym, x.charge, G.neg(sym, cc) if new_dual else cc)
        _collect("C08.expand_dims", [(s, f"{name}: {m}") for s, m in expect_array(res, want, want_idx, want_charge)], feats, fails)
    return {"fingerprint": ("ed", spec_struct(d["a"]), axis, repr(c), repr(dual)), "nontrivial": bool(x.blocks), "failures": fails[:6],
            "sample": {"sym": sym, "shape": list(x.shape), "axis": axis, "c": c, "dual": dual}}


def check_scalar_ops(d):
    x = build_array(d["a"])
    D = dense_of(x)
    ix = idx_of(x)
    fails = []
    ops = [("neg", lambda s: -x, lambda s: -D, True)]
    with np.errstate(all="ignore"):
        for s_ in SCALARS:
            s = _scalar(s_)
            for name, th, wf, exact in (
                ("mul", lambda s=s: x * s, lambda s=s: D * s, True),
                ("rmul", lambda s=s: s * x, lambda s=s: s * D, True),
                ("truediv", lambda s=s: x / s, lambda s=s: D / s, False),
            ):
                out = run_routes([("method", th)])["method"]
                feats = _f(d, op=name, complex_scalar=isinstance(s, complex))
                if out[0] == "exc":
                    fails.append(("C08.scalar_ops.no_exception", f"{name} {s!r}: {out[1]}: {out[2]}", feats))
                else:
                    _collect("C08.scalar_ops", [(sx, f"{name} {s!r}: {m}") for sx, m in expect_array(out[1], wf(), ix, x.charge, exact=exact)], feats, fails)
        out = run_routes([("method", lambda: -x)])["method"]
        if out[0] == "exc":
            fails.append(("C08.scalar_ops.no_exception", f"neg: {out[1]}: {out[2]}", _f(d, op="neg")))
        else:
            _collect("C08.scalar_ops", [(sx, f"neg: {m}") for sx, m in expect_array(out[1], -D, ix, x.charge)], _f(d, op="neg"), fails)
    return {"fingerprint": ("sc", spec_struct(d["a"])), "nontrivial": bool(x.blocks), "failures": fails[:6], "sample": {"sym": d["a"]["sym"], "shape": list(x.shape)}}


def check_add_sub(d):
    a = build_array(d["a"])
    b = build_array(d["b"])
    A, B = dense_of(a), dense_of(b)
    ix = idx_of(a)
    same = set(a.blocks) == set(b.blocks)
    feats = _f(d, same_sectors=same, mixed_dtype=d["a"].get("dtype") != d["b"].get("dtype"))
    fails = []
    r = run_routes([("add", lambda: a + b), ("radd", lambda: b + a), ("sub", lambda: a - b)])
    for name, want in (("add", A + B), ("radd", B + A)):
        o = r[name]
        if o[0] == "exc":
            fails.append(("C08.add_dense.no_exception", f"{name}: {o[1]}: {o[2]}", dict(feats, op=name)))
        else:
            _collect("C08.add_dense", [(s, f"{name}: {m}") for s, m in expect_array(o[1], want, ix, a.charge)], dict(feats, op=name), fails)
    o = r["sub"]
    if o[0] == "exc":
        if same or o[1] != "ValueError":
            fails.append(("C08.sub_dense.no_exception", f"a-b with {'equal' if same else 'different'} sector sets: {o[1]}: {o[2]}", dict(feats, op="sub")))
    else:
        _collect("C08.sub_dense", [(s, f"sub: {m}") for s, m in expect_array(o[1], A - B, ix, a.charge)], dict(feats, op="sub"), fails)
    return {"fingerprint": ("as", spec_struct(d["a"]), spec_struct(d["b"])), "nontrivial": bool(a.blocks) and bool(b.blocks), "failures": fails[:6],
            "sample": {"sym": d["a"]["sym"], "shape": list(a.shape), "same_sectors": same}}


def check_mul(d):
    a = build_array(d["a"])
    b = build_array(d["b"])
    A, B = dense_of(a), dense_of(b)
    ix = idx_of(a)
    only_a = bool(set(a.blocks) - set(b.blocks))
    only_b = bool(set(b.blocks) - set(a.blocks))
    feats = _f(d, left_only_sectors=only_a, right_only_sectors=only_b, mixed_dtype=d["a"].get("dtype") != d["b"].get("dtype"))
    fails = []
    r = run_routes([("ab", lambda: a * b), ("ba", lambda: b * a)])
    for name in ("ab", "ba"):
        o = r[name]
        if o[0] == "exc":
            fails.append(("C08.mul_elementwise.no_exception", f"{name}: {o[1]}: {o[2]}", dict(feats, op=name)))
        else:
            _collect("C08.mul_elementwise", [(s, f"{name}: {m}") for s, m in expect_array(o[1], A * B, ix, a.charge)], dict(feats, op=name), fails)
    if r["ab"][0] == "ok" and r["ba"][0] == "ok":
        ok, msg = arrays_equal(r["ab"][1], r["ba"][1], exact=True, why=True)
        if not ok:
            fails.append(("C08.mul_elementwise.commutative", f"a*b != b*a: {msg}", feats))
        elif set(r["ab"][1].blocks) != set(r["ba"][1].blocks):
            fails.append(("C08.mul_elementwise.commutative", "a*b and b*a store different sector sets", feats))
    return {"fingerprint": ("mu", spec_struct(d["a"]), spec_struct(d["b"])), "nontrivial": bool(set(a.blocks) & set(b.blocks)), "failures": fails[:6],
            "sample": {"sym": d["a"]["sym"], "shape": list(a.shape)}}


def check_mdiag(d):
    x = build_array(d["a"])
    v = build_vector(d["v"])
    axis = d["axis"]
    nd = x.ndim
    ax = axis % nd
    D = dense_of(x)
    tab = tables_of(x)[ax]
    w = np.zeros(sum(tab.values()), dtype=np.result_type(*[b.dtype for b in v.blocks.values()]) if v.blocks else np.float64)
    o = 0
    for c in sorted(tab):
        if c in v.blocks:
            w[o : o + tab[c]] = v.blocks[c]
        o += tab[c]
    shape = [1] * nd
    shape[ax] = -1
    want = D * w.reshape(shape)
    missing = any(c not in v.blocks for c in tab)
    fails = []
    out = run_routes([("method", lambda: x.multiply_diagonal(v, axis)), ("function", lambda: sr.multiply_diagonal(x, v, axis)), ("autoray", lambda: ar.do("multiply_diagonal", x, v, axis))])
    for name, r in out.items():
        feats = _f(d, route=name, negative_axis=axis < 0, vector_missing_charges=missing)
        if r[0] == "exc":
            if axis >= 0:
                fails.append(("C08.multiply_diagonal.no_exception", f"{name}: {r[1]}: {r[2]}", feats))
            continue
        _collect("C08.multiply_diagonal", [(s, f"{name}: {m}") for s, m in expect_array(r[1], want, idx_of(x), x.charge)], feats, fails)
    msgs = routes_disagree(out)
    if msgs:
        fails.append(("C08.multiply_diagonal.routes", "; ".join(msgs)[:300], _f(d, negative_axis=axis < 0)))
    return {"fingerprint": ("md", spec_struct(d["a"]), vector_struct(d["v"]), axis), "nontrivial": bool(x.blocks) and bool(np.any(want != 0)), "failures": fails[:6],
            "sample": {"sym": d["a"]["sym"], "shape": list(x.shape), "axis": axis, "vector_keys": [c for c, _ in d["v"]["blocks"]]}}


def _three(name, x, *args):
    return [("method", lambda: getattr(x, name)(*args)), ("function", lambda: getattr(sr, name)(x, *args)), ("autoray", lambda: ar.do(name, x, *args))]


def check_reductions(d):
    x = build_array(d["a"])
    D = dense_of(x)
    M = stored_mask(x)
    S = D[M]
    fails = []
    has = bool(x.blocks)
    wants = {"sum": (lambda: D.sum(), True), "any": (lambda: D.any(), True)}
    if has:
        wants.update({"max": (lambda: S.max(), True), "min": (lambda: S.min(), True), "all": (lambda: S.all(), True)})
    for fn, (wf, exact) in wants.items():
        out = run_routes(_three(fn, x))
        for name, r in out.items():
            feats = _f(d, fn=fn, route=name, empty=not has)
            if r[0] == "exc":
                if has:
                    fails.append((f"C08.reductions.{fn}.no_exception", f"{name}: {r[1]}: {r[2]}", feats))
                continue
            if isinstance(r[1], (sr.AbelianArray, sr.BlockVector)) or not eq(r[1], wf(), exact):
                fails.append((f"C08.reductions.{fn}", f"{name}: {r[1]!r} != {wf()!r}", feats))
    out = run_routes([("method", lambda: x.norm()), ("autoray", lambda: ar.do("linalg.norm", x))])
    wantn = np.sqrt((np.abs(D) ** 2).sum())
    for name, r in out.items():
        feats = _f(d, fn="norm", route=name, empty=not has)
        if r[0] == "exc":
            if has:
                fails.append(("C08.reductions.norm.no_exception", f"{name}: {r[1]}: {r[2]}", feats))
        elif not np.allclose(r[1], wantn, rtol=1e-9, atol=1e-9):
            fails.append(("C08.reductions.norm", f"{name}: {r[1]!r} != {wantn!r}", feats))
    return {"fingerprint": ("rd", spec_struct(d["a"])), "nontrivial": has, "failures": fails[:6], "sample": {"sym": d["a"]["sym"], "shape": list(x.shape), "covers_dense": bool(M.all())}}


def check_elementwise_array(d):
    x = build_array(d["a"])
    D = dense_of(x)
    M = stored_mask(x)
    ix = idx_of(x)
    fails = []
    has = bool(x.blocks)

    def on_stored(fn_dense):
        W = np.zeros(D.shape, dtype=np.asarray(fn_dense(np.zeros(1, dtype=D.dtype))).dtype)
        W[M] = fn_dense(D[M])
        return W

    xa = x.abs() if has else x
    cases = [
        ("abs", x, (), lambda: np.abs(D), True),
        ("sqrt", xa, (), lambda: np.sqrt(np.abs(D)), False),
        ("isfinite", x, (), lambda: on_stored(np.isfinite), True),
    ]
    if "complex" not in str(D.dtype):
        cases.append(("clip", x, (-1, 2), lambda: on_stored(lambda z: np.clip(z, -1, 2)), True))
        cases.append(("clip", x, (1, 2), lambda: on_stored(lambda z: np.clip(z, 1, 2)), True))
    for fn, obj, args, wf, exact in cases:
        out = run_routes(_three(fn, obj, *args))
        for name, r in out.items():
            feats = _f(d, fn=fn, route=name, empty=not has)
            if r[0] == "exc":
                if has:
                    fails.append((f"C08.elementwise_array.{fn}.no_exception", f"{name}: {r[1]}: {r[2]}", feats))
                continue
            _collect(f"C08.elementwise_array.{fn}", [(s, f"{name}: {m}") for s, m in expect_array(r[1], wf(), ix, x.charge, exact=exact)], feats, fails)
        msgs = routes_disagree(out)
        if msgs:
            fails.append((f"C08.elementwise_array.{fn}.routes", "; ".join(msgs)[:300], _f(d, fn=fn)))
    return {"fingerprint": ("ew", spec_struct(d["a"])), "nontrivial": has, "failures": fails[:6], "sample": {"sym": d["a"]["sym"], "shape": list(x.shape)}}


# ----------------------------------------------------------------------------
# checks: vectors


def vec_tables(*vs):
    t = {}
    for v in vs:
        for k, b in v.blocks.items():
            n = int(np.size(b))
            if t.setdefault(k, n) != n:
                raise RuntimeError("harness: vectors with conflicting block sizes")
    return t


def vec_dense(v, table):
    parts = []
    for k in sorted(table):
        b = v.blocks.get(k)
        parts.append(np.zeros(table[k], dtype=np.float64) if b is None else np.asarray(b).reshape(-1))
    return np.concatenate(parts) if parts else np.zeros((0,))


def expect_vector(res, want, table, keys, exact=True):
    if not isinstance(res, sr.BlockVector):
        return [("type", f"result is {type(res).__name__}")]
    if set(res.blocks) != set(keys):
        return [("keys", f"result keys {sorted(map(repr, res.blocks))} expected {sorted(map(repr, keys))}")]
    try:
        audit_valid(res)
    except Invalid as e:
        return [("valid", str(e))]
    for k, b in res.blocks.items():
        if int(np.size(b)) != table[k]:
            return [("sizes", f"block {k!r} has size {np.size(b)} expected {table[k]}")]
    got = vec_dense(res, table)
    if not eq(got, want, exact):
        return [("values", "dense(result) != numpy op on dense operands")]
    return []


_PY_OPS = {
    "add": lambda p, q: p + q, "radd": lambda p, q: q + p, "sub": lambda p, q: p - q, "rsub": lambda p, q: q - p,
    "mul": lambda p, q: p * q, "rmul": lambda p, q: q * p, "truediv": lambda p, q: p / q, "rtruediv": lambda p, q: q / p,
    "pow": lambda p, q: p**q, "rpow": lambda p, q: q**p,
}
_EXACT_OPS = ("add", "radd", "sub", "rsub", "mul", "rmul")


def check_vector(d):
    v = build_vector(d["v"])
    kind = d["kind"]
    fails = []
    tv = vec_tables(v)
    V = vec_dense(v, tv)
    fp = ("vec", kind, vector_struct(d["v"]))
    with np.errstate(all="ignore"):
        if kind == "scalar":
            op, s = d["op"], _scalar(d["s"])
            fp += (op, repr(s))
            feats = _f(d, kind=kind, op=op, complex_scalar=isinstance(s, complex))
            o = run_routes([("op", lambda: _PY_OPS[op](v, s))])["op"]
            want = _PY_OPS[op](V, s)
            if o[0] == "exc":
                fails.append(("C08.vector_ops.no_exception", f"{op} {s!r}: {o[1]}: {o[2]}", feats))
            else:
                _collect("C08.vector_ops.scalar", [(sx, f"{op} {s!r}: {m}") for sx, m in expect_vector(o[1], want, tv, tv.keys(), exact=op in _EXACT_OPS)], feats, fails)
        elif kind == "vector":
            w = build_vector(d["w"])
            op = d["op"]
            fp += (op, vector_struct(d["w"]))
            t = vec_tables(v, w)
            V2, W2 = vec_dense(v, t), vec_dense(w, t)
            same = set(v.blocks) == set(w.blocks)
            feats = _f(d, kind=kind, op=op, same_keys=same, mixed_dtype=d["v"].get("dtype") != d["w"].get("dtype"))
            o = run_routes([("op", lambda: _PY_OPS[op](v, w))])["op"]
            if op == "add":
                keys = set(v.blocks) | set(w.blocks)
            elif op == "mul":
                keys = set(v.blocks) & set(w.blocks)
            else:
                keys = set(v.blocks)
            if o[0] == "exc":
                if not (op in ("sub", "truediv", "pow") and not same and o[1] == "ValueError"):
                    fails.append(("C08.vector_ops.no_exception", f"{op}: {o[1]}: {o[2]}", feats))
            elif op in ("truediv", "pow") and not same:
                fails.append(("C08.vector_ops.vector", f"{op} of vectors with different key sets returned instead of raising (implicit zeros)", feats))
            else:
                want = _PY_OPS[op](V2, W2)
                if op == "sub" and not same:
                    keys = set(v.blocks) | set(w.blocks)
                _collect("C08.vector_ops.vector", [(sx, f"{op}: {m}") for sx, m in expect_vector(o[1], want, t, keys, exact=op in _EXACT_OPS)], feats, fails)
            if op == "mul" and o[0] == "ok":
                o2 = run_routes([("op", lambda: w * v)])["op"]
                if o2[0] != "ok" or not same_result(o[1], o2[1]):
                    fails.append(("C08.vector_ops.commutative", "v*w != w*v", feats))
        else:
            feats0 = _f(d, kind=kind)
            o = run_routes([("op", lambda: -v)])["op"]
            if o[0] == "exc":
                fails.append(("C08.vector_ops.no_exception", f"neg: {o[1]}: {o[2]}", dict(feats0, op="neg")))
            else:
                _collect("C08.vector_ops.unary", [(sx, f"neg: {m}") for sx, m in expect_vector(o[1], -V, tv, tv.keys())], dict(feats0, op="neg"), fails)
            o = run_routes([("op", lambda: v.to_dense())])["op"]
            if o[0] == "exc" or not eq(o[1], V):
                fails.append(("C08.vector_ops.to_dense", f"to_dense: {o[1:]!r}"[:200], dict(feats0, op="to_dense")))
            va = v.abs()
            unary = [("abs", v, (), np.abs(V), True), ("sqrt", va, (), np.sqrt(np.abs(V)), False), ("isfinite", v, (), np.isfinite(V), True)]
            if "complex" not in str(V.dtype):
                unary.append(("clip", v, (-1, 2), np.clip(V, -1, 2), True))
                unary.append(("clip", v, (1, 2), np.clip(V, 1, 2), True))
            for fn, obj, args, want, exact in unary:
                out = run_routes(_three(fn, obj, *args))
                for name, r in out.items():
                    feats = dict(feats0, fn=fn, route=name)
                    if r[0] == "exc":
                        fails.append((f"C08.vector_ops.{fn}.no_exception", f"{name}: {r[1]}: {r[2]}", feats))
                    else:
                        _collect(f"C08.vector_ops.{fn}", [(sx, f"{name}: {m}") for sx, m in expect_vector(r[1], want, tv, tv.keys(), exact=exact)], feats, fails)
            reds = [("sum", V.sum(), True), ("max", V.max(), True), ("min", V.min(), True), ("all", V.all(), True), ("any", V.any(), True)]
            for fn, want, exact in reds:
                out = run_routes(_three(fn, v))
                for name, r in out.items():
                    feats = dict(feats0, fn=fn, route=name)
                    if r[0] == "exc":
                        fails.append((f"C08.vector_ops.{fn}.no_exception", f"{name}: {r[1]}: {r[2]}", feats))
                    elif isinstance(r[1], sr.BlockVector) or not eq(r[1], want, exact):
                        fails.append((f"C08.vector_ops.{fn}", f"{name}: {r[1]!r} != {want!r}", feats))
            out = run_routes([("method", lambda: v.norm()), ("autoray", lambda: ar.do("linalg.norm", v))])
            wantn = np.sqrt((np.abs(V) ** 2).sum())
            for name, r in out.items():
                if r[0] == "exc":
                    fails.append(("C08.vector_ops.norm.no_exception", f"{name}: {r[1]}: {r[2]}", dict(feats0, fn="norm", route=name)))
                elif not np.allclose(r[1], wantn, rtol=1e-9, atol=1e-9):
                    fails.append(("C08.vector_ops.norm", f"{name}: {r[1]!r} != {wantn!r}", dict(feats0, fn="norm", route=name)))
    return {"fingerprint": fp, "nontrivial": True, "failures": fails[:6], "sample": {"kind": kind, "op": d.get("op"), "keys": [c for c, _ in d["v"]["blocks"]]}}


# ----------------------------------------------------------------------------
# routes / log


def _route_thunks_array(fn, x, d):
    nd = x.ndim
    h = stable_hash((fn, spec_struct(d["a"])))
    if fn in ("conj", "max", "min", "sum", "all", "any", "isfinite", "abs", "trace"):
        return _three(fn, x)
    if fn == "sqrt":
        return _three(fn, x.abs() if x.blocks else x)
    if fn == "clip":
        return _three(fn, x, -1, 1)
    if fn == "squeeze":
        if nd and h & 1:
            return _three(fn, x, (h >> 1) % nd)
        return _three(fn, x)
    if fn == "expand_dims":
        return _three(fn, x, h % (nd + 1))
    if fn == "reshape":
        shp = x.shape
        if nd >= 2 and h & 1:
            new = (shp[0] * shp[1],) + tuple(shp[2:])
        elif h & 2:
            new = (1,) + tuple(shp)
        else:
            new = tuple(shp)
        return _three(fn, x, new)
    if fn == "transpose":
        perm = tuple(np.random.default_rng(h).permutation(nd).tolist())
        return _three(fn, x, perm)
    if fn == "einsum":
        letters = "abcdefgh"[:nd]
        perm = np.random.default_rng(h).permutation(nd).tolist()
        eqn = letters + "->" + "".join(letters[i] for i in perm)
        return [("method", lambda: x.einsum(eqn)), ("function", lambda: sr.einsum(eqn, x)), ("autoray", lambda: ar.do("einsum", eqn, x)), ("autoray_like", lambda: ar.do("einsum", eqn, x, like="symmray"))]
    if fn == "fuse":
        group = tuple(range(nd))[: max(1, min(nd, 2))]
        return _three(fn, x, group)
    if fn in ("tensordot", "align_axes"):
        y = x.conj()
        k = 1 + (h % nd)
        axes = (tuple(range(k)), tuple(range(k)))
        if fn == "tensordot":
            return [("function", lambda: sr.tensordot(x, y, axes)), ("autoray", lambda: ar.do("tensordot", x, y, axes)), ("function_kw", lambda: sr.tensordot(x, y, axes=axes))]
        return [("method", lambda: x.align_axes(y, axes)), ("function", lambda: sr.align_axes(x, y, axes)), ("autoray", lambda: ar.do("align_axes", x, y, axes))]
    if fn == "multiply_diagonal":
        ax = h % nd
        v = sr.BlockVector({c: np.arange(1, dsz + 1, dtype=float) for c, dsz in x.indices[ax].chargemap.items()})
        return _three(fn, x, v, ax)
    raise ValueError(fn)


def check_routes(d):
    fn = d["fn"]
    if d["kind"] == "array":
        x = build_array(d["a"])
        routes = _route_thunks_array(fn, x, d)
        fp = ("rt", "array", fn, spec_struct(d["a"]))
    else:
        v = build_vector(d["v"])
        if fn == "clip":
            routes = _three(fn, v, -1, 1)
        elif fn == "sqrt":
            routes = _three(fn, v.abs())
        else:
            routes = _three(fn, v)
        fp = ("rt", "vector", fn, vector_struct(d["v"]))
    with np.errstate(all="ignore"):
        out = run_routes(routes)
    ref = "method" if "method" in out else "function"
    msgs = routes_disagree(out, ref)
    fails = []
    if msgs:
        fails.append(("C08.routes_agree", f"{fn}: " + "; ".join(msgs)[:300], {"fn": fn, "kind": d["kind"], "sym": (d.get("a") or {}).get("sym")}))
    return {"fingerprint": fp, "nontrivial": any(r[0] == "ok" for r in out.values()), "failures": fails,
            "sample": {"fn": fn, "kind": d["kind"], "outcome": {k: (r[0] if r[0] == "ok" else r[1]) for k, r in out.items()}}}


def check_log(d):
    fn = d["fn"]
    x = build_array(d["a"]) if d["kind"] == "array" else build_vector(d["v"])
    # make the argument positive so that a working implementation would have a defined value on stored blocks
    x = x.abs()
    with np.errstate(all="ignore"):
        out = run_routes([("function", lambda: getattr(sr, fn)(x)), ("autoray", lambda: ar.do(fn, x))])
    fails = []
    recursion = any(r[0] == "exc" and r[1] == "RecursionError" for r in out.values())
    for name, r in out.items():
        if r[0] == "ok":
            res = r[1]
            npf = getattr(np, fn)
            good = type(res) is type(x) and set(res.blocks) == set(x.blocks) and all(eq(res.blocks[k], npf(np.asarray(x.blocks[k])), exact=False) for k in x.blocks)
            if not good:
                fails.append(("C08.log_dispatch.value", f"{name}: {fn} returned something other than the blockwise logarithm", {"fn": fn, "kind": d["kind"], "recursion": False}))
    return {"fingerprint": ("log", fn, d["kind"], recursion, spec_struct(d["a"]) if d["kind"] == "array" else vector_struct(d["v"])), "nontrivial": True, "failures": fails,
            "sample": {"fn": fn, "kind": d["kind"], "features": {"recursion": recursion}, "outcome": {k: (r[0] if r[0] == "ok" else r[1]) for k, r in out.items()}}}


_CHECKS = {
    "C08.transpose_dense": check_transpose,
    "C08.conj_dagger_dense": check_conj_dagger,
    "C08.squeeze": check_squeeze,
    "C08.expand_dims": check_expand_dims,
    "C08.scalar_ops": check_scalar_ops,
    "C08.add_sub": check_add_sub,
    "C08.mul_elementwise": check_mul,
    "C08.multiply_diagonal": check_mdiag,
    "C08.reductions": check_reductions,
    "C08.elementwise_array": check_elementwise_array,
    "C08.vector_ops": check_vector,
    "C08.routes_agree": check_routes,
    "C08.log_dispatch": check_log,
}


def check_case(d):
    return _CHECKS[d["contract"]](d)


if __name__ == "__main__":
    driver_main("bounded.run_C08")
