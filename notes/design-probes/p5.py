import numpy as np, symmray as sr
x = sr.utils.get_rand("Z2",(2,3),duals=[False,True],fermionic=True,seed=0)
lazy = x.phase_flip(0); sync = lazy.phase_sync()
print("phases", lazy.phases)
for name in ("sum","max","min"):
    print(name, getattr(lazy,name)(), getattr(sync,name)())
print("abs dense equal", np.allclose(lazy.abs().to_dense(), sync.abs().to_dense()))
print("sqrt(abs) ", np.allclose(lazy.abs().sqrt().to_dense(), sync.abs().sqrt().to_dense()))
print("clip", np.allclose(lazy.clip(-0.1,0.1).to_dense(), sync.clip(-0.1,0.1).to_dense()))
# scalar item with pending global phase
a = sr.utils.get_rand("Z2",(2,2),duals=[False,False],charge=1,fermionic=True,seed=1,oddpos=1)
b = sr.utils.get_rand("Z2",(2,2),duals=[True,True],charge=1,fermionic=True,seed=2,oddpos=2)
for (p,q) in ((a,b),(b,a)):
    c = sr.tensordot(p,q,axes=[(0,1),(1,0)],preserve_array=True)
    print("scalar arr phases", c.phases, "float(c)", float(c), "synced", float(c.phase_sync()), "plain", sr.tensordot(p,q,axes=[(0,1),(1,0)]))
# norm
print("norm", lazy.norm(), sync.norm())
# scalar multiply, neg, add
print("mul", np.allclose((lazy*2).to_dense(), (sync*2).to_dense()), "neg", np.allclose((-lazy).to_dense(), (-sync).to_dense()))
print("add", np.allclose((lazy+lazy).to_dense(), (sync+sync).to_dense()))
print("truediv", np.allclose((lazy/2).to_dense(), (sync/2).to_dense()))
