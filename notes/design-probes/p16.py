import numpy as np, symmray as sr
x = sr.utils.get_rand("Z2",(2,2),duals=[False,True],fermionic=True,seed=0)
y = x.expand_dims(0, c=1)
print("expand_dims odd c: charge", y.charge, "parity", y.parity, "oddpos", y.oddpos)
# solve with odd a, even b
a = sr.Z2FermionicArray.random([sr.BlockIndex({0:2,1:2}), sr.BlockIndex({0:2,1:2}, dual=True)], charge=1, seed=3, oddpos=7)
b = sr.Z2FermionicArray.random([sr.BlockIndex({0:2,1:2})], charge=0, seed=4)
xx = sr.linalg.solve(a, b)
print("solve odd a even b: x.charge", xx.charge, "oddpos", xx.oddpos)
try:
    r = sr.tensordot(a, xx, 1); print("a@x oddpos", r.oddpos, "allclose b", r.allclose(b))
except Exception as e: print("a@x raises", type(e).__name__, e)
b1 = sr.Z2FermionicArray.random([sr.BlockIndex({0:2,1:2})], charge=1, seed=4, oddpos=9)
xx = sr.linalg.solve(a, b1); print("solve odd a odd b: x.charge", xx.charge, "oddpos", xx.oddpos)
try:
    r = sr.tensordot(a, xx, 1); print("a@x oddpos", r.oddpos, "b oddpos", b1.oddpos, "allclose", r.allclose(b1))
except Exception as e: print("a@x raises", type(e).__name__, e)
