import numpy as np, symmray as sr, traceback
# C05 concat with singlet group + missing sub-block
x = sr.utils.get_rand("Z2",(2,2,2,2),duals=[False,True,False,True],seed=0)
y = x.copy(); 
del y.blocks[(0,0,1,1)]
for mode in ("insert","concat"):
    try:
        f = y.fuse((0,),(1,2), mode=mode); print(mode, "ok", f.shape)
        u = f.unfuse(1); print(" roundtrip", u.allclose(y))
    except Exception as e: print(mode, "FAIL", type(e).__name__, e)
# C06 fused free leg unfused silently
a = sr.utils.get_rand("Z2",(2,2,2),duals=[False,False,True],seed=0)
b = sr.utils.get_rand("Z2",(2,2),duals=[False,True],seed=1)
af = a.fuse((0,1))   # shape (4,2): leg0 fused
for mode in ("fused","blockwise"):
    c = sr.tensordot(af, b, axes=[(1,),(0,)], mode=mode); print(mode, c.ndim, c.shape)
# C13 cutoff beyond total weight
m = sr.utils.get_rand("Z2",(6,6),duals=[False,True],seed=0)
for mode in (1,2,3,4,5,6):
  for cutoff in (1e-3, 0.5, 0.99, 1.0, 1.5, 100., 1e6):
    try:
        U,s,VH = sr.linalg.svd_truncated(m, cutoff=cutoff, cutoff_mode=mode, absorb=None)
        n = sum(len(v) for v in s.blocks.values())
    except Exception as e: n = type(e).__name__
    print(mode, cutoff, n, end=" | ")
  print()
