# Feasibility: hand-written VCs for resolve_combined_oddpos loop body (swap / annihilate / advance branches)
from z3 import *
import time
Op = Datatype('Op'); Op.declare('mk', ('label', IntSort()), ('dual', BoolSort())); Op = Op.create()
A = ArraySort(IntSort(), Op)
G = Function('G', A, IntSort(), IntSort())     # ghost Grassmann value of (list, len)
def lt(x, y):  # FermionicOperator.__lt__
    return If(Op.dual(x), If(Op.dual(y), Op.label(x) > Op.label(y), True),
              If(Op.dual(y), False, Op.label(x) < Op.label(y)))
def ok(a,b): return And(Op.label(a)!=Op.label(b), Not(lt(b,a)))
s = Const('s', A); n, i, phase, g0 = Ints('n i phase g0'); j = Int('j')
inv = lambda s,n,i,phase: And(0<=i, Or(phase==1,phase==-1), phase*G(s,n)==g0,
                               ForAll([j], Implies(And(0<=j, j<i, j+1<n), ok(s[j], s[j+1]))))
a, b = s[i], s[i+1]
guard = i < n-1
res = {}
def prove(name, hyp, goal):
    sol = Solver(); sol.set('timeout', 20000); sol.add(hyp); sol.add(Not(goal))
    t=time.time(); r = sol.check(); res[name]=(r, round(time.time()-t,2)); print(name, r, res[name][1])
    if r==sat: print(sol.model())
# swap branch
s2 = Store(Store(s, i, b), i+1, a)
swap_lemma = Implies(And(0<=i, i<n-1, Op.label(a)!=Op.label(b)), G(s,n) == -G(s2,n))
i2 = If(i-1>0, i-1, 0)
prove('swap', And(inv(s,n,i,phase), guard, Op.label(a)!=Op.label(b), lt(b,a), swap_lemma), inv(s2,n,i2,-phase))
# annihilate branch: r = s with i,i+1 removed
r = Const('r', A)
rdef = ForAll([j], r[j] == If(j<i, s[j], s[j+2]))
ann_lemma = Implies(And(0<=i, i<n-1, Op.label(a)==Op.label(b), Op.dual(a)!=Op.dual(b)),
                    G(s,n) == If(Op.dual(b), -1, 1)*G(r,n-2))
ph2 = If(Op.dual(b), -phase, phase)
prove('annihilate', And(inv(s,n,i,phase), guard, Op.label(a)==Op.label(b), Op.dual(a)!=Op.dual(b), rdef, ann_lemma), inv(r,n-2,i2,ph2))
# advance branch
prove('advance', And(inv(s,n,i,phase), guard, Op.label(a)!=Op.label(b), Not(lt(b,a))), inv(s,n,i+1,phase))
# exit: sorted
prove('exit', And(inv(s,n,i,phase), Not(guard)), ForAll([j], Implies(And(0<=j, j+1<n), ok(s[j], s[j+1]))))
# mutant: forget the sign flip in swap -> should be sat
prove('MUTANT swap no flip', And(inv(s,n,i,phase), guard, Op.label(a)!=Op.label(b), lt(b,a), swap_lemma), inv(s2,n,i2,phase))
