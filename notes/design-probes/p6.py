import numpy as np, symmray as sr, autoray as ar
try:
    f = ar.get_lib_fn("numpy","qr_stabilized"); print("autoray numpy qr_stabilized exists", f)
except Exception as e: print("no qr_stabilized:", type(e).__name__, e)
for dt in ("float64","complex128"):
    m = sr.utils.get_rand("Z2",(4,4),duals=[False,True],seed=1,dtype=dt)
    q,r = sr.linalg.qr(m, stabilized=True)
    print(dt, "recon", sr.tensordot(q,r,1).allclose(m), "diag", [np.round(np.diag(b),3) for b in r.blocks.values()])
