import numpy as np, symmray as sr
for dt in ("float32","complex64","complex128"):
    x = sr.utils.get_rand("Z2",(2,2,2),duals=[False,True,False],seed=0,dtype=dt)
    print(dt, "full to_dense:", x.to_dense().dtype, end="; ")
    y = x.copy(); del y.blocks[(0,0,0)]
    print("sparse to_dense:", y.to_dense().dtype, end="; ")
    z = y.copy(); z.fill_missing_blocks(); print("fill_missing:", {b.dtype.name for b in z.blocks.values()}, end="; ")
    for mode in ("insert","concat"):
        f = y.fuse((0,1), mode=mode); print(mode, {b.dtype.name for b in f.blocks.values()}, end="; ")
    b = sr.utils.get_rand("Z2",(2,2),duals=[True,False],seed=1,dtype=dt)
    c = sr.tensordot(y, b, axes=[(2,),(0,)]); print("tdot", {v.dtype.name for v in c.blocks.values()}, end="; ")
    m = sr.utils.get_rand("Z2",(4,4),duals=[False,True],seed=1,dtype=dt)
    u,s,v = sr.linalg.svd(m); print("svd", {v.dtype.name for v in u.blocks.values()}, {v.dtype.name for v in s.blocks.values()})
