from z3 import *
import time
def prove(name, hyps, goal, to=20000):
    sol = Solver(); sol.set('timeout', to); sol.add(hyps); sol.add(Not(goal))
    t0=time.time(); r=sol.check(); print(name, r, round(time.time()-t0,3), sol.model() if r==sat else '')
# ---- (e) gen_valid_sectors exactness, per concrete group, QF: X = signed sum of partial sector (ghost fold const)
# code: signed_partial = combine(*(sign(c, not dual))) ; required = sign(combine(charge, signed_partial), last_dual)
X, charge, r = Ints('X charge r'); ld = Bool('ld')
# U1: combine=+, sign(c,d)= -c if d else c ; LS3: fold with flipped duals = -X
def sgnU1(c,d): return If(d,-c,c)
req = sgnU1(charge + (-X), ld)
prove('U1 sound+complete', [], (X + sgnU1(r, ld) == charge) == (r == req))
# Z4 as written: sign(c,d) = 4-c if d else c ; combine = sum % 4 ; valid in 0..3
def sgnZ4(c,d): return If(d, 4-c, c)
Xm = Int('Xm')   # code-level: combine(*(sign(c,not dual))) in 0..3 ; LS3-mod: Xm == (-X) % 4 where X true signed sum
hy = [0<=charge, charge<4, 0<=r, r<4, Xm == (-X) % 4]
reqZ4 = sgnZ4((charge + Xm) % 4, ld)
prove('Z4 (current code) complete?', hy, ((X + If(ld,-r,r)) % 4 == charge) == (r == reqZ4))
reqZ4fix = If(ld, (4 - (charge + Xm) % 4) % 4, (charge + Xm) % 4)
prove('Z4 (fixed sign)', hy, ((X + If(ld,-r,r)) % 4 == charge) == (r == reqZ4fix))
# ---- (c) calc_sub_max_bonds fold invariant step (reals)
fracT, F, k, p, f, mb, tot = Reals('fracT F k p f mb tot')
sz = Real('sz')
inv = lambda fracT,F,k: And(fracT - k < F, F <= fracT)
step_h = [inv(fracT,F,k), k>=0, p>=0, f <= p, p-1 < f]          # p = frac*sz (fresh), f = floor(p)
prove('sub_max_bonds step', step_h, inv(fracT+p, F+f, k+1))
# exit: fracT == max_bond ; rem = mb - F ; 0 <= rem < n  (n=k)
prove('sub_max_bonds rem range', [inv(mb,F,k), k>=1], And(mb-F >= 0, mb-F < k))
# each entry: frac<1, sz>=1 integer, f=floor(frac*sz) -> f+1 <= sz  (nonlinear: frac*sz)
frac = Real('frac'); szI = Int('szI'); fI = Int('fI')
prove('entry bound', [0<=frac, frac<1, szI>=1, ToReal(fI) <= frac*ToReal(szI), frac*ToReal(szI) < ToReal(fI)+1], fI+1 <= szI)
