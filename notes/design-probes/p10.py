import numpy as np, symmray as sr, itertools
exec(open('helpers.py').read())
bad = {}
# ---- C07 reshape: merge adjacent axes and back
for trial in range(3000):
    sym = ["Z2","U1","Z2Z2","U1U1"][trial%4]; ferm = bool(trial//4%2)
    nd = int(rng.integers(2,5))
    ixs = []
    for _ in range(nd):
        if rng.random()<0.25:   # singleton axis, maybe nonzero charge
            c = charges(sym)[rng.integers(len(charges(sym)))]
            ixs.append(sr.BlockIndex({c:1}, dual=bool(rng.integers(2))))
        else: ixs.append(rand_ix(sym, rng.integers(2), rng))
    cs = charges(sym)
    try:
        x = rand_arr(sym, ixs, cs[rng.integers(len(cs))], rng, ferm=ferm, oddpos=1)
        if not x.blocks: continue
        # choose a composition of axes into adjacent runs
        cuts = sorted(set(rng.choice(range(1,nd), size=int(rng.integers(0,nd)), replace=False).tolist())) if nd>1 else []
        runs = np.split(np.arange(nd), cuts)
        # target shape uses the *fused* sizes: get via explicit fuse
        groups = [tuple(int(a) for a in r) for r in runs]
        f = x.fuse(*[g for g in groups if len(g)>1]) if any(len(g)>1 for g in groups) else x.copy()
        tgt = f.shape
        y = x.reshape(tgt)
        if y.shape != tgt: bad.setdefault("shape",[]).append((sym,ferm,trial,x.shape,tgt,y.shape)); continue
        if abs(y.norm()-x.norm())>1e-12: bad.setdefault("norm",[]).append((sym,ferm,trial))
        z = y.reshape(x.shape)
        if z.shape!=x.shape or not same(z,x): bad.setdefault("roundtrip",[]).append((sym,ferm,trial,x.shape,tgt))
        if not same(x.reshape(x.shape), x): bad.setdefault("identity",[]).append((sym,ferm,trial))
    except Exception as e:
        bad.setdefault("exc:"+type(e).__name__+":"+str(e)[:50],[]).append((sym,ferm,trial,tuple(x.shape)))
print("C07", {k:(len(v),v[:4]) for k,v in bad.items()})
