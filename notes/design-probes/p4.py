import numpy as np, symmray as sr
rng = np.random.default_rng(0)
# hermitian charge-0 fermionic matrix
ix = sr.BlockIndex({0:2,1:3}, dual=False)
x = sr.Z2FermionicArray.random([ix, ix.conj()], charge=0, seed=1)
for s,b in x.blocks.items(): x.blocks[s] = b + b.T
lazy = x.phase_flip(0)           # pending -1 on (1,1)
sync = lazy.phase_sync()
print("phases", lazy.phases, sync.phases, "dense equal", np.allclose(lazy.to_dense(), sync.to_dense()))
el, ev = sr.linalg.eigh(lazy); el2, ev2 = sr.linalg.eigh(sync)
print("eigh evals lazy", {k: np.round(v,3) for k,v in el.blocks.items()})
print("eigh evals sync", {k: np.round(v,3) for k,v in el2.blocks.items()})
# reconstruct
def recon(el, ev):
    return sr.tensordot(sr.multiply_diagonal(ev, el, 1), ev.H, 1)
print("recon lazy ok", recon(el,ev).allclose(lazy), " recon sync ok", recon(el2,ev2).allclose(sync))
# qr / svd with pending phases
m = sr.Z2FermionicArray.random([sr.BlockIndex({0:2,1:3}), sr.BlockIndex({0:3,1:2}, dual=True)], charge=0, seed=2)
ml = m.phase_flip(1); ms = ml.phase_sync()
for nm, M in (("lazy", ml), ("sync", ms)):
    q, r = sr.linalg.qr(M); print(nm, "qr recon", sr.tensordot(q, r, 1).allclose(M), end="; ")
    u, s, v = sr.linalg.svd(M); print("svd recon", sr.tensordot(sr.multiply_diagonal(u, s, 1), v, 1).allclose(M))
# solve
a = sr.Z2FermionicArray.random([sr.BlockIndex({0:2,1:3}), sr.BlockIndex({0:2,1:3}, dual=True)], charge=0, seed=3)
b = sr.Z2FermionicArray.random([sr.BlockIndex({0:2,1:3})], charge=1, seed=4, oddpos=1)
al = a.phase_flip(0); as_ = al.phase_sync()
for nm, A in (("lazy", al), ("sync", as_)):
    xx = sr.linalg.solve(A, b); print(nm, "solve residual ok", sr.tensordot(A, xx, 1).allclose(b), np.round(xx.to_dense(),3))
