import Mathlib

open Finset BigOperators

variable {G : Type*} [AddCommGroup G]

/-- signed contribution of a charge on an index with dualness `d` -/
def sgn (d : Bool) (c : G) : G := if d then -c else c

/-- signed sum of a sector -/
def signedSum {n : ℕ} (s : Fin n → G) (d : Fin n → Bool) : G := ∑ i, sgn (d i) (s i)

/-- LS2: permutation invariance -/
theorem signedSum_perm {n : ℕ} (s : Fin n → G) (d : Fin n → Bool) (p : Equiv.Perm (Fin n)) :
    signedSum (s ∘ p) (d ∘ p) = signedSum s d := by
  unfold signedSum
  exact Equiv.sum_comp p (fun i => sgn (d i) (s i))

/-- LS3: flipping every dualness negates the signed sum -/
theorem signedSum_not {n : ℕ} (s : Fin n → G) (d : Fin n → Bool) :
    signedSum s (fun i => !(d i)) = - signedSum s d := by
  unfold signedSum sgn
  rw [← Finset.sum_neg_distrib]
  apply Finset.sum_congr rfl
  intro i _
  cases d i <;> simp

/-- LS5: partition of the axes into a subset J and its complement -/
theorem signedSum_split {n : ℕ} (s : Fin n → G) (d : Fin n → Bool) (J : Finset (Fin n)) :
    (∑ i ∈ J, sgn (d i) (s i)) + (∑ i ∈ Jᶜ, sgn (d i) (s i)) = signedSum s d := by
  unfold signedSum
  exact Finset.sum_add_sum_compl J _
