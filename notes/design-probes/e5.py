from z3 import *
import time
K = DeclareSort('K'); B = DeclareSort('B')
neg = Function('neg', B, B); x = Const('x', B)
negax = ForAll([x], neg(neg(x)) == x)
PH_in = Function('PH_in', K, BoolSort()); PH = Function('PH', K, IntSort()); BL_in = Function('BL_in', K, BoolSort()); BL = Function('BL', K, B)
def val(ph_in, ph, bl, s): return If(And(ph_in(s), ph(s) == -1), neg(bl(s)), bl(s))
# pre-state functions (0) and loop-head state (1), post-body state (2)
def mk(tag): return (Function('PHin'+tag, K, BoolSort()), Function('PH'+tag, K, IntSort()), Function('BL'+tag, K, B))
p0,h0,b0 = mk('0'); p1,h1,b1 = mk('1'); p2,h2,b2 = mk('2')
s = Const('s', K); k = Const('k', K)
inv = lambda p,h,b: ForAll([s], And(val(p,h,b,s) == val(p0,h0,b0,s), Implies(p(s), Or(h(s)==1, h(s)==-1))))
pre = ForAll([s], Implies(p0(s), Or(h0(s)==1,h0(s)==-1)))
# body: popitem k (k in phases), phase = h1(k); if phase==-1 and k in blocks: blocks[k] = -blocks[k]
def body(flip_cond):
    return [p1(k),
            ForAll([s], p2(s) == And(p1(s), s != k)), ForAll([s], h2(s) == h1(s)),
            ForAll([s], b2(s) == If(And(s == k, flip_cond), neg(b1(s)), b1(s)))]
def prove(name, hyps, goal):
    sol = Solver(); sol.set('timeout', 20000); sol.add(negax, pre); sol.add(hyps); sol.add(Not(goal))
    t0=time.time(); r=sol.check(); print(name, r, round(time.time()-t0,3));
    if r == sat: print('   model k phase:', sol.model().eval(h1(k)))
prove('phase_sync preserve', [inv(p1,h1,b1)] + body(h1(k) == -1), inv(p2,h2,b2))
prove('phase_sync exit: eff==1 everywhere & val kept', [inv(p1,h1,b1), ForAll([s], Not(p1(s)))], ForAll([s], b1(s) == val(p0,h0,b0,s)))
prove('MUTANT flips when phase == 1', [inv(p1,h1,b1)] + body(h1(k) == 1), inv(p2,h2,b2))
