import numpy as np, symmray as sr, itertools, math
exec(open('helpers.py').read())
src=open('p13.py').read(); exec(src[src.index("def densify"):src.index("for trial in range(2000)")])
bad={}
def dense_full(x, ixs_full):
    # densify x into the frame of the original (undropped) indices ixs_full
    offs=[]
    for ix in ixs_full:
        o={};p=0
        for c in sorted(ix.chargemap): o[c]=p;p+=ix.chargemap[c]
        offs.append((o,p))
    D=np.zeros([p for _,p in offs], dtype=complex)
    for s,b in x.blocks.items():
        sl=tuple(slice(offs[i][0][c],offs[i][0][c]+ixs_full[i].chargemap[c]) for i,c in enumerate(s)); D[sl]=b
    return D
for trial in range(4000):
    sym = ["Z2","U1","Z2Z2","U1U1"][trial%4]; cs=charges(sym)
    na=int(rng.integers(1,4)); nb=int(rng.integers(1,4)); nc=int(rng.integers(0,min(na,nb)+1))
    con=[rand_ix(sym, rng.integers(2), rng) for _ in range(nc)]
    ia=[rand_ix(sym, rng.integers(2), rng) for _ in range(na-nc)]+con
    ib=[c.conj() for c in con]+[rand_ix(sym, rng.integers(2), rng) for _ in range(nb-nc)]
    pa=rng.permutation(na); pb=rng.permutation(nb)
    ia2=[ia[p] for p in pa]; ib2=[ib[p] for p in pb]
    axes_a=[int(np.where(pa==(na-nc+k))[0][0]) for k in range(nc)]; axes_b=[int(np.where(pb==k)[0][0]) for k in range(nc)]
    order=rng.permutation(nc); axes_a=[axes_a[o] for o in order]; axes_b=[axes_b[o] for o in order]
    if rng.random()<0.3: axes_a=[a-na for a in axes_a]
    A=rand_arr(sym,ia2,cs[rng.integers(len(cs))],rng,ferm=False,sparsity=0.3); B=rand_arr(sym,ib2,cs[rng.integers(len(cs))],rng,ferm=False,sparsity=0.3)
    if not(A.blocks and B.blocks): continue
    if trial%5==0:
        for s in A.blocks: A.blocks[s]=A.blocks[s]+1j*A.blocks[s][::-1]
    exp=np.tensordot(dense_full(A,ia2),dense_full(B,ib2),axes=(axes_a,axes_b))
    free=[ia2[i] for i in range(na) if i not in [a%na for a in axes_a]]+[ib2[i] for i in range(nb) if i not in axes_b]
    for mode in ("auto","fused","blockwise"):
        try:
            C=sr.tensordot(A,B,axes=(axes_a,axes_b),mode=mode,preserve_array=True)
            got=dense_full(C,free)
            if got.shape!=exp.shape or not np.allclose(got,exp): bad.setdefault("value:"+mode,[]).append((sym,trial))
            if C.charge!=A.symmetry.combine(A.charge,B.charge): bad.setdefault("charge",[]).append((sym,trial))
            # all blocks valid
            for s in C.blocks:
                if not C.is_valid_sector(s): bad.setdefault("invalid",[]).append((sym,trial,mode))
        except Exception as e:
            bad.setdefault("exc:"+mode+":"+type(e).__name__+":"+str(e)[:50],[]).append((sym,trial,na,nb,nc))
for k,v in bad.items(): print(k,len(v),v[:3])
print("done")
