import numpy as np, symmray as sr, itertools, traceback
from symmray.utils import set_debug
rng = np.random.default_rng(0)
def rand_ix(sym, dual, rng):
    if sym=="Z2": cs=[0,1]
    elif sym=="U1": cs=[-1,0,1,2]
    elif sym=="Z2Z2": cs=[(0,0),(0,1),(1,0),(1,1)]
    else: cs=[(0,0),(0,1),(1,0),(1,1),(-1,1)]
    k = rng.integers(1,len(cs)+1); pick=[cs[i] for i in sorted(rng.choice(len(cs),size=k,replace=False))]
    return sr.BlockIndex({c:int(rng.integers(1,3)) for c in pick}, dual=bool(dual))
def rand_arr(sym, ixs, charge, rng, ferm=True, oddpos=None, sparsity=0.3):
    cls = sr.FermionicArray if ferm else sr.AbelianArray
    kw = dict(oddpos=oddpos) if ferm else {}
    x = cls.random(ixs, charge=charge, seed=rng, symmetry=sym, **kw)
    for s in list(x.blocks):
        if rng.random()<sparsity and len(x.blocks)>1: del x.blocks[s]
    return x
def charges(sym):
    return {"Z2":[0,1],"U1":[0,1,-1],"Z2Z2":[(0,0),(0,1),(1,1)],"U1U1":[(0,0),(0,1),(1,1)]}[sym]
def close(x,y):
    if not hasattr(x,'blocks') or not hasattr(y,'blocks'):
        return np.allclose(x,y)
    return x.allclose(y) and x.oddpos==y.oddpos and x.charge==y.charge and x.duals==y.duals

def same(x,y):
    if x.duals!=y.duals or x.charge!=y.charge or x.shape!=y.shape: return False
    xs, ys = (x.phase_sync(), y.phase_sync()) if x.fermionic else (x,y)
    for s in set(xs.blocks)|set(ys.blocks):
        bx = xs.blocks.get(s); by = ys.blocks.get(s)
        if bx is None: 
            if np.any(by!=0): return False
        elif by is None:
            if np.any(bx!=0): return False
        elif bx.shape!=by.shape or not np.array_equal(bx,by): return False
    return True
