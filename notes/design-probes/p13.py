import numpy as np, symmray as sr, itertools, math
exec(open('helpers.py').read())
bad = {}
def densify(x):
    # independent densifier: sorted charge order per axis
    offs=[]; 
    for ix in x.indices:
        o={}; p=0
        for c in sorted(ix.chargemap): o[c]=p; p+=ix.chargemap[c]
        offs.append((o,p))
    xs = x.phase_sync() if x.fermionic else x
    any_b = next(iter(xs.blocks.values()))
    D = np.zeros([p for _,p in offs], dtype=any_b.dtype)
    for s,b in xs.blocks.items():
        sl = tuple(slice(offs[i][0][c], offs[i][0][c]+x.indices[i].chargemap[c]) for i,c in enumerate(s))
        D[sl] = b
    return D
for trial in range(2000):
    sym = ["Z2","U1","Z2Z2","U1U1"][trial%4]; ferm=bool(trial//4%2); cs=charges(sym)
    nd=int(rng.integers(1,4)); ixs=[rand_ix(sym, rng.integers(2), rng) for _ in range(nd)]
    x = rand_arr(sym, ixs, cs[rng.integers(len(cs))], rng, ferm=ferm, oddpos=1, sparsity=0.2)
    if not x.blocks: continue
    D = x.to_dense()
    if not np.array_equal(D, densify(x)): bad.setdefault("to_dense",[]).append((sym,ferm,trial)); continue
    # labels in sorted order
    maps = [[c for c in sorted(ix.chargemap) for _ in range(ix.chargemap[c])] for ix in x.indices]
    cls = {("Z2",False):sr.Z2Array,("U1",False):sr.U1Array,("Z2Z2",False):sr.Z2Z2Array,("U1U1",False):sr.U1U1Array,
           ("Z2",True):sr.Z2FermionicArray,("U1",True):sr.U1FermionicArray,("Z2Z2",True):sr.Z2Z2FermionicArray,("U1U1",True):sr.U1U1FermionicArray}[sym,ferm]
    kw = dict(oddpos=1) if ferm else {}
    try:
        y = cls.from_dense(D, maps, duals=x.duals, charge=x.charge, **kw)
        if not same(y, x): bad.setdefault("dense roundtrip",[]).append((sym,ferm,trial))
        # shuffled labeling: permute each axis
        perms = [rng.permutation(len(m)) for m in maps]
        D2 = D[np.ix_(*perms)]; maps2 = [[m[p] for p in pm] for m,pm in zip(maps,perms)]
        y2 = cls.from_dense(D2, maps2, duals=x.duals, charge=x.charge, **kw)
        # back to dense gives D reordered by charge, with stable order within charge
        exp_perm = [np.array(sorted(range(len(m2)), key=lambda i:(m2[i],))) for m2 in maps2]   # stable sort by charge
        if not np.array_equal(y2.to_dense(), D2[np.ix_(*exp_perm)]): bad.setdefault("shuffled",[]).append((sym,ferm,trial))
    except Exception as e:
        bad.setdefault("exc:"+type(e).__name__+":"+str(e)[:60],[]).append((sym,ferm,trial))
for k,v in bad.items(): print(k, len(v)); [print("    ", t) for t in v[:4]]
print("done")
