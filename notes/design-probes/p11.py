import numpy as np, symmray as sr, itertools, math
exec(open('helpers.py').read())
bad = {}
for trial in range(6000):
    sym = ["Z2","U1","Z2Z2","U1U1"][trial%4]; ferm = bool(trial//4%2)
    nd = int(rng.integers(1,5))
    ixs = []
    for _ in range(nd):
        if rng.random()<0.3:
            c = charges(sym)[rng.integers(len(charges(sym)))] if rng.random()<0.5 else charges(sym)[0]
            ixs.append(sr.BlockIndex({c:1}, dual=bool(rng.integers(2))))
        else: ixs.append(rand_ix(sym, rng.integers(2), rng))
    cs = charges(sym)
    x = rand_arr(sym, ixs, cs[rng.integers(len(cs))], rng, ferm=ferm, oddpos=1, sparsity=0.3 if trial%3 else 0.0)
    if not x.blocks: continue
    cuts = sorted(set(rng.choice(range(1,nd), size=int(rng.integers(0,nd)), replace=False).tolist())) if nd>1 else []
    runs = np.split(np.arange(nd), cuts)
    tgt = tuple(int(math.prod(x.shape[a] for a in r)) for r in runs)
    if rng.random()<0.5: tgt = tuple(d for d in tgt if d!=1) or tgt   # drop size-one axes
    try:
        y = x.reshape(tgt)
    except Exception as e:
        bad.setdefault("fwd-exc:"+type(e).__name__+":"+str(e)[:40],[]).append((sym,ferm,trial,x.shape,tgt,[ (dict(ix.chargemap),ix.dual) for ix in x.indices], x.charge)); continue
    if y.ndim!=len(tgt) or any(a>b for a,b in zip(y.shape,tgt)): bad.setdefault("shape",[]).append((sym,ferm,trial,x.shape,tgt,y.shape)); continue
    if abs(y.norm()-x.norm())>1e-12: bad.setdefault("norm",[]).append((sym,ferm,trial))
    try:
        z = y.reshape(x.shape)
    except Exception as e:
        bad.setdefault("back-exc:"+type(e).__name__+":"+str(e)[:40],[]).append((sym,ferm,trial,x.shape,tgt,y.shape)); continue
    if z.shape!=x.shape or not same(z,x): bad.setdefault("roundtrip",[]).append((sym,ferm,trial,x.shape,tgt,y.shape,z.shape, x.charge, z.charge, x.duals, z.duals))
    if not same(x.reshape(x.shape), x): bad.setdefault("identity",[]).append((sym,ferm,trial))
for k,v in bad.items(): print(k, len(v)); [print("    ", t) for t in v[:3]]
