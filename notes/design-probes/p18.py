import symmray as sr, pickle, numpy as np
x = sr.utils.get_rand("Z2",(2,2,2),seed=0)
f = x.fuse((0,1))
si = f.indices[0].subinfo
k1 = si.hashkey()
# same content, but sub-index memo state differs
x2 = sr.utils.get_rand("Z2",(2,2,2),seed=0)
for ix in x2.indices: ix.hashkey()      # populate memo on sub indices first
f2 = x2.fuse((0,1)); k2 = f2.indices[0].subinfo.hashkey()
print("subinfo hashkeys equal for equal content?", k1==k2)
print("index hashkeys equal?", f.indices[0].hashkey()==f2.indices[0].hashkey())
import symmray.abelian_core as ac
print("cache entries", len(ac._fuseinfos))
