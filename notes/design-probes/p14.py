import numpy as np, symmray as sr, itertools, functools
from symmray.fermionic_local_operators import FermionicOperator as FO, build_local_fermionic_elements
rng = np.random.default_rng(1)
def jw(modes):
    n=len(modes); Z=np.diag([1.,-1.]); I=np.eye(2); a=np.array([[0.,1.],[0.,0.]])  # annihilation: a|1>=|0>
    ops={}
    for k,m in enumerate(modes):
        mats=[Z]*k+[a]+[I]*(n-k-1); ops[m]=functools.reduce(np.kron,mats)
    return ops
def mat(op, A): return A[op.label].T if op.dual else A[op.label]     # dual=True -> creation
def word(ops, A, dim):
    M=np.eye(dim)
    for o in ops: M = M @ mat(o,A)
    return M
bad=[]
for trial in range(300):
    nsites = int(rng.integers(1,3)); 
    sites = [["a","b"],["c","d"]][:nsites] if trial%2 else [["a"],["b"]][:nsites]
    modes = sorted(m for s in sites for m in s); A=jw(modes); dim=2**len(modes)
    vac = np.zeros(dim); vac[0]=1.0
    bases=[]
    for s in sites:
        states=[]
        for occ in itertools.product([0,1],repeat=len(s)):
            ops=[FO(m).dag for m,o in zip(s,occ) if o]
            rng.shuffle(ops); states.append(tuple(ops))
        idx = rng.permutation(len(states)); k=int(rng.integers(1,len(states)+1))
        bases.append(tuple(states[i] for i in idx[:k]))
    terms=[]
    for _ in range(int(rng.integers(1,4))):
        L=int(rng.integers(1,5)); t=tuple(FO(modes[rng.integers(len(modes))], bool(rng.integers(2))) for _ in range(L))
        terms.append((float(rng.integers(-3,4)), t))
    got = build_local_fermionic_elements(terms, bases)
    exp={}
    for li in itertools.product(*[range(len(b)) for b in bases]):
        for ri in itertools.product(*[range(len(b)) for b in bases]):
            left=[o.dag for i,b in zip(li,bases) for o in reversed(b[i])]
            right=[o for i,b in zip(ri,bases) for o in b[i]]
            v=0.0
            for c,t in terms:
                v += c*(vac @ word(left+list(t)+right, A, dim) @ vac)
            if abs(v)>1e-12: exp[(*li,*ri)]=v
    g = {k:v for k,v in got.items() if abs(v)>1e-12}
    if set(g)!=set(exp) or any(abs(g[k]-exp[k])>1e-9 for k in exp): bad.append((trial,terms,bases,g,exp))
print("C18 element mismatches:", len(bad)); 
for b in bad[:2]: print(b)
