import numpy as np, symmray as sr, math, itertools
exec(open('helpers.py').read())
def ss(sym, sector, duals):
    return sym.combine(*(sym.sign(c, d) for c,d in zip(sector, duals)))
def audit_index(sym, ix, path="ix"):
    cm = ix.chargemap; ks=list(cm)
    assert ks==sorted(ks) and len(set(ks))==len(ks), (path,"unsorted")
    for c,d in cm.items():
        assert sym.valid(c), (path,"invalid charge",c); assert isinstance(d,int) and d>=1, (path,"size",d)
    si = ix.subinfo
    if si is not None:
        ex = si.extents
        assert set(ex)==set(cm), (path,"extents keys != chargemap keys", set(ex), set(cm))
        for c,e in ex.items():
            assert sum(e.values())==cm[c], (path,"extent sum",c)
            ts=list(e); assert ts==sorted(ts), (path,"extent order",c)
            for t,sz in e.items():
                assert len(t)==len(si.indices), (path,"sublen")
                for tc,six in zip(t,si.indices): assert tc in six.chargemap, (path,"subcharge not in subindex",tc)
                assert sz==math.prod(six.chargemap[tc] for tc,six in zip(t,si.indices)), (path,"subsize")
                fused = sym.combine(*(sym.sign(tc, six.dual != ix.dual) for tc,six in zip(t,si.indices)))
                assert fused==c, (path,"fused charge",t,c,fused)
        for k,six in enumerate(si.indices): audit_index(sym, six, path+f".sub{k}")
def audit(x, where=""):
    sym=x.symmetry; assert sym.valid(x.charge), (where,"charge invalid",x.charge)
    for i,ix in enumerate(x.indices): audit_index(sym, ix, f"{where}.ix{i}")
    for s,b in x.blocks.items():
        assert len(s)==x.ndim, (where,"keylen")
        for c,ix in zip(s,x.indices): assert c in ix.chargemap, (where,"charge not in map",s)
        assert ss(sym,s,x.duals)==x.charge, (where,"not conserving",s)
        assert tuple(b.shape)==tuple(ix.chargemap[c] for c,ix in zip(s,x.indices)), (where,"shape",s)
    if x.fermionic:
        for s,p in x.phases.items():
            assert p in (1,-1), (where,"phase val"); assert len(s)==x.ndim and ss(sym,s,x.duals)==x.charge, (where,"phase key",s)
        assert len(x.oddpos)%2==x.parity, (where,"oddpos parity",x.oddpos,x.charge)
bad={}
for trial in range(3000):
    sym = ["Z2","U1","Z2Z2","U1U1"][trial%4]; ferm=bool(trial//4%2); cs=charges(sym)
    nd=int(rng.integers(2,5)); ixs=[rand_ix(sym, rng.integers(2), rng) for _ in range(nd)]
    x = rand_arr(sym, ixs, cs[rng.integers(len(cs))], rng, ferm=ferm, oddpos=1, sparsity=0.3)
    if not x.blocks: continue
    hist=[]
    try:
        audit(x,"init")
        for step in range(5):
            op = rng.choice(["T","conj","dag","fuse","unfuse","td","sq","svd","qr","flip"])
            hist.append(op)
            if op=="T": x = x.transpose(tuple(int(i) for i in rng.permutation(x.ndim)))
            elif op=="conj": x = x.conj()
            elif op=="dag": x = x.dagger()
            elif op=="flip" and ferm and x.ndim: x = x.phase_flip(int(rng.integers(x.ndim)))
            elif op=="fuse" and x.ndim>=2:
                k=int(rng.integers(2,x.ndim+1)); g=tuple(int(i) for i in rng.choice(x.ndim,size=k,replace=False)); x=x.fuse(g)
            elif op=="unfuse":
                c=[i for i,ix in enumerate(x.indices) if ix.subinfo is not None]
                if c: x = x.unfuse(int(rng.choice(c)))
            elif op=="td" and x.ndim>=1:
                ax=int(rng.integers(x.ndim)); ix=x.indices[ax]
                y = rand_arr(sym,[ix.conj(), rand_ix(sym,rng.integers(2),rng)], cs[rng.integers(len(cs))], rng, ferm=ferm, oddpos=10+step, sparsity=0.3)
                if y.blocks:
                    x = sr.tensordot(x,y,axes=[(ax,),(0,)],preserve_array=True, mode=str(rng.choice(["fused","blockwise"])))
            elif op in("svd","qr") and x.ndim>=2:
                k=int(rng.integers(1,x.ndim)); m = x.fuse(tuple(range(k)), tuple(range(k,x.ndim)))
                if op=="qr": q,r = sr.linalg.qr(m); audit(q,"q"); audit(r,"r"); x=q
                else: u,s,v = sr.linalg.svd_truncated(m, max_bond=int(rng.integers(1,4)), absorb=None); audit(u,"u"); audit(v,"v"); x=u
            if not x.blocks: break
            audit(x, op)
    except AssertionError as e:
        bad.setdefault(str(e.args[0][1:2])+str(e.args[0][0])[:12],[]).append((sym,ferm,trial,hist,e.args[0]))
    except Exception as e:
        bad.setdefault("exc:"+type(e).__name__+":"+str(e)[:50],[]).append((sym,ferm,trial,hist))
for k,v in bad.items(): print(k,len(v)); [print("    ",t) for t in v[:2]]
print("done")
