import numpy as np, symmray as sr, traceback
from symmray.symmetries import get_symmetry
# C17 Z4
z4 = get_symmetry("Z4"); print("Z4.sign(0)=", z4.sign(0), "valid?", z4.valid(z4.sign(0)))
# C16 from_blocks without symmetry on static class
try:
    x = sr.Z2Array.from_blocks({(0,0): np.ones((2,2)), (1,1): np.ones((1,1))}, duals=(False, True))
    print("from_blocks ok", x)
except Exception as e: print("from_blocks static FAIL:", type(e).__name__, e)
try:
    x = sr.AbelianArray.from_dense(np.eye(2), [[0,1],[0,1]], duals=(False,True), symmetry="Z2")
    print("from_dense generic ok", x)
except Exception as e: print("from_dense generic FAIL:", type(e).__name__, e)
# C08 log recursion
x = sr.utils.get_rand("Z2",(2,2),seed=0)
try:
    sr.log(x.abs())
except RecursionError as e: print("log RecursionError")
except Exception as e: print("log other", type(e).__name__, e)
# C08 mul with different sectors
a = sr.utils.get_rand("Z2",(2,2),seed=0); b=a.copy(); del b.blocks[(0,0)]
print("a*b sectors", (a*b).sectors, "b*a sectors", (b*a).sectors)
# C10 dagger phase_dual for odd
x = sr.utils.get_rand("Z2",(2,3,2),duals=[False,True,False],charge=1,fermionic=True,seed=1,oddpos=1)
n2 = x.norm()**2
xd = x.dagger(phase_dual=True)
print("norm2", n2, "dagger·x", sr.tensordot(xd, x, axes=[(2,1,0),(0,1,2)]), "x·dagger", sr.tensordot(x, xd, axes=[(0,1,2),(2,1,0)]))
xc = x.conj(phase_dual=True)
print("conj·x", sr.tensordot(xc, x, axes=3), sr.tensordot(x, xc, axes=3))
x = sr.utils.get_rand("Z2",(2,3,2),duals=[False,True,False],charge=0,fermionic=True,seed=1)
xd = x.dagger(phase_dual=True); print("even: norm2", x.norm()**2, sr.tensordot(xd, x, axes=[(2,1,0),(0,1,2)]))
