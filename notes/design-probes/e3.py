# Feasibility: key-level Valid preservation over abstract abelian group with fold lemmas (unbounded rank)
from z3 import *
import time
Q = DeclareSort('Q')                      # abstract charges
add = Function('add', Q, Q, Q); neg = Function('neg', Q, Q); zero = Const('zero', Q)
a,b,c = Consts('a b c', Q)
grp = [ForAll([a,b,c], add(add(a,b),c)==add(a,add(b,c))), ForAll([a,b], add(a,b)==add(b,a)),
       ForAll([a], add(a,zero)==a), ForAll([a], add(a,neg(a))==zero)]
def sign(x, d): return If(d, neg(x), x)
SeqQ = ArraySort(IntSort(), Q); SeqB = ArraySort(IntSort(), BoolSort()); SeqI = ArraySort(IntSort(), IntSort())
SS = Function('SS', SeqQ, SeqB, IntSort(), Q)        # signed sum of first n entries
Perm = Function('Perm', SeqQ, SeqI, SeqQ); PermB = Function('PermB', SeqB, SeqI, SeqB)
IsPerm = Function('IsPerm', SeqI, IntSort(), BoolSort())
NotB = Function('NotB', SeqB, SeqB)
s = Const('s', SeqQ); d = Const('d', SeqB); p = Const('p', SeqI); n = Int('n'); i = Int('i')
defs = [ForAll([s,p,i], Perm(s,p)[i] == s[p[i]]), ForAll([d,p,i], PermB(d,p)[i] == d[p[i]]),
        ForAll([d,i], NotB(d)[i] == Not(d[i]))]
LS2 = ForAll([s,d,p,n], Implies(IsPerm(p,n), SS(Perm(s,p), PermB(d,p), n) == SS(s,d,n)))
LS3 = ForAll([s,d,n], SS(s, NotB(d), n) == neg(SS(s,d,n)))
# extensionality of SS on prefix
t = Const('t', SeqQ); e = Const('e', SeqB)
EXT = ForAll([s,d,t,e,n], Implies(ForAll([i], Implies(And(0<=i,i<n), And(s[i]==t[i], d[i]==e[i]))), SS(s,d,n)==SS(t,e,n)))
def prove(name, hyps, goal, to=20000):
    sol = Solver(); sol.set('timeout', to); sol.add(grp+defs+[LS2,LS3,EXT]+hyps); sol.add(Not(goal))
    t0=time.time(); r=sol.check(); print(name, r, round(time.time()-t0,2))
charge = Const('charge', Q)
# transpose: code builds new sector k with k[i] = s[axes[i]] (comprehension) and new duals likewise
k = Const('k', SeqQ); nd = Const('nd', SeqB)
compr = [ForAll([i], Implies(And(0<=i,i<n), k[i]==s[p[i]])), ForAll([i], Implies(And(0<=i,i<n), nd[i]==d[p[i]]))]
prove('transpose keeps validity', [IsPerm(p,n), SS(s,d,n)==charge]+compr, SS(k,nd,n)==charge)
# conj: duals flipped, charge negated
cd = Const('cd', SeqB)
prove('conj keeps validity', [SS(s,d,n)==charge, ForAll([i], Implies(And(0<=i,i<n), cd[i]==Not(d[i])))], SS(s,cd,n)==neg(charge))
# mutant: conj forgets to negate charge
prove('MUTANT conj no charge negation', [SS(s,d,n)==charge, ForAll([i], Implies(And(0<=i,i<n), cd[i]==Not(d[i])))], SS(s,cd,n)==charge)
