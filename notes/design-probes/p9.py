import numpy as np, symmray as sr, itertools
exec(open('p8.py').read().split("bad = {}")[0])
bad = {}
def same(x,y):
    if x.duals!=y.duals or x.charge!=y.charge or x.shape!=y.shape: return False
    xs, ys = (x.phase_sync(), y.phase_sync()) if x.fermionic else (x,y)
    for s in set(xs.blocks)|set(ys.blocks):
        bx = xs.blocks.get(s); by = ys.blocks.get(s)
        if bx is None: 
            if np.any(by!=0): return False
        elif by is None:
            if np.any(bx!=0): return False
        elif bx.shape!=by.shape or not np.array_equal(bx,by): return False
    return True
for trial in range(4000):
    sym = ["Z2","U1","Z2Z2","U1U1"][trial%4]; ferm = bool(trial//4%2)
    nd = int(rng.integers(2,5))
    ixs = [rand_ix(sym, rng.integers(2), rng) for _ in range(nd)]
    cs = charges(sym)
    try:
        x = rand_arr(sym, ixs, cs[rng.integers(len(cs))], rng, ferm=ferm, oddpos=1)
        if not x.blocks: continue
        # random disjoint groups
        axes = list(rng.permutation(nd)); ng = int(rng.integers(1,3)); groups=[]
        for g in range(ng):
            k = int(rng.integers(1, max(2,len(axes)-(ng-g-1))+0)); k=min(k,len(axes)-(ng-g-1))
            groups.append(tuple(int(a) for a in axes[:k])); axes=axes[k:]
        groups=[g for g in groups if g]
        f = x.fuse(*groups)
        if not ferm:
            f2 = x.fuse(*groups, mode="concat")
            if not same(f,f2): bad.setdefault("insert!=concat",[]).append((sym,trial,groups))
        u = f.unfuse_all()
        # expected: transpose to fused layout
        pos = min(min(g) for g in groups); before=[a for a in range(pos) if all(a not in g for g in groups)]; after=[a for a in range(pos,nd) if all(a not in g for g in groups)]
        perm = tuple(before+[a for g in groups for a in g]+after)
        if not same(u, x.transpose(perm)): bad.setdefault("roundtrip",[]).append((sym,ferm,trial,groups))
        # nested: fuse result again then unfuse_all twice... 
        if f.ndim>=2:
            ff = f.fuse((0,1)); uu = ff.unfuse(0)
            if not same(uu, f): bad.setdefault("nested",[]).append((sym,ferm,trial,groups))
        # reshape roundtrip: merge adjacent axes 0,1
        if x.ndim>=2:
            y = x.reshape((x.shape[0]*x.shape[1],)+x.shape[2:]) if all(len(ix.chargemap)>0 for ix in x.indices) else None
    except Exception as e:
        bad.setdefault("exc:"+type(e).__name__+":"+str(e)[:70],[]).append((sym,ferm,trial))
print({k:(len(v),v[:3]) for k,v in bad.items()})
