import numpy as np, symmray as sr
# exact degeneracy across sectors: identical blocks
ix = sr.BlockIndex({0:2,1:2}, dual=False)
A = np.array([[3.,0.],[0.,1.]])
m = sr.Z2Array(indices=(ix, ix.conj()), charge=0, blocks={(0,0):A.copy(), (1,1):A.copy()})
for mb in (1,2,3):
    for cutoff in (1e-10, -1.0):
        U,s,VH = sr.linalg.svd_truncated(m, cutoff=cutoff, max_bond=mb, absorb=None)
        print("max_bond", mb, "cutoff", cutoff, "kept", {k: v.tolist() for k,v in s.blocks.items()})
# C06 fermionic with prefused lone free leg
a = sr.utils.get_rand("Z2",(2,2,2),duals=[False,True,True],fermionic=True,seed=0)
b = sr.utils.get_rand("Z2",(2,2),duals=[False,True],fermionic=True,seed=1)
af = a.fuse((0,1))
cb = sr.tensordot(af, b, axes=[(1,),(0,)], mode="blockwise")
cf = sr.tensordot(af, b, axes=[(1,),(0,)], mode="fused")
ref = sr.tensordot(a, b, axes=[(2,),(0,)], mode="blockwise")
print("blockwise ndim", cb.ndim, "fused ndim", cf.ndim, "fused==unfused ref?", cf.allclose(ref) if cf.ndim==ref.ndim else None, "blockwise.unfuse==ref", cb.unfuse(0).allclose(ref))
