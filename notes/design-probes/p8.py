import numpy as np, symmray as sr, itertools, traceback
from symmray.utils import set_debug
rng = np.random.default_rng(0)
def rand_ix(sym, dual, rng):
    if sym=="Z2": cs=[0,1]
    elif sym=="U1": cs=[-1,0,1,2]
    elif sym=="Z2Z2": cs=[(0,0),(0,1),(1,0),(1,1)]
    else: cs=[(0,0),(0,1),(1,0),(1,1),(-1,1)]
    k = rng.integers(1,len(cs)+1); pick=[cs[i] for i in sorted(rng.choice(len(cs),size=k,replace=False))]
    return sr.BlockIndex({c:int(rng.integers(1,3)) for c in pick}, dual=bool(dual))
def rand_arr(sym, ixs, charge, rng, ferm=True, oddpos=None, sparsity=0.3):
    cls = sr.FermionicArray if ferm else sr.AbelianArray
    kw = dict(oddpos=oddpos) if ferm else {}
    x = cls.random(ixs, charge=charge, seed=rng, symmetry=sym, **kw)
    for s in list(x.blocks):
        if rng.random()<sparsity and len(x.blocks)>1: del x.blocks[s]
    return x
def charges(sym):
    return {"Z2":[0,1],"U1":[0,1,-1],"Z2Z2":[(0,0),(0,1),(1,1)],"U1U1":[(0,0),(0,1),(1,1)]}[sym]
def close(x,y):
    if not hasattr(x,'blocks') or not hasattr(y,'blocks'):
        return np.allclose(x,y)
    return x.allclose(y) and x.oddpos==y.oddpos and x.charge==y.charge and x.duals==y.duals
bad = {}
# ---- P-A: associativity of chain A(a,i) B(i~,b,j) C(j~,c)
for trial in range(3000):
    sym = ["Z2","U1","Z2Z2","U1U1"][trial%4]
    i = rand_ix(sym, rng.integers(2), rng); j = rand_ix(sym, rng.integers(2), rng)
    a = rand_ix(sym, rng.integers(2), rng); b = rand_ix(sym, rng.integers(2), rng); c = rand_ix(sym, rng.integers(2), rng)
    cs = charges(sym)
    try:
        A = rand_arr(sym,[a,i],cs[rng.integers(len(cs))],rng,oddpos=3)
        B = rand_arr(sym,[i.conj(),b,j],cs[rng.integers(len(cs))],rng,oddpos=1)
        C = rand_arr(sym,[j.conj(),c],cs[rng.integers(len(cs))],rng,oddpos=2)
        if not (A.blocks and B.blocks and C.blocks): continue
        AB = sr.tensordot(A,B,axes=[(1,),(0,)],preserve_array=True)
        r1 = sr.tensordot(AB,C,axes=[(2,),(0,)],preserve_array=True)
        BC = sr.tensordot(B,C,axes=[(2,),(0,)],preserve_array=True)
        r2 = sr.tensordot(A,BC,axes=[(1,),(0,)],preserve_array=True)
        if not close(r1,r2): bad.setdefault("assoc",[]).append((sym,trial))
        # operand swap: tensordot(B,A) then transpose
        BA = sr.tensordot(B,A,axes=[(0,),(1,)],preserve_array=True)  # legs (b,j,a)
        if not close(AB, BA.transpose((2,0,1))): bad.setdefault("swap",[]).append((sym,trial))
        # mode agreement
        for mode in ("fused","blockwise"):
            ABm = sr.tensordot(A,B,axes=[(1,),(0,)],preserve_array=True,mode=mode)
            if not close(AB,ABm): bad.setdefault("mode",[]).append((sym,trial,mode))
    except Exception as e:
        bad.setdefault("exc:"+type(e).__name__+":"+str(e)[:60],[]).append((sym,trial))
print({k:(len(v),v[:3]) for k,v in bad.items()})
