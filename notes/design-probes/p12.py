import numpy as np, symmray as sr, itertools, math
exec(open('helpers.py').read())
bad = {}
# ---- C10: single arrays, all dual patterns, even/odd, phase_dual
for trial in range(3000):
    sym = ["Z2","U1","Z2Z2","U1U1"][trial%4]
    nd = int(rng.integers(1,4)); ixs=[rand_ix(sym, rng.integers(2), rng) for _ in range(nd)]
    cs = charges(sym)
    x = rand_arr(sym, ixs, cs[rng.integers(len(cs))], rng, ferm=True, oddpos=(1,2) if trial%2 else 5)
    if not x.blocks: continue
    if trial%3==0: x = x.phase_flip(0)
    n2 = x.norm()**2
    xc = x.conj(phase_dual=True)
    v1 = sr.tensordot(xc, x, nd); v2 = sr.tensordot(x, xc, nd)
    if abs(v1-n2)>1e-9 or abs(v2-n2)>1e-9: bad.setdefault("conj pd norm",[]).append((sym,trial,x.duals,x.charge,n2,v1,v2))
    if all(not d for d in x.duals) or all(x.duals):
        xc0 = x.conj(); w1 = sr.tensordot(xc0, x, nd); w2=sr.tensordot(x,xc0,nd)
        # all-ket: norm; all-bra? statement says "every index is ket-like"
        if all(not d for d in x.duals) and (abs(w1-n2)>1e-9 or abs(w2-n2)>1e-9): bad.setdefault("conj allket norm",[]).append((sym,trial,x.charge,n2,w1,w2))
    if not same(x.conj().conj(), x): bad.setdefault("conjconj",[]).append((sym,trial))
    if not same(x.dagger().dagger(), x): bad.setdefault("dagdag",[]).append((sym,trial))
    if not same(x.dagger(), x.conj().transpose()): bad.setdefault("dagger!=conj.T (pd=False)",[]).append((sym,trial))
    if not same(x.dagger(phase_dual=True), x.conj(phase_dual=True).transpose()): bad.setdefault("dagger!=conj.T (pd=True)",[]).append((sym,trial,x.duals,x.charge))
    if x.conj().conj().oddpos != x.oddpos: bad.setdefault("oddpos conjconj",[]).append((sym,trial))
# ---- C10 network: A(a,i) B(i~,b): <conj net | net> with dangling a,b
for trial in range(2000):
    sym = ["Z2","U1","Z2Z2","U1U1"][trial%4]; cs=charges(sym)
    a=rand_ix(sym, rng.integers(2), rng); b=rand_ix(sym, rng.integers(2), rng); i=rand_ix(sym, rng.integers(2), rng)
    A = rand_arr(sym,[a,i],cs[rng.integers(len(cs))],rng,oddpos=1); B = rand_arr(sym,[i.conj(),b],cs[rng.integers(len(cs))],rng,oddpos=2)
    if not (A.blocks and B.blocks): continue
    AB = sr.tensordot(A,B,axes=[(1,),(0,)],preserve_array=True)
    if not AB.blocks: continue
    n2 = AB.norm()**2
    Ac, Bc = A.conj(), B.conj()
    # flip dangling legs that were bra-like
    if a.dual: Ac = Ac.phase_flip(0)
    if b.dual: Bc = Bc.phase_flip(1)
    # route 1: (Ac Bc) with (A B)
    AcBc = sr.tensordot(Ac,Bc,axes=[(1,),(0,)],preserve_array=True)
    v1 = sr.tensordot(AcBc, AB, axes=[(0,1),(0,1)])
    # route 2: contract Ac with A over a first, then B, then Bc
    t = sr.tensordot(Ac, A, axes=[(0,),(0,)],preserve_array=True)   # legs (i_c, i)
    t = sr.tensordot(t, B, axes=[(1,),(0,)],preserve_array=True)    # (i_c, b)
    v2 = sr.tensordot(t, Bc, axes=[(0,1),(0,1)])
    if abs(v1-n2)>1e-9 or abs(v2-n2)>1e-9: bad.setdefault("network norm",[]).append((sym,trial,(a.dual,i.dual,b.dual),A.charge,B.charge,n2,v1,v2))
for k,v in bad.items(): print(k, len(v)); [print("    ", t) for t in v[:4]]
