#!/usr/bin/env python3
"""Replace the generated tables of DESIGN.md (8.8: seeded/summary.py, 8.10: gen_status.py) by fresh output."""
import os, re, subprocess
HERE = os.path.dirname(os.path.abspath(__file__))
s = open(os.path.join(HERE, "DESIGN.md")).read()


def table(cmd):
    out = subprocess.run(cmd, shell=True, cwd=HERE, capture_output=True, text=True).stdout
    return "\n".join(l for l in out.splitlines() if l.startswith("|")) + "\n"


def replace_first_table(s, header, new):
    i = s.index(header)
    m = re.search(r"(?m)^\| id \|.*\n(\|.*\n)+", s[i:])
    a, b = i + m.start(), i + m.end()
    return s[:a] + new + s[b:]


s = replace_first_table(s, "### 8.8 Verdicts on the seeded changes", table("python3 seeded/summary.py"))
s = replace_first_table(s, "### 8.10 Per-property status", table("python3-vt gen_status.py"))
open(os.path.join(HERE, "DESIGN.md"), "w").write(s)
print("tables updated")
