#!/usr/bin/env python3
"""Generates MANIFEST.json from contracts/property_map.py + properties.jsonl (kept in sync mechanically)."""
import json, os, sys
HERE = os.path.dirname(os.path.abspath(__file__))
sys.path.insert(0, HERE)
from contracts.property_map import PROPERTY_MAP, NOT_APPLICABLE

CATEGORY = {"proof": "proof", "other": "other", "exploration": "exploration"}
checks = []
for pid in sorted(PROPERTY_MAP):
    pm = PROPERTY_MAP[pid]
    checks.append({
        "property_id": pid,
        "quick_cmd": f"./check {pid} --tier quick",
        "thorough_cmd": f"./check {pid} --tier thorough",
        "evidence_file": f"/verif/evidence/{pid}.json",
        "replay_cmd_template": f"./check {pid} --replay {{path}}",
        "engine": "pyvc+bounded",
        "level_claimed": {"category": CATEGORY[pm["level"]], "text": pm["explanation"], "design_ref": f"DESIGN.md section 4, {pid}"},
        "level_note": "; ".join(pm.get("assumptions", [])),
        "technique": pm.get("technique", "contract-based deductive verification: VCs generated from /repo's source by pyvc (ast -> z3/cvc5) against sidecar contracts; bounded run-time contract checks as labelled stand-in"),
    })
man = {
    "version": 1,
    "setup_cmd": "./check --selfcheck",
    "hooks": {
        "guard": "SYMMRAY_VERIF",
        "enable": "no hooks: contracts are sidecar files under /verif/contracts, the repository is parsed (pyvc) and imported (bounded tier) unmodified",
        "baseline_off_cmd": "cd /repo && /venv/bin/python -m pytest -ra -q -p no:cacheprovider --timeout=900 --continue-on-collection-errors",
        "source_commits": [],
        "add_only": True,
    },
    "engines": [
        {"name": "pyvc", "path": "/verif/pyvc", "serves_properties": sorted(PROPERTY_MAP), "kind_free_text": "verification-condition generator: symbolic execution of the real function ASTs against sidecar contracts (pre/post, loop invariants, ghost folds, lemma instances), discharged by z3 (cvc5 second opinion)"},
        {"name": "frames", "path": "/verif/pyvc/frames.py", "serves_properties": sorted(p for p in PROPERTY_MAP if PROPERTY_MAP[p].get("frames")), "kind_free_text": "ownership / typestate / read-set / dtype-flow obligations decided on the AST"},
        {"name": "bounded", "path": "/verif/bounded", "serves_properties": sorted(p for p in PROPERTY_MAP if PROPERTY_MAP[p].get("bounded")), "kind_free_text": "executable contracts on the real public functions over an enumerated small-scope universe with independent oracles; labelled bounded, never counted as proved; also replays solver counterexamples"},
    ],
    "checks": checks,
    "notes": "Fix commits in /repo: see known_findings.txt (fixed: entries). No instrumentation hooks exist in /repo. Exit codes of ./check: 0 held, 1 violation, 2 undecided, 3 checker error.",
    "not_applicable": [{"property_id": k, "reason": v} for k, v in sorted(NOT_APPLICABLE.items())],
}
json.dump(man, open(os.path.join(HERE, "MANIFEST.json"), "w"), indent=1)
print("MANIFEST.json written:", len(checks), "checks,", len(NOT_APPLICABLE), "not applicable")
