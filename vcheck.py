#!/usr/bin/env python3-vt
"""Entry point of the verification machinery.

  ./check Cxx [--tier quick|thorough] [--replay FILE]
  ./check --selfcheck
  ./check all [--tier quick]

Exit 0: property held on everything explored (known findings are printed, exit 0)
Exit 1: VIOLATION property=<id> replay=<path>   (a refuted obligation / failing bounded contract)
Exit 2: UNDECIDED (nothing refuted, but neither tier could decide)
Exit 3: checker crash
"""

import argparse
import hashlib
import importlib
import json
import os
import re
import subprocess
import sys
import time
import traceback

HERE = os.path.dirname(os.path.abspath(__file__))
sys.path.insert(0, HERE)
os.chdir(HERE)

from contracts.property_map import PROPERTY_MAP  # noqa: E402

VENV_PY = "/venv/bin/python"
EVID = os.environ.get("VERIF_EVIDENCE_DIR") or os.path.join(HERE, "evidence")  # override: development runs against scratch trees
REPLAY = os.path.join(EVID, "replay")
KNOWN = os.path.join(HERE, "known_findings.txt")
BASELINE = os.path.join(HERE, "baseline_obligations.json")


# ---------------------------------------------------------------------------- known findings


def load_known():
    out = []
    if not os.path.exists(KNOWN):
        return out
    for line in open(KNOWN):
        line = line.strip()
        if not line or line.startswith("#"):
            continue
        if line.startswith("known:"):
            m = re.match(r"known:\s+property=(\S+)\s+id=(\S+)\s+match=(\S+)\s+(.*)", line)
            if not m:
                continue
            prop, fid, match, text = m.groups()
            parts = match.split(";")
            ob = parts[0]
            feats = dict(p.split("=", 1) for p in parts[1:] if "=" in p)
            out.append({"property": prop, "id": fid, "obligation": ob, "features": feats, "text": text})
    return out


def match_known(known, prop, failure):
    for k in known:
        if k["property"] != prop:
            continue
        ob = failure.get("obligation", "")
        pat = k["obligation"]
        if "*" in pat:
            # `*` matches any run of characters (everything else is literal)
            if not re.fullmatch(".*".join(re.escape(x) for x in pat.split("*")), ob):
                continue
        elif ob != pat:
            continue
        feats = failure.get("features", {}) or {}
        if all(str(feats.get(f)) == v for f, v in k["features"].items()):
            return k
    return None


# ---------------------------------------------------------------------------- tiers


def run_pyvc(prop, tier, jobs):
    from pyvc.run import run_modules

    from contracts.property_map import PYVC_MODULES

    os.environ["PYVC_TIER"] = tier  # rank / shape bounds of some contract modules are larger in the thorough tier
    return run_modules(PYVC_MODULES, props=[prop], jobs=jobs)


def retry_unknowns(recs, baseline, prop=None):
    """An obligation that is proved on the unchanged tree and now comes back `unknown` is an alarm by the baseline
    rule.  Solver answers depend on the load of the machine, so before the rule is applied the affected tasks are run
    once more, a few at a time, with three times the solver budget; a task that then discharges everything replaces
    its first record (noted in the record).  A second `unknown` stands."""
    from pyvc.run import run_modules

    from contracts.property_map import PYVC_MODULES

    flaky = {r["task"] for r in recs if r["status"] != "crash" and any(o["status"] == "unknown" and baseline.get(r["task"], {}).get(o["name"]) == "proved" for o in r["obligations"])}
    if not flaky or len(flaky) > 12:  # many failing tasks: a changed tree, not load
        return recs
    os.environ["PYVC_TIMEOUT_SCALE"] = "3"
    try:
        again = run_modules(PYVC_MODULES, props=[prop] if prop else None, jobs=4, names=flaky)
    finally:
        os.environ.pop("PYVC_TIMEOUT_SCALE", None)
    better = {}
    for r in again:
        if r["status"] != "crash" and not any(o["status"] == "unknown" for o in r["obligations"]):
            r.setdefault("notes", []).append("first run had `unknown` obligations; decided on the retry with three times the solver budget")
            better[r["task"]] = r
    return [better.get(r["task"], r) for r in recs]


def run_frames(prop, tier):
    names = PROPERTY_MAP[prop].get("frames", [])
    if not names:
        return []
    from pyvc import frames

    return frames.run(names, prop)


def run_bounded(prop, tier, seed):
    out = []
    for drv in PROPERTY_MAP[prop].get("bounded", []):
        tmp = os.path.join(EVID, f".tmp_{prop}_{drv.split('.')[-1]}.json")
        env = dict(os.environ)
        env.setdefault("VERIF_NPROC", "12")
        cmd = [VENV_PY, "-m", drv, "--tier", tier, "--seed", str(seed), "--out", tmp]
        t0 = time.time()
        p = subprocess.run(cmd, cwd=HERE, env=env, capture_output=True, text=True, timeout=7200 if tier == "thorough" else 1500)
        if p.returncode != 0 or not os.path.exists(tmp):
            out.append({"driver": drv, "crash": True, "stderr": (p.stderr or "")[-3000:], "contracts": [], "wall_s": time.time() - t0})
            continue
        res = json.load(open(tmp))
        os.unlink(tmp)
        out.append(res)
    return out


def replay_pyvc(task_rec, ob):
    """Try to turn a refuted obligation into a failing native input."""
    try:
        spec = {"task": task_rec["task"], "obligation": ob["name"], "model": ob.get("model", {}), "witness": ob.get("witness")}
        p = subprocess.run([VENV_PY, "-m", "bounded.replay_pyvc"], input=json.dumps(spec), cwd=HERE, capture_output=True, text=True, timeout=300)
        if p.returncode in (0, 1) and p.stdout.strip():
            return json.loads(p.stdout.strip().splitlines()[-1])
    except Exception as e:
        return {"reproduced": False, "note": f"replay harness error: {e}"}
    return {"reproduced": False, "note": "no replayer for this obligation"}


# ---------------------------------------------------------------------------- main check


def lean_lemmas():
    """thorough tier: machine-check the fold lemma library (contracts/lean/Fold.lean) with Lean 4 + Mathlib"""
    f = os.path.join(HERE, "contracts", "lean", "Fold.lean")
    sha = hashlib.sha256(open(f, "rb").read()).hexdigest()[:16]
    cache = os.path.join(EVID, "lean.json")
    if os.path.exists(cache):
        try:
            c = json.load(open(cache))
            if c.get("sha") == sha and c.get("status") == "ok" and time.time() - c.get("at", 0) < 6 * 3600:
                return c
        except Exception:
            pass
    t0 = time.time()
    try:
        p = subprocess.run(["lean", f], cwd=os.path.dirname(f), capture_output=True, text=True, timeout=1500)
        out = (p.stdout + p.stderr).strip()
        st = "ok" if p.returncode == 0 and "error" not in out else "failed"
    except Exception as e:  # noqa: BLE001
        out, st = str(e), "failed"
    c = {"sha": sha, "status": st, "seconds": round(time.time() - t0, 1), "output": out[-800:], "at": time.time(), "theorems": ["LS_prefix", "LS_lin_eq", "LS_lin_mod", "LS_store", "LS_mono", "LS_floor", "LS_cum_mono", "LB_boundary", "LB_count", "AX_mul_comm", "AX_mul_mono", "AX_mul_nonneg", "AX_sq_nonneg", "AX_sq_mono"]}
    os.makedirs(EVID, exist_ok=True)
    json.dump(c, open(cache, "w"))
    return c


def slug(s):
    return re.sub(r"[^A-Za-z0-9_.-]+", "_", s)[:100]


def check_property(prop, tier, seed, jobs=12):
    t0 = time.time()
    pm = PROPERTY_MAP[prop]
    known = load_known()
    os.makedirs(REPLAY, exist_ok=True)
    lines = []
    violations = []
    known_hits = {}
    undecided = []
    crashes = []

    baseline = {}
    if os.path.exists(BASELINE):
        baseline = json.load(open(BASELINE))

    # ---- Tier P
    recs = run_pyvc(prop, tier, jobs)
    recs = retry_unknowns(recs, baseline, prop)
    frs = run_frames(prop, tier)
    n_ob = n_dis = 0
    solver_s = 0.0
    by_backend = {}
    functions = {}
    undischarged = []
    samples_ob = []
    assumptions = set()
    bounded_rank_notes = []
    for r in recs + frs:
        if r["status"] == "crash":
            crashes.append(f"{r['task']}: {r.get('reason', '')[-600:]}")
            continue
        if r["status"] == "undecided":
            undecided.append(f"{r['task']}: {r.get('reason', '')[-300:]}")
            undischarged.append({"name": r["task"], "reason": r.get("reason", "")[-300:]})
        for a in r.get("assumes", []):
            assumptions.add(a)
        if r.get("bounded_rank"):
            bounded_rank_notes.append(f"{r['task']}: proved by unrolling, {r['bounded_rank']}")
        solver_s += r.get("solver_s", 0)
        for t in r.get("targets", []):
            f = functions.setdefault(t["function"], {"function": t["function"], "sha256_16": t["sha256_16"], "obligations": 0, "discharged": 0})
        for o in r["obligations"]:
            n_ob += 1
            for t in r.get("targets", []):
                functions[t["function"]]["obligations"] += 1
            if o["status"] == "proved":
                n_dis += 1
                by_backend[o["backend"]] = by_backend.get(o["backend"], 0) + 1
                for t in r.get("targets", []):
                    functions[t["function"]]["discharged"] += 1
                if len(samples_ob) < 4:
                    samples_ob.append({"obligation": o["name"], "task": r["task"], "backend": o["backend"], "time_s": o["time_s"]})
                continue
            failure = {"obligation": o["name"], "features": {"tier": "P", "status": o["status"]}, "task": r["task"]}
            kf = match_known(known, prop, failure)
            if kf:
                known_hits[kf["id"]] = kf
                undischarged.append({"name": o["name"], "reason": f"{o['status']}: isolates known finding {kf['id']} (known_findings.txt)"})
                continue
            # the baseline rule is about solver answers; an `unknown` of a frame analysis is its explicit "this shape
            # of code is not recognised syntactically" verdict and stays undecided
            was_proved = baseline.get(r["task"], {}).get(o["name"]) == "proved" and o.get("backend") != "frames"
            if o["status"] == "refuted" or (o["status"] == "unknown" and was_proved):
                rp = replay_pyvc(r, o) if o["status"] == "refuted" else {"reproduced": False, "note": "solver returned unknown for an obligation that is proved on the unchanged tree"}
                path = os.path.join(REPLAY, f"{prop}-{slug(o['name'])}.json")
                json.dump(
                    {
                        "property": prop,
                        "kind": "refuted obligation" if o["status"] == "refuted" else "obligation no longer discharged",
                        "task": r["task"],
                        "obligation": o["name"],
                        "path": o.get("path"),
                        "source_line": o.get("lineno"),
                        "solver_status": o["status"],
                        "solver_output": o.get("model", o.get("reason")),
                        "targets": r.get("targets"),
                        "native_replay": rp,
                    },
                    open(path, "w"),
                    indent=1,
                )
                violations.append((o["name"], path, bool(rp.get("reproduced"))))
            else:
                undecided.append(f"{o['name']}: {o['status']} {o.get('reason', '')}")
                undischarged.append({"name": o["name"], "reason": o["status"] + " " + str(o.get("reason", ""))[:200]})

    lean = None
    if tier == "thorough" and any("fold lemma" in a or "Lean" in a for a in assumptions):
        lean = lean_lemmas()
        if lean["status"] != "ok":
            crashes.append("Lean check of contracts/lean/Fold.lean failed: " + lean.get("output", "")[-300:])

    # ---- Tier B
    bres = run_bounded(prop, tier, seed)
    b_eval = b_dist = 0
    b_samples = []
    b_contracts = []
    for res in bres:
        if res.get("crash"):
            crashes.append(f"bounded driver {res['driver']} crashed: {res.get('stderr', '')[-1500:]}")
            continue
        for c in res["contracts"]:
            b_eval += c["evaluations"]
            b_dist += c["distinct_nontrivial"]
            b_samples.extend(c["samples"][:2])
            b_contracts.append({k: c[k] for k in ("contract", "domain", "bound", "evaluations", "distinct_nontrivial", "n_failures")})
            for e in c.get("errors", []):
                crashes.append(f"bounded harness error in {c['contract']}: {e.get('traceback', '')[-800:]}")
            seen = set()
            for f in c["failures"]:
                kf = match_known(known, prop, f)
                if kf:
                    known_hits[kf["id"]] = kf
                    continue
                key = f["obligation"]
                if key in seen:
                    continue
                seen.add(key)
                path = os.path.join(REPLAY, f"{prop}-{slug(key)}.json")
                json.dump({"property": prop, "kind": "bounded contract failure", "driver": res["driver"], **f}, open(path, "w"), indent=1, default=str)
                violations.append((key, path, True))

    # A proof-tier violation for which the solver gave no natively failing input is linked to a failing
    # input found by the bounded search of the same property on the same tree, when there is one.
    bounded_fail_paths = [p for (n, p, r) in violations if r and json.load(open(p)).get("kind") == "bounded contract failure"]
    if bounded_fail_paths:
        linked = []
        for name, path, reproduced in violations:
            if not reproduced:
                try:
                    d = json.load(open(path))
                    d["native_replay"] = {"reproduced": True, "note": "no input from the solver; a failing input for this property on this tree was found by the bounded search", "failing_input_replay": bounded_fail_paths[0]}
                    json.dump(d, open(path, "w"), indent=1)
                    reproduced = True
                except Exception:
                    pass
            linked.append((name, path, reproduced))
        violations = linked

    # ---- verdict
    for kid, kf in sorted(known_hits.items()):
        lines.append(f"KNOWN-FINDING: property={prop} {kid} {kf['text']}")
    for name, path, reproduced in violations:
        tail = "" if reproduced else " no-failing-input-found"
        lines.append(f"  failed obligation: {name}" + ("" if reproduced else "  (verifier gave no input that fails natively)"))
        lines.append(f"VIOLATION property={prop} replay={path}{tail}")
    level = pm["level"]
    proof_ok = n_ob > 0 and n_dis == n_ob and not undecided
    if level == "proof" and not proof_ok:
        level = "other"
    b_decides = b_eval > 0 and b_dist >= 2
    if violations:
        code = 1
    elif crashes:
        code = 3
    elif (undecided and not b_decides) or (n_ob == 0 and not b_decides):
        code = 2
    else:
        code = 0
    for u in undecided[:10]:
        lines.append(f"UNDECIDED property={prop} {u}")
    for c in crashes[:5]:
        lines.append(f"CHECKER-ERROR property={prop} {c}")
    if code == 0:
        lines.append(
            f"OK property={prop} tier={tier} obligations={n_ob} discharged={n_dis} bounded_evaluations={b_eval} distinct={b_dist} known_findings={len(known_hits)}"
        )

    # ---- evidence
    from pyvc.extract import dropped_report

    trusted = [
        "z3 4.x/5.x SMT solver (python API), cvc5 as second opinion on unknown",
        "pyvc symbolic executor (this repository: /verif/pyvc) incl. its models of CPython builtins (A-builtins)",
        "numpy / autoray / LAPACK primitives (A-numpy): uninterpreted in Tier P, executed in Tier B",
    ]
    coverage = {
        "obligations": n_ob,
        "discharged": n_dis,
        "checker_cmd": f"./check {prop} --tier {tier}",
        "trusted_base": trusted,
        "by_backend": by_backend,
        "solver_s": round(solver_s, 3),
        "functions_under_contract": sorted(functions.values(), key=lambda f: f["function"]),
        "undischarged": undischarged,
        "dropped_by_extraction": dropped_report(),
        "rank_bounded_proofs": bounded_rank_notes,
        "evaluations": max(b_eval, 1) if b_eval else n_ob,
        "distinct_nontrivial": b_dist if b_eval else n_ob,
        "rule": "Tier B (bounded, never counted as proved): cases enumerated by the drivers listed under 'bounded'; distinct = distinct structural fingerprints (symmetry, class kind, index structure, charge, sector set, operation arguments), non-trivial as defined per driver. When no bounded driver ran, the counts are obligations.",
        "samples": (b_samples[:4] + samples_ob[:3]) or [{"note": "no cases"}],
        "bounded": b_contracts,
        "explanation": pm["explanation"],
        "exhaustive": False,
        "known_findings": [f"{k} {v['text']}" for k, v in sorted(known_hits.items())],
        "proof_tier_complete": proof_ok,
        "lemma_library": ({"file": "contracts/lean/Fold.lean", "lean_status": lean["status"], "seconds": lean["seconds"], "theorems": lean["theorems"]} if lean else {"file": "contracts/lean/Fold.lean", "lean_status": "not run in this tier (thorough tier runs Lean 4 + Mathlib on it)"}),
    }
    ev = {
        "property_id": prop,
        "tier": tier,
        "seed": seed,
        "level": level,
        "coverage": coverage,
        "assumptions": sorted(assumptions | set(pm.get("assumptions", []))),
        "wall_s": round(time.time() - t0, 2),
        "violations": len(violations),
    }
    os.makedirs(EVID, exist_ok=True)
    json.dump(ev, open(os.path.join(EVID, f"{prop}.json"), "w"), indent=1, default=str)
    return code, lines, recs


def selfcheck():
    import z3

    print("z3", z3.get_version_string())
    from pyvc.extract import Repo

    r = Repo()
    for m in ("symmetries", "abelian_core", "fermionic_core", "block_core", "linalg", "fermionic_local_operators", "hamiltonians", "interface", "networks"):
        r.module(m)
    p = subprocess.run([VENV_PY, "-c", "import symmray, numpy; print('symmray ok', numpy.__version__)"], capture_output=True, text=True)
    print(p.stdout.strip() or p.stderr.strip())
    if p.returncode != 0:
        return 3
    p = subprocess.run(["/usr/bin/cvc5", "--version"], capture_output=True, text=True)
    print((p.stdout or "").splitlines()[0] if p.stdout else "cvc5 missing")
    os.makedirs(EVID, exist_ok=True)
    # CPython cross-check of the executor's semantics (guards A-builtins); a mismatch is a checker fault
    p = subprocess.run(["python3-vt", "-m", "pyvc.crosscheck"], cwd=HERE, capture_output=True, text=True, timeout=1200)
    line = [l for l in p.stdout.splitlines() if l.startswith("{")]
    print("crosscheck:", line[-1][:300] if line else p.stderr[-300:])
    if line:
        open(os.path.join(EVID, "crosscheck.json"), "w").write(line[-1])
    if p.returncode != 0:
        return 3
    print("selfcheck ok")
    return 0


def write_baseline():
    """Record which obligations are proved on the current tree (run by the maintainer of
    /verif on the unchanged tree, committed)."""
    from pyvc.run import run_modules

    from contracts.property_map import PYVC_MODULES

    os.environ["PYVC_TIER"] = "thorough"  # the thorough task set is a superset of the quick one
    recs = run_modules(PYVC_MODULES, jobs=12)
    from pyvc import frames

    recs += frames.run(list(frames.CHECKS), "-")
    out = {}
    for r in recs:
        out[r["task"]] = {o["name"]: o["status"] for o in r["obligations"]}
    json.dump(out, open(BASELINE, "w"), indent=0, sort_keys=True)
    print("baseline written:", sum(len(v) for v in out.values()), "obligations")


def proof_tier_only():
    """development aid: run every proof-tier task and every frames check once on the current tree and
    report what the verdict policy would flag (used to measure false alarms on behaviour-preserving refactors)"""
    from contracts.property_map import PYVC_MODULES
    from pyvc import frames
    from pyvc.run import run_modules

    baseline = json.load(open(BASELINE)) if os.path.exists(BASELINE) else {}
    known = load_known()
    recs = retry_unknowns(run_modules(PYVC_MODULES, jobs=12), baseline) + frames.run(list(frames.CHECKS), "-")
    alarms, undecided, n, n_known = [], [], 0, 0
    for r in recs:
        if r["status"] in ("undecided", "crash"):
            undecided.append(f"{r['task']}: {r.get('reason', '')[-200:]}")
        for o in r["obligations"]:
            n += 1
            if o["status"] == "proved":
                continue
            if any(match_known(known, p, {"obligation": o["name"], "features": {"tier": "P"}}) for p in r.get("props", [])):
                n_known += 1  # an obligation that isolates a known finding
                continue
            was = baseline.get(r["task"], {}).get(o["name"]) == "proved" and o.get("backend") != "frames"
            if o["status"] == "refuted" or was:
                alarms.append(f"{o['status']:8s} {r['task']} :: {o['name']} (line {o.get('lineno')})")
            else:
                undecided.append(f"{o['name']}: {o['status']}")
    print(json.dumps({"obligations": n, "known_finding_obligations": n_known, "alarms": alarms[:60], "n_alarms": len(alarms), "undecided": undecided[:30], "n_undecided": len(undecided)}, indent=1))
    return 1 if alarms else 0


def main():
    ap = argparse.ArgumentParser()
    ap.add_argument("prop", nargs="?")
    ap.add_argument("--tier", default="quick")
    ap.add_argument("--replay", default=None)
    ap.add_argument("--selfcheck", action="store_true")
    ap.add_argument("--write-baseline", action="store_true")
    ap.add_argument("--proof-tier-only", action="store_true")
    a = ap.parse_args()
    if a.selfcheck:
        sys.exit(selfcheck())
    if a.write_baseline:
        write_baseline()
        return
    if a.proof_tier_only:
        sys.exit(proof_tier_only())
    tier = os.environ.get("VERIF_TIER") or a.tier
    seed = int(os.environ.get("VERIF_SEED", "0"))
    if a.replay:
        d = json.load(open(a.replay))
        if d.get("kind") == "bounded contract failure":
            p = subprocess.run([VENV_PY, "-m", d["driver"], "--replay", a.replay], cwd=HERE)
            sys.exit(p.returncode)
        print(json.dumps(d, indent=1)[:4000])
        sys.exit(1)
    props = sorted(PROPERTY_MAP) if a.prop == "all" else [a.prop]
    worst = 0
    for p in props:
        try:
            code, lines, _ = check_property(p, tier, seed)
        except Exception:
            traceback.print_exc()
            code, lines = 3, [f"CHECKER-ERROR property={p} crash"]
        for l in lines:
            print(l)
        worst = max(worst, code) if code != 1 else (1 if worst in (0, 1, 2) else worst)
        if code == 1:
            worst = 1
    sys.exit(worst)


if __name__ == "__main__":
    main()
