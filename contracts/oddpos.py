"""Sidecar contracts for the odd-position label machinery (C04; used by C01, C10):

  fermionic_local_operators.FermionicOperator.__eq__/__lt__/dag
  fermionic_core.oddpos_dag, oddpos_parse, resolve_combined_oddpos

Labels are modelled as integers.  This is without loss of generality for the claim:
the code only applies ==, <, > to labels, and any finite set of mutually comparable
labels (the documented requirement) embeds order-preservingly into Z.

T-grass: ghost G(word) -- the value of a word of labelled odd generators -- with exactly
the two rewrite rules of the property statement:
  R1  adjacent generators with different labels anticommute;
  R2  an adjacent conjugate pair with equal labels contracts, sign -1 iff it meets
      as ket-then-bra (the second one is dual), +1 otherwise.
The rules are used as lemma *instances* at the loop step; uniqueness of the normal form
(A-grass) is mathematics and is cross-checked by brute force in the bounded tier.
"""

import z3

from pyvc.builtins_model import LoopSpec, zlen
from pyvc.core import SV, SymList, SymObj, SymSeq, TBool, TInt, TStruct
from pyvc.interp import BuiltinVal, I
from pyvc.task import Task, check_call

from .util import fresh_seq

FOP_CLS = "fermionic_local_operators.FermionicOperator"
FOP = TStruct("FOp", [("_label", TInt), ("_dual", TBool)], cls=FOP_CLS)
WORD = z3.ArraySort(z3.IntSort(), FOP.sort())
G = z3.Function("G", WORD, z3.IntSort(), z3.IntSort())


def setup(it):
    it.struct_classes[FOP_CLS] = FOP


def fresh_op(it, name):
    return SV(it.ctx.fresh(name, FOP), FOP)


def lab(t):
    return FOP.get(t, "_label")


def dual(t):
    return FOP.get(t, "_dual")


def call_term(it, fn, args):
    """Evaluate a (pure) function as one z3 term (if-converted), no path split."""
    it.term_mode += 1
    try:
        return it.call(fn, args)
    finally:
        it.term_mode -= 1


def lt_term(it, a, b):
    cls = it.get_class("fermionic_local_operators", "FermionicOperator")
    m, _ = cls.lookup("__lt__")
    r = it.truth(call_term(it, m, [a, b]))
    return z3.BoolVal(r) if isinstance(r, bool) else r


def eq_term(it, a, b):
    cls = it.get_class("fermionic_local_operators", "FermionicOperator")
    m, _ = cls.lookup("__eq__")
    r = it.truth(call_term(it, m, [a, b]))
    return z3.BoolVal(r) if isinstance(r, bool) else r


def _order_task():
    def body(it):
        setup(it)
        a, b, c = fresh_op(it, "a"), fresh_op(it, "b"), fresh_op(it, "c")
        ob = it.ctx.oblige
        lt = lambda x, y: lt_term(it, x, y)
        eq = lambda x, y: eq_term(it, x, y)
        ob("FermionicOperator.eq_iff_fields_equal", eq(a, b) == z3.And(lab(a.t) == lab(b.t), dual(a.t) == dual(b.t)))
        ob("FermionicOperator.lt_irreflexive", z3.Not(lt(a, a)))
        ob("FermionicOperator.lt_transitive", z3.Implies(z3.And(lt(a, b), lt(b, c)), lt(a, c)))
        ob("FermionicOperator.lt_asymmetric", z3.Not(z3.And(lt(a, b), lt(b, a))))
        ob("FermionicOperator.lt_total_wrt_eq", z3.Or(lt(a, b), lt(b, a), eq(a, b)))
        ob("FermionicOperator.lt_excludes_eq", z3.Implies(eq(a, b), z3.Not(lt(a, b))))
        ob("FermionicOperator.dual_sorts_before_nondual", z3.Implies(z3.And(dual(a.t), z3.Not(dual(b.t))), lt(a, b)))
        ob("FermionicOperator.duals_sort_by_decreasing_label", z3.Implies(z3.And(dual(a.t), dual(b.t)), lt(a, b) == (lab(a.t) > lab(b.t))))
        ob("FermionicOperator.nonduals_sort_by_increasing_label", z3.Implies(z3.And(z3.Not(dual(a.t)), z3.Not(dual(b.t))), lt(a, b) == (lab(a.t) < lab(b.t))))
        # dag
        d = it.getattr(a, "dag")
        ok = isinstance(d, SV) and d.ty == FOP
        ob("FermionicOperator.dag_is_operator", ok)
        if ok:
            ob("FermionicOperator.dag_keeps_label", lab(d.t) == lab(a.t))
            ob("FermionicOperator.dag_flips_dual", dual(d.t) == z3.Not(dual(a.t)))
            dd = it.getattr(d, "dag")
            ob("FermionicOperator.dag_involutive", dd.t == a.t)
            # conjugation reverses the order: a < b  <=>  b.dag < a.dag  (used by oddpos_dag keeping words sorted)
            db = it.getattr(b, "dag")
            ob("FermionicOperator.dag_reverses_order", lt(a, b) == lt(db, d))
        # properties
        ob("FermionicOperator.label_property", I(it.getattr(a, "label")) == lab(a.t))
        ob("FermionicOperator.dual_property", it.unwrap(it.getattr(a, "dual"), TBool) == dual(a.t))

    return Task(
        "C04.FermionicOperator.order",
        ["C04", "C10"],
        [FOP_CLS + ".__lt__", FOP_CLS + ".__eq__", FOP_CLS + ".dag", FOP_CLS + ".__init__"],
        body,
        assumes=["labels modelled as integers (wlog: finite totally ordered label sets embed in Z; the code uses only ==, <, > on labels)"],
    )


def sortedNF(it, arr, n, upto=None, name="nf"):
    """forall j: 0<=j<upto and j+1<n  =>  labels differ and not (w[j+1] < w[j])"""
    j = z3.Int(it.ctx.fresh_name(name))
    a, b = SV(z3.Select(arr, j), FOP), SV(z3.Select(arr, j + 1), FOP)
    rng = z3.And(j >= 0, j + 1 < n)
    if upto is not None:
        rng = z3.And(rng, j < upto)
    return z3.ForAll([j], z3.Implies(rng, z3.And(lab(a.t) != lab(b.t), z3.Not(lt_term(it, b, a)))))


def _oddpos_dag_task():
    def body(it):
        setup(it)
        t = fresh_seq(it, "t", FOP)
        fn = it.module_lookup("fermionic_core", "oddpos_dag")

        def post(r):
            if not isinstance(r, SymSeq):
                return [("returns_tuple", False)]
            j = z3.Int("j!dag")
            n = zlen(t.length)
            e = z3.Select(r.arr, j)
            src = z3.Select(t.arr, n - 1 - j)
            out = [
                ("is_tuple", r.kind == "tuple"),
                ("same_length", zlen(r.length) == n),
                ("reversed_and_conjugated", z3.ForAll([j], z3.Implies(z3.And(j >= 0, j < n), z3.And(lab(e) == lab(src), dual(e) == z3.Not(dual(src)))))),
            ]
            # involution
            r2 = it.call(fn, [r])
            out.append(("involution", z3.And(zlen(r2.length) == n, z3.ForAll([j], z3.Implies(z3.And(j >= 0, j < n), z3.Select(r2.arr, j) == z3.Select(t.arr, j))))))
            # conjugating a sorted pair-free word gives a sorted pair-free word
            out.append(("keeps_normal_form", z3.Implies(sortedNF(it, t.arr, n), sortedNF(it, r.arr, n, name="nf2"))))
            return out

        check_call(it, "oddpos_dag", fn, [t], post=post)

    return Task("C10.oddpos_dag", ["C10", "C04", "C01"], ["fermionic_core.oddpos_dag", FOP_CLS + ".dag", FOP_CLS + ".__lt__"], body)


def _oddpos_parse_task():
    def body(it):
        setup(it)
        fn = it.module_lookup("fermionic_core", "oddpos_parse")
        ob = it.ctx.oblige
        # parity set, no label -> ValueError
        check_call(it, "oddpos_parse.odd_without_label", fn, [None, 1], post=lambda r: [("must_raise", False)], raises={"ValueError": True})
        check_call(it, "oddpos_parse.odd_without_label_bool", fn, [None, True], post=lambda r: [("must_raise", False)], raises={"ValueError": True})
        # even, no label -> ()
        check_call(it, "oddpos_parse.even_none", fn, [None, 0], post=lambda r: [("empty", r == ())])
        lbl = SV(it.ctx.fresh("lbl", TInt), TInt)
        check_call(it, "oddpos_parse.even_label_dropped", fn, [lbl, 0], post=lambda r: [("empty", r == ())])

        def post_scalar(r):
            ok = isinstance(r, tuple) and len(r) == 1 and isinstance(r[0], SV) and r[0].ty == FOP
            if not ok:
                return [("one_operator", False)]
            return [("one_operator", True), ("label_kept", lab(r[0].t) == lbl.t), ("not_dual", z3.Not(dual(r[0].t)))]

        check_call(it, "oddpos_parse.odd_scalar_label", fn, [lbl, 1], post=post_scalar)
        op = fresh_op(it, "op")
        check_call(it, "oddpos_parse.odd_operator_label", fn, [op, 1], post=lambda r: [("kept_as_is", isinstance(r, tuple) and len(r) == 1 and r[0] is op)])
        ops = [fresh_op(it, "o1"), fresh_op(it, "o2")]
        for par in (0, 1):
            check_call(it, f"oddpos_parse.explicit_list_parity{par}", fn, [list(ops), par], post=lambda r: [("list_becomes_tuple", isinstance(r, tuple) and len(r) == 2 and r[0] is ops[0] and r[1] is ops[1])])

    return Task("C04.oddpos_parse", ["C04", "C16"], ["fermionic_core.oddpos_parse", FOP_CLS + ".__init__"], body)


# ----------------------------------------------------------------------------
# resolve_combined_oddpos

RQ = "fermionic_core.resolve_combined_oddpos"


def _resolve_loop_spec(state):
    def inv(it, env, g):
        od = env.vars["oddpos"]
        i = I(env.vars["i"])
        ph = I(env.vars["phase"])
        n = zlen(od.length)
        extra = []
        if state.get("w0") is None:
            # ghost w0 := the list `[*l_oddpos, *r_oddpos]` as it is when the loop is entered
            state["n0"], state["w0"] = n, od.arr
            j = z3.Int("j!cat")
            nl, nr = state["nl"], state["nr"]
            extra = [
                ("w0_length_is_sum", n == nl + nr),
                ("w0_is_left_then_right", z3.ForAll([j], z3.Implies(z3.And(j >= 0, j < nl + nr), z3.Select(od.arr, j) == z3.If(j < nl, z3.Select(state["lw"], j), z3.Select(state["rw"], j - nl))))),
            ]
        n0, w0 = state["n0"], state["w0"]
        return extra + [
            ("i_nonneg", i >= 0),
            ("phase_is_sign", z3.Or(ph == 1, ph == -1)),
            ("length_nonneg", n >= 0),
            ("length_parity", (n - n0) % 2 == 0),
            ("sign_times_value", ph * G(od.arr, n) == state["c0"] * G(w0, n0)),
            ("prefix_sorted_pair_free", sortedNF(it, od.arr, n, upto=i)),
        ]

    def lemmas(it, env, gpre):
        n_pre, w_pre = gpre["state"]["oddpos"]
        i = I(gpre["state"]["i"])
        od = env.vars["oddpos"]
        n_post, w_post = zlen(od.length), od.arr
        a, b = z3.Select(w_pre, i), z3.Select(w_pre, i + 1)
        j = z3.Int("j!lem")
        inr = z3.And(i >= 0, i + 1 < n_pre)
        # R1: swap of adjacent generators with different labels
        is_swap = z3.And(
            n_post == n_pre,
            z3.Select(w_post, i) == b,
            z3.Select(w_post, i + 1) == a,
            z3.ForAll([j], z3.Implies(z3.And(j >= 0, j < n_pre, j != i, j != i + 1), z3.Select(w_post, j) == z3.Select(w_pre, j))),
        )
        r1 = z3.Implies(z3.And(inr, lab(a) != lab(b), is_swap), G(w_post, n_post) == -G(w_pre, n_pre))
        # R2: contraction of an adjacent conjugate pair
        is_rm = z3.And(
            n_post == n_pre - 2,
            z3.ForAll([j], z3.Implies(z3.And(j >= 0, j < i), z3.Select(w_post, j) == z3.Select(w_pre, j))),
            z3.ForAll([j], z3.Implies(z3.And(j >= i, j < n_pre - 2), z3.Select(w_post, j) == z3.Select(w_pre, j + 2))),
        )
        s = z3.If(dual(b), -1, 1)
        r2 = z3.Implies(z3.And(inr, lab(a) == lab(b), dual(a) != dual(b), is_rm), G(w_post, n_post) == s * G(w_pre, n_pre))
        return [r1, r2]

    return LoopSpec(carried={"i": "int", "phase": "int", "oddpos": "inplace"}, invariant=inv, step_lemmas=lemmas)


def _resolve_task():
    def body(it):
        setup(it)
        ctx = it.ctx
        lw = fresh_seq(it, "l", FOP)
        rw = fresh_seq(it, "r", FOP)
        lpar = ctx.fresh("lpar", TBool)
        left = SymObj(None, {"oddpos": lw, "parity": SV(lpar, TBool)}, tag="left")
        right = SymObj(None, {"oddpos": rw, "parity": SV(ctx.fresh("rpar", TBool), TBool)}, tag="right")
        new = SymObj(None, {"$gs": 1}, tag="new")

        def phase_global(it_, a, k):
            if k.get("inplace") is not True:
                ctx.oblige("resolve_combined_oddpos.phase_global_called_inplace", False)
            new.fields["$gs"] = -new.fields["$gs"]
            return new

        new.fields["phase_global"] = BuiltinVal("new.phase_global", phase_global)
        nl, nr = zlen(lw.length), zlen(rw.length)
        # ghost: the concatenated word and the crossing sign
        state = {"n0": None, "w0": None, "nl": nl, "nr": nr, "lw": lw.arr, "rw": rw.arr, "c0": z3.If(z3.And(lpar, nr % 2 == 1), -1, 1)}
        it.loop_specs[(RQ, 0)] = _resolve_loop_spec(state)
        fn = it.module_lookup("fermionic_core", "resolve_combined_oddpos")

        def post(r):
            out = [("returns_none", r is None)]
            fo = new.fields.get("_oddpos")
            if fo == ():
                out.append(("empty_result_only_when_no_labels", z3.And(nl == 0, nr == 0)))
                out.append(("no_sign_applied_when_no_labels", new.fields["$gs"] == 1))
                return out
            if not isinstance(fo, SymSeq):
                return out + [("oddpos_assigned_as_tuple", False)]
            n = zlen(fo.length)
            gs = new.fields["$gs"]
            out += [
                ("oddpos_is_tuple", fo.kind == "tuple"),
                ("result_sorted_pair_free", sortedNF(it, fo.arr, n, name="nfpost")),
                ("label_count_parity", (n - (nl + nr)) % 2 == 0),
                ("global_sign_matches_rewrites", gs * G(fo.arr, n) == state["c0"] * G(state["w0"], state["n0"])),
            ]
            return out

        res, exc = check_call(it, "resolve_combined_oddpos", fn, [left, right, new], post=post, raises={"ValueError": True})
        # frame: operands untouched
        ctx.oblige("resolve_combined_oddpos.frame_left_untouched", left.fields["oddpos"] is lw and set(left.fields) == {"oddpos", "parity"})
        ctx.oblige("resolve_combined_oddpos.frame_right_untouched", right.fields["oddpos"] is rw and set(right.fields) == {"oddpos", "parity"})

    return Task(
        "C04.resolve_combined_oddpos",
        ["C04", "C01"],
        [RQ, FOP_CLS + ".__lt__"],
        body,
        assumes=[
            "T-grass rules R1 (adjacent different labels anticommute) and R2 (adjacent conjugate pair contracts, sign -1 iff ket-then-bra) taken from the property statement, used as lemma instances",
            "A-grass: uniqueness of the normal form of a word (mathematics; brute-force cross-check in the bounded tier)",
            "callee contract FermionicArray.parity == parity of the total charge; FermionicArray.phase_global(inplace=True) flips the global sign (proved separately in contracts/phases.py)",
        ],
    )


def _oddpos_parse_labels_task():
    """a label is ONE odd-position label whatever its type: ints, strings and tuple-valued labels
    (lattice coordinates) each give exactly one non-dual operator carrying that label unchanged"""

    def body(it):
        fn = it.module_lookup("fermionic_core", "oddpos_parse")
        for nm, lbl in (("int", 7), ("str", "p"), ("pair", (2, 3)), ("triple", (1, 0, 2)), ("nested", ((0, 1), 2))):
            def post(r, lbl=lbl):
                ok = isinstance(r, tuple) and len(r) == 1 and isinstance(r[0], SymObj) and r[0].cls is not None and r[0].cls.name == "FermionicOperator"
                out = [("exactly_one_operator", ok)]
                if ok:
                    out.append(("label_kept_unchanged", r[0].fields.get("_label") == lbl and type(r[0].fields.get("_label")) is type(lbl)))
                    out.append(("not_dual", r[0].fields.get("_dual") is False))
                return out

            check_call(it, f"oddpos_parse.odd_label_{nm}", fn, [lbl, 1], post=post)
            check_call(it, f"oddpos_parse.even_label_{nm}_dropped", fn, [lbl, 0], post=lambda r: [("empty", r == ())])

    return Task("C04.oddpos_parse.label_types", ["C04", "C01", "C16", "C03"], ["fermionic_core.oddpos_parse", FOP_CLS + ".__init__"], body)


def tasks():
    return [_order_task(), _oddpos_dag_task(), _oddpos_parse_task(), _oddpos_parse_labels_task(), _resolve_task()]
