"""Symbolic model of symmray array objects for the contract modules.

A FermionicArray / AbelianArray is a SymObj of the REAL class (methods, properties and
`super()` chains are executed from /repo's source) whose fields hold:
  _blocks : SymDict  Sector -> Block         (Block opaque, with `neg`)
  _phases : SymDict  Sector -> int
  _indices, _charge, _oddpos : opaque tokens (or task-specific values)
  _symmetry: abstract symmetry object with an uninterpreted parity function into {0,1}

Sectors are opaque keys with an accessor  sec_at(sector, ax) -> charge  and the ghost
`parities(sector)`; the Koszul sign of a permutation on the odd entries is the ghost
`kz(parities, perm)` with values in {+1,-1} (its arithmetic content is the subject of
contracts/koszul.py).
"""

import z3

from pyvc.core import SV, KeyIter, SymDict, SymObj, SymSeq, TBool, TInt, TOpaque, Unsupported  # noqa: F401
from pyvc.interp import BuiltinVal, I

SEC = TOpaque("Sector")
BLK = TOpaque("Block")
PAR = TOpaque("Parities")
PERM = TOpaque("Perm")
IDX = TOpaque("Indices")
CHG = TOpaque("Charge")
ODD = TOpaque("OddPos")

neg = z3.Function("blk_neg", BLK.sort(), BLK.sort())
conjb = z3.Function("blk_conj", BLK.sort(), BLK.sort())
sec_at = z3.Function("sec_at", SEC.sort(), z3.IntSort(), z3.IntSort())
par = z3.Function("par", z3.IntSort(), z3.IntSort())
parities = z3.Function("parities", SEC.sort(), PAR.sort())
kz = z3.Function("kz", PAR.sort(), PERM.sort(), z3.IntSort())
NONE_PERM = z3.Const("perm_None", PERM.sort())


def block_axioms():
    b = z3.Const("b!ax", BLK.sort())
    c = z3.Int("c!ax")
    p = z3.Const("p!ax", PAR.sort())
    q = z3.Const("q!ax", PERM.sort())
    return [
        z3.ForAll([b], neg(neg(b)) == b, patterns=[neg(neg(b))]),
        z3.ForAll([c], z3.Or(par(c) == 0, par(c) == 1), patterns=[par(c)]),
        z3.ForAll([p, q], z3.Or(kz(p, q) == 1, kz(p, q) == -1), patterns=[kz(p, q)]),
    ]


def smul(p, b):
    """sign * block for sign in {+1,-1}"""
    return z3.If(p == -1, neg(b), b)


def eff(has, val, s):
    """effective pending sign of sector s in a phase table (absent = +1)"""
    return z3.If(z3.Select(has, s), z3.Select(val, s), z3.IntVal(1))


def abstract_symmetry(it):
    s = SymObj(None, tag="symmetry")
    s.fields["parity"] = BuiltinVal("symmetry.parity", lambda it_, a, k: SV(par(I(a[0])), TInt))
    return s


def install_hooks(it):
    it.neg_fn = {repr(BLK): neg}
    it.opaque_getitem = {"Sector": lambda it_, obj, key: SV(sec_at(obj.t, I(key)), TInt)}

    def comp_hook(it_, e, env, kind, it0):
        # tuple(symmetry.parity(q) for q in sector) / tuple(map(parity, sector)) on an opaque sector
        if isinstance(it0, SV) and it0.ty == SEC:
            return SV(parities(it0.t), PAR)
        return None

    it.comp_hook = comp_hook

    def calc_phase_permutation(it_, a, k):
        p = a[0]
        perm = a[1] if len(a) > 1 else k.get("perm", None)
        if not (isinstance(p, SV) and p.ty == PAR):
            raise Unsupported("calc_phase_permutation summary expects ghost parities")
        if perm is None:
            pt = NONE_PERM
        elif isinstance(perm, SV) and perm.ty == PERM:
            pt = perm.t
        else:
            raise Unsupported("calc_phase_permutation summary expects an opaque permutation")
        return SV(kz(p.t, pt), TInt)

    it.summaries["symmetries.calc_phase_permutation"] = calc_phase_permutation


def fresh_dict(it, name, kty, vty):
    has = z3.Const(it.ctx.fresh_name(name + "_has"), z3.ArraySort(kty.sort(), z3.BoolSort()))
    val = z3.Const(it.ctx.fresh_name(name + "_val"), z3.ArraySort(kty.sort(), vty.sort()))
    return SymDict(has, val, kty, vty, name)


def mk_farray(it, name="x", fermionic=True, cls=None):
    """A symbolic (fermionic) array object of the real class, with Valid-style assumptions
    on the phase table (values are +-1)."""
    if cls is None:
        cls = it.get_class("fermionic_core", "FermionicArray") if fermionic else it.get_class("abelian_core", "AbelianArray")
    x = SymObj(cls, tag=name)
    x.fields["_blocks"] = fresh_dict(it, name + "_blocks", SEC, BLK)
    x.fields["_indices"] = SV(it.ctx.fresh(name + "_indices", IDX), IDX)
    x.fields["_charge"] = SV(it.ctx.fresh(name + "_charge", CHG), CHG)
    x.fields["_symmetry"] = abstract_symmetry(it)
    if fermionic:
        ph = fresh_dict(it, name + "_phases", SEC, TInt)
        s = z3.Const("s!pre", SEC.sort())
        it.ctx.assume(z3.ForAll([s], z3.Implies(z3.Select(ph.has, s), z3.Or(z3.Select(ph.val, s) == 1, z3.Select(ph.val, s) == -1))))
        x.fields["_phases"] = ph
        x.fields["_oddpos"] = SV(it.ctx.fresh(name + "_oddpos", ODD), ODD)
    return x


class Snapshot:
    """Initial state of an operand, for frame and value clauses."""

    def __init__(self, x):
        self.obj = x
        self.cells = {}
        self.vals = {}
        for f, v in x.fields.items():
            if isinstance(v, SymDict):
                self.cells[f] = (v, v.has, v.val)
            else:
                self.vals[f] = v

    def unchanged(self):
        """[(name, term)] : every field of the operand is exactly as it was"""
        x = self.obj
        out = []
        out.append(("same_field_set", set(x.fields) == set(self.cells) | set(self.vals)))
        for f, (cell, has, val) in self.cells.items():
            cur = x.fields.get(f)
            out.append((f"{f}_same_dict_object", cur is cell))
            if cur is cell:
                out.append((f"{f}_keys_unchanged", cell.has == has))
                k = z3.Const("k!fr", cell.kty.sort())
                out.append((f"{f}_values_unchanged", z3.ForAll([k], z3.Implies(z3.Select(has, k), z3.Select(cell.val, k) == z3.Select(val, k)))))
        for f, v in self.vals.items():
            cur = x.fields.get(f)
            if isinstance(v, SV) and isinstance(cur, SV):
                out.append((f"{f}_unchanged", cur.t == v.t))
            else:
                out.append((f"{f}_unchanged", cur is v))
        return out


def fresh_result_clauses(res, x, snap):
    """out-of-place result: a different object whose dicts are not shared with the operand"""
    out = [("result_is_new_object", isinstance(res, SymObj) and res is not x)]
    if isinstance(res, SymObj):
        for f in snap.cells:
            out.append((f"result_{f}_not_shared", res.fields.get(f) is not x.fields.get(f)))
        out.append(("result_same_class", res.cls is x.cls))
    return out


# ----------------------------------------------------------------------------
# re-keying ghosts (transpose / dagger) and reusable loop contracts

perm_sec = z3.Function("perm_sec", SEC.sort(), PERM.sort(), SEC.sort())
unperm_sec = z3.Function("unperm_sec", SEC.sort(), PERM.sort(), SEC.sort())
perm_idx = z3.Function("perm_idx", IDX.sort(), PERM.sort(), IDX.sort())
tr = z3.Function("blk_transpose", BLK.sort(), PERM.sort(), BLK.sort())
conj_idx = z3.Function("conj_idx", IDX.sort(), IDX.sort())
neg_chg = z3.Function("neg_chg", CHG.sort(), CHG.sort())
par_chg = z3.Function("par_chg", CHG.sort(), z3.IntSort())
dag_odd = z3.Function("dag_odd", ODD.sort(), ODD.sort())
len_odd = z3.Function("len_odd", ODD.sort(), z3.IntSort())
par_at = z3.Function("par_at", PAR.sort(), z3.IntSort(), z3.IntSort())
REV = z3.Const("perm_full_reversal", PERM.sort())


def rekey_axioms():
    s = z3.Const("s!rk", SEC.sort())
    a = z3.Const("a!rk", PERM.sort())
    p = z3.Const("p!rk", PAR.sort())
    i = z3.Int("i!rk")
    b = z3.Const("b!rk", BLK.sort())
    return block_axioms() + [
        # permuted(., axes) is a bijection on sectors when axes is a permutation (sequence algebra)
        z3.ForAll([s, a], unperm_sec(perm_sec(s, a), a) == s, patterns=[perm_sec(s, a)]),
        z3.ForAll([s, a], perm_sec(unperm_sec(s, a), a) == s, patterns=[unperm_sec(s, a)]),
        # definition of the ghost `parities`
        z3.ForAll([s, i], par_at(parities(s), i) == par(sec_at(s, i)), patterns=[par_at(parities(s), i)]),
        # numpy: elementwise / structural primitives commute with the sign of a block
        z3.ForAll([b, a], tr(neg(b), a) == neg(tr(b, a)), patterns=[tr(neg(b), a)]),
        z3.ForAll([b], conjb(neg(b)) == neg(conjb(b)), patterns=[conjb(neg(b))]),
    ]


def install_rekey_hooks(it, axes_seq_token=None):
    """summaries for permuted / numpy primitives / label + charge helpers on opaque values"""
    install_hooks(it)
    it.invertible = {"perm_sec": unperm_sec}

    def to_perm(v):
        if v is None:
            return NONE_PERM
        if isinstance(v, SV) and v.ty == PERM:
            return v.t
        if axes_seq_token is not None and v is axes_seq_token[0]:
            return axes_seq_token[1]
        raise Unsupported("permutation argument is neither opaque nor the tracked axes value")

    it.to_perm = to_perm

    def permuted(it_, a, k):
        x, ax = a
        p = to_perm(ax)
        if isinstance(x, SV) and x.ty == SEC:
            return SV(perm_sec(x.t, p), SEC)
        if isinstance(x, SV) and x.ty == IDX:
            return SV(perm_idx(x.t, p), IDX)
        raise Unsupported("permuted() of unexpected value")

    it.summaries["abelian_core.permuted"] = permuted
    old_cpp = it.summaries["symmetries.calc_phase_permutation"]

    def cpp(it_, a, k):
        perm = a[1] if len(a) > 1 else k.get("perm", None)
        if perm is not None and not (isinstance(perm, SV) and perm.ty == PERM):
            perm = SV(to_perm(perm), PERM)
        return old_cpp(it_, [a[0], perm], {})

    it.summaries["symmetries.calc_phase_permutation"] = cpp

    def get_lib_fn(it_, a, k):
        name = a[1]
        if name == "transpose":
            def f(i2, a2, k2):
                p = to_perm(a2[1]) if len(a2) > 1 else REV
                return SV(tr(a2[0].t, p), BLK)
            return BuiltinVal("np.transpose", f)
        if name == "conj":
            return BuiltinVal("np.conj", lambda i2, a2, k2: SV(conjb(a2[0].t), BLK))
        raise Unsupported(f"ar.get_lib_fn(.., {name!r})")

    it.externals["ar.get_lib_fn"] = get_lib_fn
    it.summaries["block_core.BlockBase.backend"] = lambda it_, a, k: "numpy"
    it.summaries["fermionic_core.oddpos_dag"] = lambda it_, a, k: SV(dag_odd(a[0].t), ODD)
    it.opaque_len = {"OddPos": lambda v: SV(len_odd(v.t), TInt)}
    it.opaque_getitem["Parities"] = lambda it_, obj, key: SV(par_at(obj.t, I(key)), TInt)


def symmetry_with_sign(it):
    s = abstract_symmetry(it)

    def parity(it_, a, k):
        v = a[0]
        if isinstance(v, SV) and v.ty == CHG:
            return SV(par_chg(v.t), TInt)
        return SV(par(I(v)), TInt)

    s.fields["parity"] = BuiltinVal("symmetry.parity", parity)
    s.fields["sign"] = BuiltinVal("symmetry.sign", lambda it_, a, k: SV(neg_chg(a[0].t), CHG))
    return s


def spec_phase_global(FA="fermionic_core.FermionicArray"):
    """loop contract of FermionicArray.phase_global relative to the table at loop entry"""
    from pyvc.builtins_model import LoopSpec

    def cap(it, env):
        ph = env.vars["new"].fields["_phases"]
        return {"P": (ph.has, ph.val)}

    def inv(it, env, g):
        P0 = g["pre"]["P"]
        ph = env.vars["new"].fields["_phases"]
        vis = g["vis"]
        s = z3.Const("s!pg", SEC.sort())
        return [
            ("visited_negated", z3.ForAll([s], z3.Implies(z3.Select(vis, s), eff(ph.has, ph.val, s) == -eff(P0[0], P0[1], s)))),
            ("unvisited_untouched", z3.ForAll([s], z3.Implies(z3.Not(z3.Select(vis, s)), z3.And(z3.Select(ph.has, s) == z3.Select(P0[0], s), z3.Select(ph.val, s) == z3.Select(P0[1], s))))),
            ("table_values_pm1", z3.ForAll([s], z3.Implies(z3.Select(ph.has, s), z3.Or(z3.Select(ph.val, s) == 1, z3.Select(ph.val, s) == -1)))),
        ]

    return LoopSpec(carried={}, cells=[lambda env: env.vars["new"].fields["_phases"]], invariant=inv, pre_capture=cap)


def flip_parity(axs, s):
    """(sum over the listed axes of the parity of sector s there) % 2 -- same term the executor builds"""
    from pyvc.builtins_model import SUM_fn

    i = z3.Int("mi!F")
    return SUM_fn()(z3.Lambda([i], par(sec_at(s, z3.Select(axs.arr, i)))), axs.length) % 2


def spec_phase_flip():
    from pyvc.builtins_model import LoopSpec

    def cap(it, env):
        ph = env.vars["new_phases"]
        return {"P": (ph.has, ph.val)}

    def inv(it, env, g):
        P0 = g["pre"]["P"]
        np_ = env.vars["new_phases"]
        axs = env.vars["axs"]
        vis = g["vis"]
        s = z3.Const("s!pf", SEC.sort())
        e0 = eff(P0[0], P0[1], s)
        e1 = eff(np_.has, np_.val, s)
        return [
            ("visited_flipped", z3.ForAll([s], z3.Implies(z3.Select(vis, s), e1 == e0 * (1 - 2 * flip_parity(axs, s))))),
            ("unvisited_untouched", z3.ForAll([s], z3.Implies(z3.Not(z3.Select(vis, s)), z3.And(z3.Select(np_.has, s) == z3.Select(P0[0], s), z3.Select(np_.val, s) == z3.Select(P0[1], s))))),
            ("table_values_pm1", z3.ForAll([s], z3.Implies(z3.Select(np_.has, s), z3.Or(z3.Select(np_.val, s) == 1, z3.Select(np_.val, s) == -1)))),
        ]

    return LoopSpec(carried={"new_phases": "inplace"}, invariant=inv, pre_capture=cap)
