"""Symbolic model of symmray array objects for the contract modules.

A FermionicArray / AbelianArray is a SymObj of the REAL class (methods, properties and
`super()` chains are executed from /repo's source) whose fields hold:
  _blocks : SymDict  Sector -> Block         (Block opaque, with `neg`)
  _phases : SymDict  Sector -> int
  _indices, _charge, _oddpos : opaque tokens (or task-specific values)
  _symmetry: abstract symmetry object with an uninterpreted parity function into {0,1}

Sectors are opaque keys with an accessor  sec_at(sector, ax) -> charge  and the ghost
`parities(sector)`; the Koszul sign of a permutation on the odd entries is the ghost
`kz(parities, perm)` with values in {+1,-1} (its arithmetic content is the subject of
contracts/koszul.py).
"""

import z3

from pyvc.core import SV, KeyIter, SymDict, SymObj, SymSeq, TBool, TInt, TOpaque, Unsupported
from pyvc.interp import BuiltinVal, I

SEC = TOpaque("Sector")
BLK = TOpaque("Block")
PAR = TOpaque("Parities")
PERM = TOpaque("Perm")
IDX = TOpaque("Indices")
CHG = TOpaque("Charge")
ODD = TOpaque("OddPos")

neg = z3.Function("blk_neg", BLK.sort(), BLK.sort())
conjb = z3.Function("blk_conj", BLK.sort(), BLK.sort())
sec_at = z3.Function("sec_at", SEC.sort(), z3.IntSort(), z3.IntSort())
par = z3.Function("par", z3.IntSort(), z3.IntSort())
parities = z3.Function("parities", SEC.sort(), PAR.sort())
kz = z3.Function("kz", PAR.sort(), PERM.sort(), z3.IntSort())
NONE_PERM = z3.Const("perm_None", PERM.sort())


def block_axioms():
    b = z3.Const("b!ax", BLK.sort())
    c = z3.Int("c!ax")
    p = z3.Const("p!ax", PAR.sort())
    q = z3.Const("q!ax", PERM.sort())
    return [
        z3.ForAll([b], neg(neg(b)) == b, patterns=[neg(neg(b))]),
        z3.ForAll([c], z3.Or(par(c) == 0, par(c) == 1), patterns=[par(c)]),
        z3.ForAll([p, q], z3.Or(kz(p, q) == 1, kz(p, q) == -1), patterns=[kz(p, q)]),
    ]


def smul(p, b):
    """sign * block for sign in {+1,-1}"""
    return z3.If(p == -1, neg(b), b)


def eff(has, val, s):
    """effective pending sign of sector s in a phase table (absent = +1)"""
    return z3.If(z3.Select(has, s), z3.Select(val, s), z3.IntVal(1))


def abstract_symmetry(it):
    s = SymObj(None, tag="symmetry")
    s.fields["parity"] = BuiltinVal("symmetry.parity", lambda it_, a, k: SV(par(I(a[0])), TInt))
    return s


def install_hooks(it):
    it.neg_fn = {repr(BLK): neg}
    it.opaque_getitem = {"Sector": lambda it_, obj, key: SV(sec_at(obj.t, I(key)), TInt)}

    def comp_hook(it_, e, env, kind, it0):
        # tuple(symmetry.parity(q) for q in sector) / tuple(map(parity, sector)) on an opaque sector
        if isinstance(it0, SV) and it0.ty == SEC:
            return SV(parities(it0.t), PAR)
        return None

    it.comp_hook = comp_hook

    def calc_phase_permutation(it_, a, k):
        p = a[0]
        perm = a[1] if len(a) > 1 else k.get("perm", None)
        if not (isinstance(p, SV) and p.ty == PAR):
            raise Unsupported("calc_phase_permutation summary expects ghost parities")
        if perm is None:
            pt = NONE_PERM
        elif isinstance(perm, SV) and perm.ty == PERM:
            pt = perm.t
        else:
            raise Unsupported("calc_phase_permutation summary expects an opaque permutation")
        return SV(kz(p.t, pt), TInt)

    it.summaries["symmetries.calc_phase_permutation"] = calc_phase_permutation


def fresh_dict(it, name, kty, vty):
    has = z3.Const(it.ctx.fresh_name(name + "_has"), z3.ArraySort(kty.sort(), z3.BoolSort()))
    val = z3.Const(it.ctx.fresh_name(name + "_val"), z3.ArraySort(kty.sort(), vty.sort()))
    return SymDict(has, val, kty, vty, name)


def mk_farray(it, name="x", fermionic=True, cls=None):
    """A symbolic (fermionic) array object of the real class, with Valid-style assumptions
    on the phase table (values are +-1)."""
    if cls is None:
        cls = it.get_class("fermionic_core", "FermionicArray") if fermionic else it.get_class("abelian_core", "AbelianArray")
    x = SymObj(cls, tag=name)
    x.fields["_blocks"] = fresh_dict(it, name + "_blocks", SEC, BLK)
    x.fields["_indices"] = SV(it.ctx.fresh(name + "_indices", IDX), IDX)
    x.fields["_charge"] = SV(it.ctx.fresh(name + "_charge", CHG), CHG)
    x.fields["_symmetry"] = abstract_symmetry(it)
    if fermionic:
        ph = fresh_dict(it, name + "_phases", SEC, TInt)
        s = z3.Const("s!pre", SEC.sort())
        it.ctx.assume(z3.ForAll([s], z3.Implies(z3.Select(ph.has, s), z3.Or(z3.Select(ph.val, s) == 1, z3.Select(ph.val, s) == -1))))
        x.fields["_phases"] = ph
        x.fields["_oddpos"] = SV(it.ctx.fresh(name + "_oddpos", ODD), ODD)
    return x


class Snapshot:
    """Initial state of an operand, for frame and value clauses."""

    def __init__(self, x):
        self.obj = x
        self.cells = {}
        self.vals = {}
        for f, v in x.fields.items():
            if isinstance(v, SymDict):
                self.cells[f] = (v, v.has, v.val)
            else:
                self.vals[f] = v

    def unchanged(self):
        """[(name, term)] : every field of the operand is exactly as it was"""
        x = self.obj
        out = []
        out.append(("same_field_set", set(x.fields) == set(self.cells) | set(self.vals)))
        for f, (cell, has, val) in self.cells.items():
            cur = x.fields.get(f)
            out.append((f"{f}_same_dict_object", cur is cell))
            if cur is cell:
                out.append((f"{f}_keys_unchanged", cell.has == has))
                k = z3.Const("k!fr", cell.kty.sort())
                out.append((f"{f}_values_unchanged", z3.ForAll([k], z3.Implies(z3.Select(has, k), z3.Select(cell.val, k) == z3.Select(val, k)))))
        for f, v in self.vals.items():
            cur = x.fields.get(f)
            if isinstance(v, SV) and isinstance(cur, SV):
                out.append((f"{f}_unchanged", cur.t == v.t))
            else:
                out.append((f"{f}_unchanged", cur is v))
        return out


def fresh_result_clauses(res, x, snap):
    """out-of-place result: a different object whose dicts are not shared with the operand"""
    out = [("result_is_new_object", isinstance(res, SymObj) and res is not x)]
    if isinstance(res, SymObj):
        for f in snap.cells:
            out.append((f"result_{f}_not_shared", res.fields.get(f) is not x.fields.get(f)))
        out.append(("result_same_class", res.cls is x.cls))
    return out
