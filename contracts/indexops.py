"""Sidecar contracts for the structural operations of the index value classes (C01, C05, C15, C14):
BlockIndex.conj / copy_with / drop_charges and SubIndexInfo.conj / copy_with / drop_charges on
index TREES (an index produced by fusing carries a SubIndexInfo with its constituent indices,
which may themselves be fused ...).

The real classes are interpreted.  Proved for every tree SHAPE of depth <= 3 with <= 3 children
per node listed in SHAPES (a shape-bounded proof; the shape list is the only bound): charge tables
(any number of charges, any sizes), extents tables, directions and stale hash memos are symbolic.

  conj():          a NEW tree of the same shape; the direction of EVERY node (also nested ones) is
                   reversed; charge tables are equal copies (not shared); extents are kept; every
                   hash memo of the new tree is reset (None) -- a copied memo would be the key of the
                   un-conjugated index (C15); the operand tree is untouched, including its memos.
  conj().conj():   structurally equal to the operand (involution, needed for C10 / C01).
  drop_charges(S): the table keeps exactly the charges not in S with their sizes, direction kept, memo
                   reset; a fused index filters its extents table by the same rule and keeps its
                   constituent indices (same objects); operand untouched.
"""

import z3

from pyvc.core import SV, SymDict, SymObj, SymSet, TBool, TInt, TOpaque
from pyvc.task import Task, check_call, thorough

from .linalg_bonds import install, mk_index

EXT = TOpaque("ExtentTable")
HK = TOpaque("HashMemo")

L = ()
SHAPES = {
    "leaf": L,
    "fused1": (L,),
    "fused2": (L, L),
    "fused3": (L, L, L),
    "fused_of_fused_left": ((L, L), L),
    "fused_of_fused_right": (L, (L, L)),
    "fused_of_two_fused": ((L, L), (L,)),
    "depth3": (((L, L), L), L),
}


def mk_tree(it, name, shape):
    ix = mk_index(it, name)
    ix.fields["_hashkey"] = SV(it.ctx.fresh(name + "_memo", HK), HK)  # possibly memoised earlier (stale if copied)
    if shape != L:
        sub = SymObj(it.get_class("abelian_core", "SubIndexInfo"), tag=name + "_sub")
        sub.fields["_indices"] = tuple(mk_tree(it, f"{name}_{i}", sh) for i, sh in enumerate(shape))
        sub.fields["_extents"] = SymDict(
            z3.Const(name + "_ext_has", z3.ArraySort(z3.IntSort(), z3.BoolSort())),
            z3.Const(name + "_ext_val", z3.ArraySort(z3.IntSort(), EXT.sort())),
            TInt,
            EXT,
            name + "_ext",
        )
        sub.fields["_hashkey"] = SV(it.ctx.fresh(name + "_submemo", HK), HK)
        ix.fields["_subinfo"] = sub
    return ix


def snapshot(ix, out=None):
    """[(object, field, value-as-of-now)] over the whole tree"""
    out = [] if out is None else out
    for f, v in ix.fields.items():
        if isinstance(v, SymDict):
            out.append((ix, f, ("dict", v, v.has, v.val)))
        elif isinstance(v, SymObj):
            out.append((ix, f, ("obj", v)))
            snapshot(v, out)
        elif isinstance(v, tuple):
            out.append((ix, f, ("tuple", v)))
            for c in v:
                snapshot(c, out)
        else:
            out.append((ix, f, ("val", v)))
    return out


def untouched(snap):
    out = []
    for k, (o, f, rec) in enumerate(snap):
        cur = o.fields.get(f)
        nm = f"operand_untouched.{o.tag}.{f}"
        if rec[0] == "dict":
            out.append((nm, cur is rec[1] and z3.And(cur.has == rec[2], cur.val == rec[3])))
        elif rec[0] == "obj":
            out.append((nm, cur is rec[1]))
        elif rec[0] == "tuple":
            out.append((nm, isinstance(cur, tuple) and len(cur) == len(rec[1]) and all(a is b for a, b in zip(cur, rec[1]))))
        else:
            v = rec[1]
            if isinstance(v, SV):
                out.append((nm, isinstance(cur, SV) and cur.t == v.t))
            else:
                out.append((nm, cur is v or cur == v))
    return out


def dterm(ix):
    d = ix.fields["_dual"]
    return d.t if isinstance(d, SV) else z3.BoolVal(bool(d))


def is_index(v):
    return isinstance(v, SymObj) and v.cls is not None and v.cls.name == "BlockIndex"


def tree_rel(orig, res, path, flip, fresh):
    """clauses: `res` is a tree of the shape of `orig`; directions reversed iff flip; tables equal;
    with fresh=True additionally: new objects, unshared tables, memos reset."""
    nm = "node[" + path + "]"
    if not is_index(res):
        return [(nm + ".is_an_index", False)]
    out = []
    if fresh:
        out.append((nm + ".is_a_new_object", res is not orig))
    want = z3.Not(dterm(orig)) if flip else dterm(orig)
    out.append((nm + (".direction_reversed" if flip else ".direction_kept"), dterm(res) == want))
    ocm, rcm = orig.fields["_chargemap"], res.fields.get("_chargemap")
    okcm = isinstance(rcm, SymDict)
    out.append((nm + ".charge_table_equal", z3.And(rcm.has == ocm.has, rcm.val == ocm.val) if okcm else False))
    if fresh:
        out.append((nm + ".charge_table_not_shared", okcm and rcm is not ocm))
        out.append((nm + ".hash_memo_reset", res.fields.get("_hashkey", "missing") is None))
    osub, rsub = orig.fields.get("_subinfo"), res.fields.get("_subinfo")
    if osub is None:
        out.append((nm + ".no_subinfo", rsub is None))
        return out
    oksub = isinstance(rsub, SymObj) and rsub.cls is not None and rsub.cls.name == "SubIndexInfo"
    out.append((nm + ".has_subinfo", oksub))
    if not oksub:
        return out
    if fresh:
        out.append((nm + ".subinfo_is_a_new_object", rsub is not osub))
        out.append((nm + ".subinfo_hash_memo_reset", rsub.fields.get("_hashkey", "missing") is None))
    oe, re_ = osub.fields["_extents"], rsub.fields.get("_extents")
    out.append((nm + ".extents_kept", isinstance(re_, SymDict) and (re_ is oe or z3.And(re_.has == oe.has, re_.val == oe.val))))
    oi, ri = osub.fields["_indices"], rsub.fields.get("_indices")
    okn = isinstance(ri, tuple) and len(ri) == len(oi)
    out.append((nm + ".same_number_of_constituents", okn))
    if okn:
        for k, (a, b) in enumerate(zip(oi, ri)):
            out += tree_rel(a, b, path + ("." if path else "") + str(k), flip, fresh)
    return out


def _conj_task(sname, shape):
    def body(it):
        install(it)
        x = mk_tree(it, "ix", shape)
        snap = snapshot(x)

        def post(r):
            return tree_rel(x, r, "", True, True) + untouched(snap)

        check_call(it, f"BlockIndex.conj[{sname}]", it.getattr(x, "conj"), [], post=post)

    return Task(
        f"C01.BlockIndex.conj.{sname}",
        ["C01", "C05", "C15", "C14", "C10"],
        ["abelian_core.BlockIndex.conj", "abelian_core.SubIndexInfo.conj", "abelian_core.BlockIndex.copy_with", "abelian_core.SubIndexInfo.copy_with"],
        body,
        bounded_rank=f"index tree shape '{sname}' (shapes listed in contracts/indexops.py: depth <= 3, <= 3 constituents); tables / directions / memos symbolic",
    )


def _involution_task(sname, shape):
    def body(it):
        install(it)
        x = mk_tree(it, "ix", shape)
        snap = snapshot(x)
        y = it.call(it.getattr(x, "conj"), [])

        def post(r):
            return tree_rel(x, r, "", False, True) + untouched(snap)

        check_call(it, f"BlockIndex.conj.conj[{sname}]", it.getattr(y, "conj"), [], post=post)

    return Task(f"C01.BlockIndex.conj_involution.{sname}", ["C01", "C10"], ["abelian_core.BlockIndex.conj", "abelian_core.SubIndexInfo.conj"], body, bounded_rank=f"index tree shape '{sname}'")


def _drop_task(sname, shape):
    def body(it):
        install(it)
        x = mk_tree(it, "ix", shape)
        snap = snapshot(x)
        S = SymSet(z3.Const("dropset", z3.ArraySort(z3.IntSort(), z3.BoolSort())), TInt)
        c = z3.Int("c!dr")

        def post(r):
            if not is_index(r):
                return [("returns_an_index", False)]
            ocm, rcm = x.fields["_chargemap"], r.fields.get("_chargemap")
            out = [("is_a_new_object", r is not x)]
            okcm = isinstance(rcm, SymDict)
            out.append(("table_keeps_exactly_the_charges_not_dropped", z3.ForAll([c], z3.Select(rcm.has, c) == z3.And(z3.Select(ocm.has, c), z3.Not(z3.Select(S.has, c)))) if okcm else False))
            out.append(("sizes_unchanged", z3.ForAll([c], z3.Implies(z3.Select(rcm.has, c), z3.Select(rcm.val, c) == z3.Select(ocm.val, c))) if okcm else False))
            out.append(("table_not_shared", okcm and rcm is not ocm))
            out.append(("direction_kept", dterm(r) == dterm(x)))
            out.append(("hash_memo_reset", r.fields.get("_hashkey", "missing") is None))
            osub, rsub = x.fields.get("_subinfo"), r.fields.get("_subinfo")
            if osub is None:
                out.append(("no_subinfo", rsub is None))
            else:
                ok = isinstance(rsub, SymObj) and rsub is not osub
                out.append(("subinfo_is_a_new_object", ok))
                if ok:
                    oe, re_ = osub.fields["_extents"], rsub.fields.get("_extents")
                    oke = isinstance(re_, SymDict)
                    out.append(("extents_keep_exactly_the_charges_not_dropped", z3.ForAll([c], z3.Select(re_.has, c) == z3.And(z3.Select(oe.has, c), z3.Not(z3.Select(S.has, c)))) if oke else False))
                    out.append(("extents_of_kept_charges_unchanged", z3.ForAll([c], z3.Implies(z3.Select(re_.has, c), z3.Select(re_.val, c) == z3.Select(oe.val, c))) if oke else False))
                    out.append(("extents_not_shared", oke and re_ is not oe))
                    oi, ri = osub.fields["_indices"], rsub.fields.get("_indices")
                    out.append(("constituent_indices_kept", isinstance(ri, tuple) and len(ri) == len(oi) and all(a is b for a, b in zip(oi, ri))))
                    out.append(("subinfo_hash_memo_reset", rsub.fields.get("_hashkey", "missing") is None))
            return out + untouched(snap)

        check_call(it, f"BlockIndex.drop_charges[{sname}]", it.getattr(x, "drop_charges"), [S], post=post)

    return Task(
        f"C05.BlockIndex.drop_charges.{sname}",
        ["C05", "C01", "C14", "C15", "C06"],
        ["abelian_core.BlockIndex.drop_charges", "abelian_core.SubIndexInfo.drop_charges", "abelian_core.BlockIndex.copy_with", "abelian_core.SubIndexInfo.copy_with"],
        body,
        bounded_rank=f"index tree shape '{sname}'",
    )


MORE_SHAPES = {
    "depth4": ((((L, L), L), (L, L)), L),
    "wide4": (L, L, L, L),
    "fused_of_three_fused": ((L, L), (L, L, L), (L,)),
    "depth3_right": (L, (L, ((L, L), L))),
}


def tasks():
    out = []
    shapes = dict(SHAPES, **MORE_SHAPES) if thorough() else SHAPES
    for sname, shape in shapes.items():
        out.append(_conj_task(sname, shape))
    for sname in ("leaf", "fused2", "fused_of_fused_left", "depth3"):
        out.append(_involution_task(sname, SHAPES[sname]))
    for sname in ("leaf", "fused2", "fused_of_fused_right"):
        out.append(_drop_task(sname, SHAPES[sname]))
    return out
