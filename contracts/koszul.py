"""Sidecar contracts for symmetries.calc_phase_permutation (C03, C10).

perm is None ("flip all axes"): the result must be the sign of the full reversal restricted
to the k odd entries, (-1)^(k(k-1)/2).  Proved for every k >= 0 by the period-4 induction
  base  k in {0,1,2,3}:  (k//2)%2 == (k(k-1)/2)%2
  step  (k+4)//2 = k//2 + 2   and   (k+4)(k+3)/2 - k(k-1)/2 = 4k+6 is even
(the induction schema itself is the only meta step).
General branch: memory safety and result in {+1,-1} for every permutation of any length;
its equality with the inversion count among odd entries is a counting argument over
bijections outside SMT reach: bounded (exhaustive n <= 7) in bounded/run_koszul.py.
"""

import z3

from pyvc.builtins_model import LoopSpec, SUM_fn, fold_axioms, zlen
from pyvc.core import SV, SymSet, TBool, TInt
from pyvc.interp import I
from pyvc.task import Task, check_call

from .util import fresh_seq

Q = "symmetries.calc_phase_permutation"
S = SUM_fn()


def _none_branch():
    def body(it):
        par = fresh_seq(it, "parities", TInt)
        j = z3.Int("j!pre")
        it.ctx.assume(z3.ForAll([j], z3.Implies(z3.And(j >= 0, j < par.length), z3.Or(z3.Select(par.arr, j) == 0, z3.Select(par.arr, j) == 1))))
        k = S(par.arr, par.length)  # number of odd entries
        it.ctx.assume(k >= 0)  # fold of non-negative entries (LS_mono)
        fn = it.module_lookup("symmetries", "calc_phase_permutation")

        def post(r):
            return [("reversal_sign_is_minus_one_iff_half_count_odd", I(r) == z3.If((k / 2) % 2 == 1, -1, 1)), ("result_is_sign", z3.Or(I(r) == 1, I(r) == -1))]

        check_call(it, "calc_phase_permutation[perm=None]", fn, [par], post=post)
        check_call(it, "calc_phase_permutation[perm=None,kw]", fn, [par], {"perm": None}, post=post)

    return Task("C03.calc_phase_permutation.reversal", ["C03", "C10"], [Q], body, axioms=fold_axioms, assumes=["LS_mono: a fold of non-negative entries is non-negative"])


def _reversal_lemma():
    def body(it):
        ob = it.ctx.oblige
        for k in range(4):
            ob(f"reversal_lemma.base_k{k}", (k // 2) % 2 == (k * (k - 1) // 2) % 2)
        k = it.ctx.fresh("k", TInt)
        it.ctx.assume(k >= 0)
        ob("reversal_lemma.step_code_side_has_period_4", ((k + 4) / 2) % 2 == (k / 2) % 2)
        ob("reversal_lemma.step_triangular_numbers_differ_by_even", z3.And((k + 4) * (k + 3) - k * (k - 1) == 2 * (4 * k + 6), (4 * k + 6) % 2 == 0))
        ob("reversal_lemma.triangular_number_is_integer", (k * (k - 1)) % 2 == 0)

    return Task("C03.reversal_sign_lemma", ["C03", "C10"], [], body, assumes=["induction schema with step 4 over k (meta step)"])


def _general_safety():
    def body(it):
        par = fresh_seq(it, "parities", TInt)
        perm = fresh_seq(it, "perm", TInt)
        j = z3.Int("j!pre")
        n = zlen(par.length)
        it.ctx.assume(z3.ForAll([j], z3.Implies(z3.And(j >= 0, j < n), z3.Or(z3.Select(par.arr, j) == 0, z3.Select(par.arr, j) == 1))))
        it.ctx.assume(z3.ForAll([j], z3.Implies(z3.And(j >= 0, j < perm.length), z3.And(z3.Select(perm.arr, j) >= -n, z3.Select(perm.arr, j) < n))))  # axes may count from the end

        # memory safety and "the result is a sign" need no fact about the counter: no invariant on incidental
        # temporaries (an earlier `swaps >= 0` turned a comprehension-for-loop refactoring into an `unknown`)
        def inv_outer(it_, env, g):
            return []

        def inv_inner(it_, env, g):
            return []

        it.loop_specs[(Q, 0)] = LoopSpec(carried={"swaps": "int", "moved": ("set", TInt)}, invariant=inv_outer)
        it.loop_specs[(Q, 1)] = LoopSpec(carried={"swaps": "int"}, invariant=inv_inner)
        fn = it.module_lookup("symmetries", "calc_phase_permutation")
        check_call(it, "calc_phase_permutation[perm given]", fn, [par, perm], post=lambda r: [("result_is_sign", z3.Or(I(r) == 1, I(r) == -1))])

    return Task("C03.calc_phase_permutation.general_safety", ["C03"], [Q], body, assumes=["requires: perm entries are valid positions of parities"])


def tasks():
    return [_none_branch(), _reversal_lemma(), _general_safety()]
