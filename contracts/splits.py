"""Sidecar contracts for abelian_core.accum_for_split (C05) and linalg.calc_sub_max_bonds (C13)."""

import z3

from pyvc.builtins_model import SLICE, LoopSpec, SUM_fn, fold_axioms, zlen
from pyvc.core import SV, SymList, SymSeq, TInt, TReal
from pyvc.interp import BuiltinVal, I
from pyvc.task import Task, check_call

from .util import fresh_seq

S = SUM_fn()
SR = SUM_fn(True)


def seq_view(it, v, ety):
    """(length term, select fn) of a python list or symbolic list"""
    if isinstance(v, (list, tuple)):
        n = len(v)
        vals = [it.unwrap(x, ety) for x in v]

        def at(j):
            r = it.default_term(ety)
            for idx in range(n - 1, -1, -1):
                r = z3.If(j == idx, vals[idx], r)
            return r

        return z3.IntVal(n), at
    return zlen(v.length), (lambda j: z3.Select(v.arr, j))


def _accum_task(via_generator):
    Q = "abelian_core.accum_for_split"

    def body(it):
        sizes = fresh_seq(it, "sizes", TInt)
        n = zlen(sizes.length)

        def P(j):
            return S(sizes.arr, j)

        def inv(it_, env, g):
            k = g["k"]
            nx, xat = seq_view(it_, env.vars["x"], TInt)
            ns, sat = seq_view(it_, env.vars["s"], SLICE)
            j = z3.Int("j!inv")
            return [
                ("len_x", nx == k + 1),
                ("len_s", ns == k),
                ("x_are_prefix_sums", z3.ForAll([j], z3.Implies(z3.And(j >= 0, j <= k), xat(j) == P(j)))),
                ("s_are_consecutive_slices", z3.ForAll([j], z3.Implies(z3.And(j >= 0, j < k), sat(j) == SLICE.make(P(j), P(j + 1))))),
            ]

        it.loop_specs[(Q, 0)] = LoopSpec(carried={"x": ("list", TInt), "s": ("list", SLICE)}, invariant=inv)
        fn = it.module_lookup("abelian_core", "accum_for_split")

        def post(r):
            if not isinstance(r, (SymList, SymSeq)):
                if isinstance(r, list) and len(r) == 0:
                    return [("empty_input_gives_empty", n == 0)]
                return [("returns_list", False)]
            j = z3.Int("j!post")
            return [
                ("one_slice_per_size", zlen(r.length) == n),
                ("slice_j_is_prefix_sum_interval", z3.ForAll([j], z3.Implies(z3.And(j >= 0, j < n), z3.Select(r.arr, j) == SLICE.make(P(j), P(j + 1))))),
                # consequence spelled out: slices tile [0, sum) in order without gap or overlap
                ("first_slice_starts_at_zero", z3.Implies(n > 0, SLICE.get(z3.Select(r.arr, 0), "lo") == 0)),
                ("consecutive", z3.ForAll([j], z3.Implies(z3.And(j >= 0, j + 1 < n), SLICE.get(z3.Select(r.arr, j), "hi") == SLICE.get(z3.Select(r.arr, j + 1), "lo")))),
                ("extent_is_size", z3.ForAll([j], z3.Implies(z3.And(j >= 0, j < n), SLICE.get(z3.Select(r.arr, j), "hi") - SLICE.get(z3.Select(r.arr, j), "lo") == z3.Select(sizes.arr, j)))),
                ("last_slice_ends_at_total", z3.Implies(n > 0, SLICE.get(z3.Select(r.arr, n - 1), "hi") == P(n))),
            ]

        arg = sizes
        if via_generator:
            arg = SymSeq(sizes.length, sizes.arr, TInt, "gen")
        check_call(it, "accum_for_split", fn, [arg], post=post)

    return Task("C05.accum_for_split" + (".generator_arg" if via_generator else ""), ["C05"], [Q], body, axioms=fold_axioms, assumes=["prefix sums are the ghost fold SUM(sizes, j) (definition: SUM(a,0)=0, SUM(a,k+1)=SUM(a,k)+a[k])"])


# ----------------------------------------------------------------------------


def _argsort_summary(it, a, k):
    """contract of linalg.argsort(seq) = sorted(range(len(seq)), key=seq.__getitem__):
    a permutation of range(len(seq))  (A-builtins: `sorted` returns a permutation of its input;
    ordering by key is not needed by the caller's contract)"""
    seq = a[0]
    n = zlen(seq.length)
    p = z3.Const(it.ctx.fresh_name("argsort"), z3.ArraySort(z3.IntSort(), z3.IntSort()))
    j, j2 = z3.Ints("j!as j2!as")
    it.ctx.assume(z3.ForAll([j], z3.Implies(z3.And(j >= 0, j < n), z3.And(z3.Select(p, j) >= 0, z3.Select(p, j) < n))))
    it.ctx.assume(z3.ForAll([j, j2], z3.Implies(z3.And(j >= 0, j < j2, j2 < n), z3.Select(p, j) != z3.Select(p, j2))))
    return SymList(seq.length, p, TInt)


def _submax_task():
    Q = "linalg.calc_sub_max_bonds"

    def body(it):
        ctx = it.ctx
        sizes = fresh_seq(it, "sizes", TInt)
        n = zlen(sizes.length)
        j = z3.Int("j!pre")
        ctx.assume(n >= 1)
        ctx.assume(z3.ForAll([j], z3.Implies(z3.And(j >= 0, j < n), z3.Select(sizes.arr, j) >= 1)))
        mb = ctx.fresh("max_bond", TInt)
        total = S(sizes.arr, n)
        # lemma (monotone fold): all entries >= 1  =>  SUM >= n
        ctx.assume(total >= n)
        it.summaries["linalg.argsort"] = _argsort_summary
        state = {}

        def inv(it_, env, g):
            k = g["k"]
            b = env.vars["sub_max_bonds"]
            seq = g["seq"]  # the slice argsort(...)[:rem]
            jj, t = z3.Ints("j!inv t!inv")
            extra = []
            if "b0" not in state:
                state["b0"] = b.arr
                state["n0"] = zlen(b.length)
                b0 = b.arr
                fr = z3.ToReal(mb) / z3.ToReal(total)
                hyp = z3.ForAll([jj], z3.Implies(z3.And(jj >= 0, jj < n), z3.Select(b0, jj) == z3.ToInt(fr * z3.ToReal(z3.Select(sizes.arr, jj)))))
                extra = [("b0_is_floor_of_proportional_share", hyp)]
                # LS_scale + LS_floor: sum of floors of frac*sz_j lies in (frac*total - n, frac*total]
                it_.ctx.assume(z3.Implies(hyp, z3.And(z3.ToReal(S(b0, n)) <= fr * z3.ToReal(total), z3.ToReal(S(b0, n)) > fr * z3.ToReal(total) - z3.ToReal(n))))
            b0 = state["b0"]
            hit = z3.Exists([t], z3.And(t >= 0, t < k, z3.Select(seq.arr, t) == jj))
            return extra + [
                ("length_fixed", zlen(b.length) == n),
                ("entries_incremented_once_if_selected", z3.ForAll([jj], z3.Implies(z3.And(jj >= 0, jj < n), z3.Select(b.arr, jj) == z3.Select(b0, jj) + z3.If(hit, 1, 0)))),
                ("sum_grows_by_one_per_step", S(b.arr, n) == S(b0, n) + k),
            ]

        def lemmas(it_, env, gpre):
            # LS_store: SUM(Store(a,i,v), n) == SUM(a,n) - a[i] + v   for 0 <= i < n
            n_pre, a_pre = gpre["state"]["sub_max_bonds"]
            b = env.vars["sub_max_bonds"]
            i = I(env.vars["i"])
            return [z3.Implies(z3.And(i >= 0, i < n, b.arr == z3.Store(a_pre, i, z3.Select(b.arr, i))), S(b.arr, n) == S(a_pre, n) - z3.Select(a_pre, i) + z3.Select(b.arr, i))]

        it.loop_specs[(Q, 0)] = LoopSpec(carried={"sub_max_bonds": "inplace"}, invariant=inv, step_lemmas=lemmas)
        fn = it.module_lookup("linalg", "calc_sub_max_bonds")

        # lemmas on the real-valued fold for the proportional split (A-float: floats as reals)
        frac = z3.ToReal(mb) / z3.ToReal(total)

        def post(r):
            keep_all = z3.Or(mb < 0, mb >= total)
            if r is sizes:
                return [("returns_sizes_only_when_no_limit_applies", keep_all)]
            if not isinstance(r, SymSeq):
                return [("returns_tuple", False)]
            jj = z3.Int("j!post")
            return [
                ("limit_applies", z3.Not(keep_all)),
                ("same_length", zlen(r.length) == n),
                ("each_within_sector_size", z3.ForAll([jj], z3.Implies(z3.And(jj >= 0, jj < n), z3.And(z3.Select(r.arr, jj) >= 0, z3.Select(r.arr, jj) <= z3.Select(sizes.arr, jj))))),
                ("sum_is_bond_limit", S(r.arr, n) == mb),
            ]

        # fold lemmas for b0 = [int(frac*sz)]: stated for the concrete comprehension term the executor builds
        def comp_lemma(it_, e, env, kind, it0):
            return None

        res, exc = check_call(it, "calc_sub_max_bonds", fn, [sizes, SV(mb, TInt)], post=post)

    return Task(
        "C13.calc_sub_max_bonds",
        ["C13"],
        [Q, "linalg.argsort"],
        body,
        axioms=fold_axioms,
        assumes=["A-float: max_bond / sum(sizes) and frac * sz are real arithmetic; int() truncates", "fold lemmas LS_store, LS_mono, LS_scale (Lean: contracts/lean/Fold.lean)"],
        timeout_ms=60000,
    )


def tasks():
    return [_accum_task(False), _accum_task(True), _submax_task()]
