"""Sidecar contract for AbelianArray.fill_missing_blocks (C20, C01, C16; rank 2, any number of blocks).

gen_valid_sectors is used through its contract (contracts/sectors.py: exactly the sectors of available charges
whose signed sum is the total charge, each once).  After the call
  * the stored sectors are the old ones plus every valid sector,
  * every old block is the same object as before,
  * every new block is `zeros(shape, like=<a stored block>)` -- it takes element type and device from the data it
    joins (C20) -- with the shape the index tables assign to the sector's charges (C01),
  * nothing else of the array changes (in place by design).
"""

import z3

from pyvc.builtins_model import LoopSpec
from pyvc.core import SV, KeyIter, TInt, Unsupported
from pyvc.interp import BuiltinVal
from pyvc.task import Task, check_call

from .linalg_bonds import BLK, install, k0, k1, mk_matrix
from .util import TUP2

Q = "abelian_core.AbelianArray.fill_missing_blocks"
ZEROS = z3.Function("zeros_like_example", z3.IntSort(), z3.IntSort(), BLK.sort(), BLK.sort())


def _task():
    def body(it):
        install(it)
        ctx = it.ctx
        x, bl, i0, i1, ch = mk_matrix(it, "U1", "x")
        B0 = (bl.has, bl.val)
        cm0, cm1 = i0.fields["_chargemap"], i1.fields["_chargemap"]
        d0, d1 = i0.fields["_dual"].t, i1.fields["_dual"].t
        s = z3.Const("s!fm", TUP2.sort())
        sg = lambda d, v: z3.If(d, -v, v)  # noqa: E731
        valid = z3.Lambda([s], z3.And(z3.Select(cm0.has, k0(s)), z3.Select(cm1.has, k1(s)), sg(d0, k0(s)) + sg(d1, k1(s)) == ch))
        ex = ctx.fresh("example_block", BLK)
        # contract of get_any_array: some stored block (the arrays of interest are non-empty)
        w = z3.Const("w!fm", TUP2.sort())
        ctx.assume(z3.Exists([w], z3.And(z3.Select(bl.has, w), z3.Select(bl.val, w) == ex)))
        x.fields["get_any_array"] = BuiltinVal("x.get_any_array", lambda it_, a, k: SV(ex, BLK))
        x.fields["gen_valid_sectors"] = BuiltinVal("x.gen_valid_sectors", lambda it_, a, k: KeyIter(valid, TUP2, None, None, "keys"))
        made = []

        def ar_do(it_, a, k):
            if a[0] != "zeros":
                raise Unsupported(f"ar.do({a[0]!r})")
            shape, like = a[1], k.get("like")
            ok = isinstance(shape, tuple) and len(shape) == 2 and isinstance(like, SV) and like.ty == BLK and set(k) == {"like"}
            made.append(ok)
            if not ok:
                ctx.oblige("fill_missing_blocks.zeros_take_shape_pair_and_type_and_device_from_a_stored_block", False)
                return SV(ctx.fresh("some_other_zeros", BLK), BLK)
            t = [z.t if isinstance(z, SV) else z3.IntVal(z) for z in shape]
            return SV(ZEROS(t[0], t[1], like.t), BLK)

        it.externals["ar.do"] = ar_do

        def inv(it_, env, g):
            vis = g["vis"]
            u = z3.Const("u!fm", TUP2.sort())
            return [
                ("stored_sectors_are_old_plus_visited", z3.ForAll([u], z3.Select(bl.has, u) == z3.Or(z3.Select(B0[0], u), z3.Select(vis, u)))),
                ("old_blocks_untouched", z3.ForAll([u], z3.Implies(z3.Select(B0[0], u), z3.Select(bl.val, u) == z3.Select(B0[1], u)))),
                ("new_blocks_are_zeros_like_the_data_with_the_table_shape", z3.ForAll([u], z3.Implies(z3.And(z3.Select(vis, u), z3.Not(z3.Select(B0[0], u))), z3.Select(bl.val, u) == ZEROS(z3.Select(cm0.val, k0(u)), z3.Select(cm1.val, k1(u)), ex)))),
            ]

        it.loop_specs[(Q, 0)] = LoopSpec(carried={}, cells=[lambda env: bl], invariant=inv, target="sector")
        m, _ = x.cls.lookup("fill_missing_blocks")

        def post(r):
            u = z3.Const("u!post", TUP2.sort())
            return [
                ("stored_sectors_are_the_old_ones_plus_every_valid_sector", z3.ForAll([u], z3.Select(bl.has, u) == z3.Or(z3.Select(B0[0], u), z3.Select(valid, u)))),
                ("old_blocks_are_the_same_objects", z3.ForAll([u], z3.Implies(z3.Select(B0[0], u), z3.Select(bl.val, u) == z3.Select(B0[1], u)))),
                ("new_blocks_are_zeros_with_type_and_device_of_the_data_and_the_shape_of_the_tables", z3.ForAll([u], z3.Implies(z3.And(z3.Select(valid, u), z3.Not(z3.Select(B0[0], u))), z3.Select(bl.val, u) == ZEROS(z3.Select(cm0.val, k0(u)), z3.Select(cm1.val, k1(u)), ex)))),
                ("block_dict_object_indices_and_charge_kept", x.fields["_blocks"] is bl and x.fields["_indices"] == (i0, i1) and z3.eq(x.fields["_charge"].t, ch)),
            ]

        check_call(it, "fill_missing_blocks", m, [x], post=post)

    return Task(
        "C20.fill_missing_blocks",
        ["C20", "C01", "C16"],
        [Q, "abelian_core.AbelianArray.get_block_shape", "abelian_core.BlockIndex.size_of"],
        body,
        bounded_rank="rank 2; blocks, charges, sizes unbounded",
        assumes=["callee contract gen_valid_sectors (contracts/sectors.py)", "get_any_array returns a stored block (non-empty array)", "A-numpy: autoray zeros(shape, like=b) has the element type and device of b"],
    )


def tasks():
    return [_task()]
