"""Sidecar contracts for the drivers AbelianArray.reshape and AbelianArray.unfuse_all (C07, C05, C14).

reshape(newshape): the plan comes from calc_reshape_args (contracts/reshape.py) called with the CURRENT shape, the
requested shape with a -1 entry resolved against the total size (autoray's find_full_reshape), and -- per axis --
None or the total sizes of the constituents of a fused index; the plan is executed as: every unfuse in the order
given, every fuse grouping (groups unpacked) in order, every expand_dims in order, all IN PLACE on the working array,
which is the receiver itself only if `inplace` (C14).  Nothing else touches the array.

unfuse_all(): exactly the axes that carry sub-index information are unfused, each once, from the LAST to the first
(so the remaining axis numbers stay valid), in place on a copy unless `inplace`.
"""

import itertools

from pyvc.core import SymObj
from pyvc.interp import BuiltinVal
from pyvc.task import Task

AA = "abelian_core.AbelianArray"


class Rec:
    def __init__(self, it, name, indices, log, world):
        self.name, self.log, self.world, self.it = name, log, world, it
        self.obj = SymObj(it.get_class("abelian_core", "AbelianArray"), tag=name)
        world[id(self.obj)] = self
        self.set_indices(indices)
        f = self.obj.fields
        f["copy"] = BuiltinVal(name + ".copy", self._copy)
        for m in ("unfuse", "fuse", "expand_dims"):
            f[m] = BuiltinVal(f"{name}.{m}", self._mk(m))

    def set_indices(self, indices):
        self.indices = tuple(indices)
        f = self.obj.fields
        f["indices"] = self.indices
        f["ndim"] = len(self.indices)
        f["shape"] = SymObj(None, tag=f"shape_of_{self.name}_with_{len(self.indices)}_axes")
        f["size"] = SymObj(None, tag=f"size_of_{self.name}")

    def _copy(self, it_, a, k):
        c = Rec(self.it, self.name + "'", self.indices, self.log, self.world)
        self.log.append((self.name, "copy", (), {}))
        # same indices: same shape and size
        c.obj.fields["shape"], c.obj.fields["size"] = self.obj.fields["shape"], self.obj.fields["size"]
        return c.obj

    def _mk(self, m):
        def f(it_, a, k):
            self.log.append((self.name, m, tuple(a), dict(k)))
            if m == "unfuse" and isinstance(a[0], int):
                ax = a[0]
                sub = self.indices[ax].fields["subinfo"]
                if sub is not None:
                    self.set_indices(self.indices[:ax] + tuple(sub.fields["indices"]) + self.indices[ax + 1 :])
            return self.obj

        return f


def mk_ix(name, subsizes=None, nested=False):
    ix = SymObj(None, tag=name)
    ix.fields["size_total"] = SymObj(None, tag=name + "_size")
    if subsizes is None:
        ix.fields["subinfo"] = None
    else:
        subs = tuple(mk_ix(f"{name}_sub{i}", 2 if nested and i == 0 else None) for i in range(subsizes))
        ix.fields["subinfo"] = SymObj(None, {"indices": subs}, tag=name + "_subinfo")
    return ix


def _reshape_task(inplace):
    def body(it):
        ctx = it.ctx
        ob = ctx.oblige
        plans = [
            ((), (), ()),
            ((2, 0), (), ()),
            ((), (((0, 1), (2, 3)),), ()),
            ((1,), (((0, 1),), ((1, 2), (3,))), (0, 3)),
            ((), (), (1,)),
        ]
        plan = plans[ctx.decide(len(plans), None, "plan")]
        log, world = [], {}
        idx = [mk_ix("i0", 2), mk_ix("i1"), mk_ix("i2", 3), mk_ix("i3")]
        x = Rec(it, "x", idx, log, world)
        shape0, size0 = x.obj.fields["shape"], x.obj.fields["size"]
        want_sub = tuple(None if ix.fields["subinfo"] is None else tuple(s.fields["size_total"] for s in ix.fields["subinfo"].fields["indices"]) for ix in idx)
        full = SymObj(None, tag="full_newshape")
        ffr, cra = [], []
        it.externals["autoray.lazy.core.find_full_reshape"] = lambda it_, a, k: (ffr.append((tuple(a), dict(k))) or full)
        it.summaries["abelian_core.calc_reshape_args"] = lambda it_, a, k: (cra.append((tuple(a), dict(k), len(log))) or plan)
        req = (SymObj(None, tag="n0"), -1, SymObj(None, tag="n2"))
        m, _ = x.obj.cls.lookup("reshape")
        r = it.call(m, [x.obj, req], {"inplace": inplace})
        tag = f"reshape[plan={plans.index(plan)},inplace={inplace}]"
        w = world.get(id(r))
        ob(tag + ".returns_the_working_array", w is not None)
        if w is None:
            return
        if inplace:
            ob(tag + ".in_place_returns_the_receiver", w is x)
        else:
            ob(tag + ".out_of_place_works_on_a_copy_operand_untouched", w is not x and w.name == "x'" and all(e[1] == "copy" for e in log if e[0] == "x"))
        ob(tag + ".requested_shape_completed_against_the_total_size", len(ffr) == 1 and len(ffr[0][0]) == 2 and ffr[0][0][0] == req and ffr[0][0][1] is size0)
        ok = len(cra) == 1 and len(cra[0][0]) == 3
        ob(tag + ".plan_computed_once", ok)
        if ok:
            a = cra[0][0]
            ob(tag + ".plan_from_current_shape_completed_request_and_constituent_sizes", a[0] is shape0 and a[1] is full and a[2] == want_sub)
            ob(tag + ".plan_computed_before_anything_is_moved", all(e[1] == "copy" for e in log[: cra[0][2]]))
        ops = [e for e in log if e[1] != "copy"]
        axs_unfuse, groupings, axs_expand = plan
        want = [("unfuse", (ax,)) for ax in axs_unfuse] + [("fuse", tuple(g)) for g in groupings] + [("expand_dims", (ax,)) for ax in axs_expand]
        ob(tag + ".plan_executed_exactly_unfuse_then_fuse_then_expand_in_order", [(e[1], e[2]) for e in ops] == want)
        ob(tag + ".every_step_in_place_on_the_working_array", all(e[0] == w.name and e[3].get("inplace") is True for e in ops))

    return Task(
        f"C07.reshape.driver.inplace_{inplace}",
        ["C07", "C14", "C01"],
        [AA + ".reshape"],
        body,
        assumes=["callee contracts: calc_reshape_args (contracts/reshape.py), fuse (fuse_entry.py), expand_dims (dims.py); unfuse: bounded tier; autoray.lazy.core.find_full_reshape (resolves a -1 entry) is a dependency, assumed"],
    )


def _unfuse_all_task(inplace):
    def body(it):
        ctx = it.ctx
        ob = ctx.oblige
        nd = 1 + ctx.decide(4, None, "ndim")
        bits = ctx.decide(2**nd, None, "fused_axes")
        fused = [bool(bits >> i & 1) for i in range(nd)]
        log, world = [], {}
        idx = [mk_ix(f"i{j}", 2 + j % 2, nested=(j == 1)) if fused[j] else mk_ix(f"i{j}") for j in range(nd)]
        x = Rec(it, "x", idx, log, world)
        m, _ = x.obj.cls.lookup("unfuse_all")
        r = it.call(m, [x.obj], {"inplace": inplace})
        tag = f"unfuse_all[ndim={nd},fused={''.join('f' if f else '.' for f in fused)},inplace={inplace}]"
        w = world.get(id(r))
        ob(tag + ".returns_the_working_array", w is not None)
        if w is None:
            return
        if inplace:
            ob(tag + ".in_place_returns_the_receiver", w is x)
        else:
            ob(tag + ".out_of_place_works_on_a_copy_operand_untouched", w is not x and w.name == "x'" and all(e[1] == "copy" for e in log if e[0] == "x"))
        ops = [e for e in log if e[1] != "copy"]
        want = [(ax,) for ax in reversed(range(nd)) if fused[ax]]
        ob(tag + ".exactly_the_fused_axes_unfused_once_each_from_last_to_first", [e[2] for e in ops] == want and all(e[1] == "unfuse" for e in ops))
        ob(tag + ".every_step_in_place_on_the_working_array", all(e[0] == w.name and e[3].get("inplace") is True for e in ops))

    return Task(f"C05.unfuse_all.driver.inplace_{inplace}", ["C05", "C07", "C14"], [AA + ".unfuse_all"], body, assumes=["callee: AbelianArray.unfuse (bounded tier C05)"], bounded_rank="rank 1-4, every set of fused axes (one carrying a nested fused constituent)")


def tasks():
    return [_reshape_task(False), _reshape_task(True), _unfuse_all_task(False), _unfuse_all_task(True)]
