"""Sidecar contract for abelian_core.drop_misaligned_sectors (C06, C02, C01, C14) -- the sector
alignment performed before fusing.  Operands are matrices (sectors are pairs of integer
charges, any number of stored blocks, arbitrary index tables), contracted over
a's axis 1 and b's axis 0:

  keys(a') = {s in keys(a) : exists t in keys(b) with s[1] == t[0]}   (blocks are the same objects)
  keys(b') symmetric
  every index table of a' / b' keeps exactly the charges still used by a kept sector, if any
  charge became unused -- otherwise the very same index object is kept;
  out of place: operands untouched, results are new arrays;  in place: the operands are modified
  to the same result.
Rank and the choice of the contracted axis are fixed (rank-bounded instance); the number of blocks
and all charges / sizes are symbolic.
"""

import z3

from pyvc.builtins_model import LoopSpec
from pyvc.core import SV, SymDict, SymObj, SymSet, TInt
from pyvc.task import Task, check_call

from .linalg_bonds import BLK, install, k0, k1, mk_matrix, mkkey
from .util import TUP2

Q = "abelian_core.drop_misaligned_sectors"


def _task(inplace):
    def body(it):
        install(it)
        ctx = it.ctx
        a, abl, a0, a1, ca = mk_matrix(it, "U1", "a")
        b, bbl, b0, b1, cb = mk_matrix(it, "U1", "b")
        A0, B0 = (abl.has, abl.val), (bbl.has, bbl.val)
        cms = {"a0": a0, "a1": a1, "b0": b0, "b1": b1}
        CM0 = {k: (ix.fields["_chargemap"].has, ix.fields["_chargemap"].val) for k, ix in cms.items()}
        s, t, c = z3.Const("s!al", TUP2.sort()), z3.Const("t!al", TUP2.sort()), z3.Int("c!al")

        def kept_a(sec):
            return z3.And(z3.Select(A0[0], sec), z3.Exists([t], z3.And(z3.Select(B0[0], t), k0(t) == k1(sec))))

        def kept_b(sec):
            return z3.And(z3.Select(B0[0], sec), z3.Exists([t], z3.And(z3.Select(A0[0], t), k1(t) == k0(sec))))

        def mk_inv(which):
            X0 = A0 if which == "a" else B0
            kept = kept_a if which == "a" else kept_b
            cm_keys = ("a0", "a1") if which == "a" else ("b0", "b1")

            def inv(it_, env, g):
                vis = g["vis"]
                nb = env.vars["new_blocks_" + which]
                cd = env.vars["charges_drop"]
                if isinstance(nb, dict):
                    assert not nb
                    nh, nv = (lambda q: z3.BoolVal(False)), (lambda q: z3.Const("dflt_mblk", BLK.sort()))
                else:
                    nh, nv = (lambda q: z3.Select(nb.has, q)), (lambda q: z3.Select(nb.val, q))
                u = z3.Const("u!inv", TUP2.sort())
                out = [
                    ("kept_blocks_are_visited_aligned_sectors", z3.ForAll([u], nh(u) == z3.And(z3.Select(vis, u), kept(u)))),
                    ("kept_blocks_are_the_same_objects", z3.ForAll([u], z3.Implies(nh(u), nv(u) == z3.Select(X0[1], u)))),
                ]
                for ax, key in enumerate(cm_keys):
                    comp = k0 if ax == 0 else k1
                    used = z3.Exists([u], z3.And(z3.Select(vis, u), kept(u), comp(u) == c))
                    out.append((f"axis{ax}_droppable_charges_are_those_not_used_so_far", z3.ForAll([c], z3.Select(cd[ax].has, c) == z3.And(z3.Select(CM0[key][0], c), z3.Not(used)))))
                return out

            return inv

        it.loop_specs[(Q, 0)] = LoopSpec(carried={"new_blocks_a": ("dict", TUP2, BLK)}, cells=[lambda env: env.vars["charges_drop"][0], lambda env: env.vars["charges_drop"][1]], invariant=mk_inv("a"))
        it.loop_specs[(Q, 2)] = LoopSpec(carried={"new_blocks_b": ("dict", TUP2, BLK)}, cells=[lambda env: env.vars["charges_drop"][0], lambda env: env.vars["charges_drop"][1]], invariant=mk_inv("b"))
        fn = it.module_lookup("abelian_core", "drop_misaligned_sectors")

        def check_operand(res, orig, X0, kept, keys, nm):
            out = []
            rb = res.fields["_blocks"]
            u = z3.Const("u!post", TUP2.sort())
            out.append((f"{nm}_keeps_exactly_the_aligned_sectors", z3.ForAll([u], z3.Select(rb.has, u) == kept(u))))
            out.append((f"{nm}_blocks_are_the_same_objects", z3.ForAll([u], z3.Implies(kept(u), z3.Select(rb.val, u) == z3.Select(X0[1], u)))))
            inds = res.fields["_indices"]
            ok = isinstance(inds, tuple) and len(inds) == 2
            out.append((f"{nm}_rank_kept", ok))
            if not ok:
                return out
            for ax, key in enumerate(keys):
                comp = k0 if ax == 0 else k1
                cm = inds[ax].fields["_chargemap"]
                used = z3.Exists([u], z3.And(kept(u), comp(u) == c))
                some_unused = z3.Exists([c], z3.And(z3.Select(CM0[key][0], c), z3.Not(used)))
                if inds[ax] is cms[key]:
                    out.append((f"{nm}_axis{ax}_same_index_object_only_if_every_charge_is_used", z3.Not(some_unused)))
                else:
                    out.append((f"{nm}_axis{ax}_new_index_only_if_some_charge_unused", some_unused))
                    out.append((f"{nm}_axis{ax}_table_keeps_exactly_used_charges", z3.ForAll([c], z3.Select(cm.has, c) == z3.And(z3.Select(CM0[key][0], c), used))))
                    out.append((f"{nm}_axis{ax}_sizes_unchanged", z3.ForAll([c], z3.Implies(z3.Select(cm.has, c), z3.Select(cm.val, c) == z3.Select(CM0[key][1], c)))))
                    d_new, d_old = inds[ax].fields["_dual"], cms[key].fields["_dual"]
                    out.append((f"{nm}_axis{ax}_direction_unchanged", d_new.t == d_old.t if isinstance(d_new, SV) else d_new is d_old))
            out.append((f"{nm}_charge_kept", res.fields["_charge"] is orig.fields["_charge"] or res.fields["_charge"].t == orig.fields["_charge"].t))
            return out

        def post(r):
            if not (isinstance(r, tuple) and len(r) == 2 and all(isinstance(x, SymObj) for x in r)):
                return [("returns_pair_of_arrays", False)]
            ra, rbb = r
            out = []
            if inplace:
                out += [("inplace_returns_the_operands", ra is a and rbb is b)]
            else:
                out += [
                    ("results_are_new_arrays", ra is not a and rbb is not b and ra is not rbb),
                    ("operand_a_blocks_untouched", z3.And(abl.has == A0[0], abl.val == A0[1]) if a.fields["_blocks"] is abl else False),
                    ("operand_b_blocks_untouched", z3.And(bbl.has == B0[0], bbl.val == B0[1]) if b.fields["_blocks"] is bbl else False),
                    ("operand_indices_untouched", a.fields["_indices"] == (a0, a1) and b.fields["_indices"] == (b0, b1)),
                    ("result_block_dicts_not_shared", ra.fields["_blocks"] is not abl and rbb.fields["_blocks"] is not bbl),
                ]
                for key, ix in cms.items():
                    cm = ix.fields["_chargemap"]
                    out.append((f"operand_table_{key}_untouched", z3.And(cm.has == CM0[key][0], cm.val == CM0[key][1])))
            out += check_operand(ra, a, A0, kept_a, ("a0", "a1"), "a")
            out += check_operand(rbb, b, B0, kept_b, ("b0", "b1"), "b")
            return out

        check_call(it, f"drop_misaligned_sectors[inplace={inplace}]", fn, [a, b, (1,), (0,)], {"inplace": inplace}, post=post)

    return Task(
        f"C06.drop_misaligned_sectors.inplace_{inplace}",
        ["C06", "C02"],
        [Q, "abelian_core.BlockIndex.drop_charges", "abelian_core.BlockIndex.copy_with", "abelian_core.AbelianArray.copy_with", "abelian_core.AbelianArray.modify"],
        body,
        assumes=["rank-2 operands contracted over (axis 1, axis 0); dict / set comprehension semantics (A-builtins); BlockIndex tables are sorted copies (order abstracted)"],
        bounded_rank="operands of rank 2, one contracted pair; blocks, charges, sizes unbounded",
        timeout_ms=40000,
    )


def _align_axes_task():
    """AbelianArray.align_axes(other, axes) hands the two operands and the two axis tuples to
    drop_misaligned_sectors; an axis may be passed on as given or normalised, but then modulo the rank of ITS
    operand (negative axes count from the end of the operand they belong to)."""
    from pyvc.core import SymSeq

    def body(it):
        ctx = it.ctx
        cls = it.get_class("abelian_core", "AbelianArray")
        for na, nb, axes in ((2, 3, ((1,), (-3,))), (3, 4, ((1, 2), (-4, -3))), (4, 2, ((-1, 0), (0, -1))), (3, 3, ((0, -1), (2, -2))), (2, 4, ((), ()))):
            a, b = SymObj(cls, tag="a"), SymObj(cls, tag="b")
            a.fields["_indices"] = tuple(SV(ctx.fresh(f"a_ix{i}", TInt), TInt) for i in range(na))
            b.fields["_indices"] = tuple(SV(ctx.fresh(f"b_ix{i}", TInt), TInt) for i in range(nb))
            log = []
            res = (SymObj(cls, tag="ra"), SymObj(cls, tag="rb"))

            def dms(it_, args, kw, log=log, res=res):
                log.append((args, kw))
                return res

            it.summaries["abelian_core.drop_misaligned_sectors"] = dms
            m, _ = cls.lookup("align_axes")

            def post(r, a=a, b=b, na=na, nb=nb, axes=axes, log=log, res=res):
                out = [("aligned_once", len(log) == 1)]
                if len(log) != 1:
                    return out
                args, kw = log[0]
                full = dict(zip(("a", "b", "axes_a", "axes_b", "inplace"), args))
                full.update(kw)
                conc = lambda v: tuple(v) if isinstance(v, (tuple, list)) and all(isinstance(z, int) for z in v) else None  # noqa: E731
                ga, gb = conc(full.get("axes_a")), conc(full.get("axes_b"))
                out += [
                    ("operands_passed_in_order", full.get("a") is a and full.get("b") is b),
                    ("axes_of_the_first_operand_as_given_or_normalised_by_its_own_rank", ga is not None and len(ga) == len(axes[0]) and all(g == x or g == x % na for g, x in zip(ga, axes[0]))),
                    ("axes_of_the_second_operand_as_given_or_normalised_by_its_own_rank", gb is not None and len(gb) == len(axes[1]) and all(g == x or g == x % nb for g, x in zip(gb, axes[1]))),
                    ("out_of_place", not full.get("inplace", False)),
                    ("returns_the_aligned_pair", r is res),
                ]
                return out

            check_call(it, f"align_axes[ranks={na},{nb},axes={axes}]".replace(" ", ""), m, [a, b, axes], post=post)

    return Task("C06.align_axes.entry", ["C06", "C02", "C01"], ["abelian_core.AbelianArray.align_axes"], body, assumes=["contract of drop_misaligned_sectors (this module, rank 2; bounded tier above)"])


def tasks():
    return [_task(False), _task(True), _align_axes_task()]


# ---------------------------------------------------------------------------------------------------------------
# higher rank: several contracted pairs (the sub-sector is a tuple of charges), free axes on either side


def _mk_nd(it, name, nd):
    from .dims import BLK as NBLK
    from .dims import KT
    from .linalg_bonds import mk_index

    cls = it.get_class("abelian_core", "AbelianArray")
    x = SymObj(cls, tag=name)
    K = KT(nd)
    bl = SymDict(z3.Const(name + "_has", z3.ArraySort(K.sort(), z3.BoolSort())), z3.Const(name + "_val", z3.ArraySort(K.sort(), NBLK.sort())), K, NBLK, name + "_blocks")
    idx = tuple(mk_index(it, f"{name}_i{i}") for i in range(nd))
    from .util import sym_obj

    x.fields.update({"_blocks": bl, "_indices": idx, "_symmetry": sym_obj(it, "U1"), "_charge": SV(it.ctx.fresh(name + "_charge", TInt), TInt)})
    s = z3.Const("s!valid" + name, K.sort())
    it.ctx.assume(z3.ForAll([s], z3.Implies(z3.Select(bl.has, s), z3.And(*[z3.Select(idx[i].fields["_chargemap"].has, K.get(s, f"f{i}")) for i in range(nd)]))))
    return x, bl, idx, K


def _task_nd(na, nb, axes_a, axes_b, inplace):
    from .dims import BLK as NBLK
    from .dims import KT

    def body(it):
        install(it)
        a, abl, aidx, KA = _mk_nd(it, "a", na)
        b, bbl, bidx, KB = _mk_nd(it, "b", nb)
        A0, B0 = (abl.has, abl.val), (bbl.has, bbl.val)
        CMA = [(ix.fields["_chargemap"].has, ix.fields["_chargemap"].val) for ix in aidx]
        CMB = [(ix.fields["_chargemap"].has, ix.fields["_chargemap"].val) for ix in bidx]
        c = z3.Int("c!al")

        def sub_a(s):
            return [KA.get(s, f"f{ax}") for ax in axes_a]

        def sub_b(s):
            return [KB.get(s, f"f{ax}") for ax in axes_b]

        ta, tb = z3.Const("t!ala", KA.sort()), z3.Const("t!alb", KB.sort())

        def kept_a(sec):
            return z3.And(z3.Select(A0[0], sec), z3.Exists([tb], z3.And(z3.Select(B0[0], tb), *[p == q for p, q in zip(sub_a(sec), sub_b(tb))])))

        def kept_b(sec):
            return z3.And(z3.Select(B0[0], sec), z3.Exists([ta], z3.And(z3.Select(A0[0], ta), *[p == q for p, q in zip(sub_a(ta), sub_b(sec))])))

        def mk_inv(which):
            X0, K, kept, CM, nd = (A0, KA, kept_a, CMA, na) if which == "a" else (B0, KB, kept_b, CMB, nb)

            def inv(it_, env, g):
                vis = g["vis"]
                nbk = env.vars["new_blocks_" + which]
                cd = env.vars["charges_drop"]
                if isinstance(nbk, dict):
                    assert not nbk
                    nh, nv = (lambda q: z3.BoolVal(False)), (lambda q: z3.Const("dflt_nblk", NBLK.sort()))
                else:
                    nh, nv = (lambda q: z3.Select(nbk.has, q)), (lambda q: z3.Select(nbk.val, q))
                u = z3.Const("u!inv" + which, K.sort())
                out = [
                    ("kept_blocks_are_visited_aligned_sectors", z3.ForAll([u], nh(u) == z3.And(z3.Select(vis, u), kept(u)))),
                    ("kept_blocks_are_the_same_objects", z3.ForAll([u], z3.Implies(nh(u), nv(u) == z3.Select(X0[1], u)))),
                ]
                for ax in range(nd):
                    used = z3.Exists([u], z3.And(z3.Select(vis, u), kept(u), K.get(u, f"f{ax}") == c))
                    out.append((f"axis{ax}_droppable_charges_are_those_not_used_so_far", z3.ForAll([c], z3.Select(cd[ax].has, c) == z3.And(z3.Select(CM[ax][0], c), z3.Not(used)))))
                return out

            return inv

        it.loop_specs[(Q, 0)] = LoopSpec(carried={"new_blocks_a": ("dict", KA, NBLK)}, cells=[(lambda env, i=i: env.vars["charges_drop"][i]) for i in range(na)], invariant=mk_inv("a"))
        it.loop_specs[(Q, 2)] = LoopSpec(carried={"new_blocks_b": ("dict", KB, NBLK)}, cells=[(lambda env, i=i: env.vars["charges_drop"][i]) for i in range(nb)], invariant=mk_inv("b"))
        fn = it.module_lookup("abelian_core", "drop_misaligned_sectors")

        def check_operand(res, orig, X0, K, kept, CM, idx0, nd, nm):
            out = []
            rb = res.fields["_blocks"]
            u = z3.Const("u!post" + nm, K.sort())
            out.append((f"{nm}_keeps_exactly_the_aligned_sectors", z3.ForAll([u], z3.Select(rb.has, u) == kept(u))))
            out.append((f"{nm}_blocks_are_the_same_objects", z3.ForAll([u], z3.Implies(kept(u), z3.Select(rb.val, u) == z3.Select(X0[1], u)))))
            inds = res.fields["_indices"]
            ok = isinstance(inds, tuple) and len(inds) == nd
            out.append((f"{nm}_rank_kept", ok))
            if not ok:
                return out
            for ax in range(nd):
                cm = inds[ax].fields["_chargemap"]
                used = z3.Exists([u], z3.And(kept(u), K.get(u, f"f{ax}") == c))
                some_unused = z3.Exists([c], z3.And(z3.Select(CM[ax][0], c), z3.Not(used)))
                if inds[ax] is idx0[ax]:
                    out.append((f"{nm}_axis{ax}_same_index_object_only_if_every_charge_is_used", z3.Not(some_unused)))
                else:
                    out.append((f"{nm}_axis{ax}_new_index_only_if_some_charge_unused", some_unused))
                    out.append((f"{nm}_axis{ax}_table_keeps_exactly_used_charges", z3.ForAll([c], z3.Select(cm.has, c) == z3.And(z3.Select(CM[ax][0], c), used))))
                    out.append((f"{nm}_axis{ax}_sizes_unchanged", z3.ForAll([c], z3.Implies(z3.Select(cm.has, c), z3.Select(cm.val, c) == z3.Select(CM[ax][1], c)))))
                    d_new, d_old = inds[ax].fields["_dual"], idx0[ax].fields["_dual"]
                    out.append((f"{nm}_axis{ax}_direction_unchanged", d_new.t == d_old.t if isinstance(d_new, SV) else d_new is d_old))
            out.append((f"{nm}_charge_kept", res.fields["_charge"] is orig.fields["_charge"] or res.fields["_charge"].t == orig.fields["_charge"].t))
            return out

        def post(r):
            if not (isinstance(r, tuple) and len(r) == 2 and all(isinstance(x, SymObj) for x in r)):
                return [("returns_pair_of_arrays", False)]
            ra, rbb = r
            out = []
            if inplace:
                out += [("inplace_returns_the_operands", ra is a and rbb is b)]
            else:
                out += [
                    ("results_are_new_arrays", ra is not a and rbb is not b and ra is not rbb),
                    ("operand_a_blocks_untouched", z3.And(abl.has == A0[0], abl.val == A0[1]) if a.fields["_blocks"] is abl else False),
                    ("operand_b_blocks_untouched", z3.And(bbl.has == B0[0], bbl.val == B0[1]) if b.fields["_blocks"] is bbl else False),
                    ("operand_indices_untouched", a.fields["_indices"] == aidx and b.fields["_indices"] == bidx),
                    ("result_block_dicts_not_shared", ra.fields["_blocks"] is not abl and rbb.fields["_blocks"] is not bbl),
                ]
            out += check_operand(ra, a, A0, KA, kept_a, CMA, aidx, na, "a")
            out += check_operand(rbb, b, B0, KB, kept_b, CMB, bidx, nb, "b")
            return out

        check_call(it, f"drop_misaligned_sectors[ranks={na},{nb},axes={axes_a}/{axes_b},inplace={inplace}]".replace(" ", ""), fn, [a, b, axes_a, axes_b], {"inplace": inplace}, post=post)

    return Task(
        f"C06.drop_misaligned_sectors.ranks_{na}_{nb}.axes_{'_'.join(map(str, axes_a))}__{'_'.join(map(str, axes_b))}.inplace_{inplace}",
        ["C06", "C02"],
        [Q, "abelian_core.BlockIndex.drop_charges", "abelian_core.BlockIndex.copy_with", "abelian_core.AbelianArray.copy_with", "abelian_core.AbelianArray.modify"],
        body,
        assumes=["dict / set comprehension semantics (A-builtins); BlockIndex tables are sorted copies (order abstracted)"],
        bounded_rank=f"operands of rank {na} and {nb}, contracted pairs {axes_a} / {axes_b}; blocks, charges, sizes unbounded",
        timeout_ms=60000,
    )


_tasks_rank2 = tasks


def tasks():  # noqa: F811
    out = _tasks_rank2()
    from pyvc.task import thorough

    out.append(_task_nd(3, 2, (0, 2), (1, 0), False))
    if thorough():
        # 82 paths each (every combination of "some charge dropped / none dropped" per index): minutes, not seconds
        out += [_task_nd(3, 3, (1, 2), (0, 1), False), _task_nd(3, 3, (2, 0), (1, 0), True)]
    return out
