"""Sidecar contracts for AbelianArray.einsum and AbelianArray.trace (C02, C08, C01, C14) -- single-array
contraction: permutation and pairwise traces.

einsum(eq) for a concrete equation (enumerated: pure permutations, one trace, two traces, full trace, with and
without kept axes; rank <= 4) on an array with ANY number of stored blocks, symbolic sectors / tables:

  diag(s)  := s[j1] == s[j2] for every traced pair (j1, j2)
  proj(s)  := (s[perm[0]], ..., s[perm[-1]])     perm = position in the input of every output letter
  keys(result) == { proj(s) : s stored, diag(s) }
  result[u]    == SUM over { s stored : diag(s), proj(s) == u } of einsum(eq, block(s))
  indices      == the index objects of the kept axes in output order;  charge unchanged;  operand untouched;
  scalar output: the stored number, or 0.0 when no diagonal block is stored; an array if preserve_array.

SUM is the finite sum of an abstract commutative monoid (`blk_add`) over a SET of sectors, given by its defining
recursion  SUM(S + {s}) = SUM(S) + f(s)  (s not in S),  SUM({s}) = f(s); the loop invariant is
`new_blocks[u] == SUM(visited /\\ contributes(u))`, so a block that is skipped, counted twice or filed under the wrong
key fails.  (A-float: reassociation of floating-point addition is not considered.)

trace(): rank 2: the sum over the stored sectors with s[0] == s[1] of numpy.trace(block) (python `sum`, start 0);
rank != 2 raises ValueError before anything is read.
"""

import z3

from pyvc.builtins_model import LoopSpec, tuple_type
from pyvc.core import SV, SymDict, SymObj, TInt, TOpaque, Unsupported
from pyvc.interp import BuiltinVal
from pyvc.task import Task, check_call, thorough

from .dims import BLK, KT, install, mk_array

EIN = {}
badd = z3.Function("blk_add", BLK.sort(), BLK.sort(), BLK.sort())
NUM = TOpaque("Number")
np_trace = z3.Function("np_trace", BLK.sort(), NUM.sort())
num_add = z3.Function("num_add", NUM.sort(), NUM.sort(), NUM.sort())
ZERO = z3.Const("int_zero_as_number", NUM.sort())


def ein_fn(eq):
    if eq not in EIN:
        EIN[eq] = z3.Function("np_einsum[" + eq + "]", BLK.sort(), BLK.sort())
    return EIN[eq]


def parse(eq):
    lhs, rhs = eq.split("->")
    pairs = []
    for q in dict.fromkeys(lhs):
        if q not in rhs:
            js = [j for j, z in enumerate(lhs) if z == q]
            pairs.append(tuple(js))
    perm = tuple(lhs.index(q) for q in rhs)
    return lhs, rhs, pairs, perm


def _einsum_task(eq, preserve):
    lhs, rhs, pairs, perm = parse(eq)
    nd, no = len(lhs), len(rhs)

    def body(it):
        install(it)
        ctx = it.ctx
        x, bl, idx, ch = mk_array(it, nd)
        B0 = (bl.has, bl.val)
        K0, K1 = KT(nd), KT(no)
        f = ein_fn(eq)

        def get_lib_fn(it_, a, k):
            if a[1] != "einsum":
                raise Unsupported(f"get_lib_fn {a[1]!r}")

            def call(i2, a2, k2):
                if a2[0] != eq:
                    raise Unsupported("einsum called with a different equation")
                return SV(f(a2[1].t), BLK)

            return BuiltinVal("np.einsum", call)

        it.externals["ar.get_lib_fn"] = get_lib_fn
        it.summaries["block_core.BlockBase.backend"] = lambda it_, a, k: "numpy"

        def binop_hook(it_, op, a, b):
            import ast

            if op is ast.Add and isinstance(a, SV) and isinstance(b, SV) and a.ty == BLK and b.ty == BLK:
                return SV(badd(a.t, b.t), BLK)
            return None

        it.binop_hook = binop_hook

        def diag(s):
            return z3.And(*[K0.get(s, f"f{a}") == K0.get(s, f"f{b}") for a, b in pairs]) if pairs else z3.BoolVal(True)

        def proj(s):
            return K1.make(*[K0.get(s, f"f{i}") for i in perm])

        def contributes(s, u):
            return z3.And(diag(s), proj(s) == u)

        # SUM(S, u): S a set of input sectors (characteristic array)
        SETS = z3.ArraySort(K0.sort(), z3.BoolSort())
        SUM = z3.Function("SUM_over_contributing_sectors", SETS, K1.sort(), BLK.sort())
        t = z3.Const("t!es", K0.sort())

        def nonempty(S, u):
            return z3.Exists([t], z3.And(z3.Select(S, t), contributes(t, u)))

        def sum_step(S, s, u):
            """defining recursion of the finite sum at the instance (S, s, u), s not in S"""
            S2 = z3.Store(S, s, z3.BoolVal(True))
            fs = f(z3.Select(B0[1], s))
            return z3.Implies(
                z3.Not(z3.Select(S, s)),
                z3.If(contributes(s, u), SUM(S2, u) == z3.If(nonempty(S, u), badd(SUM(S, u), fs), fs), SUM(S2, u) == SUM(S, u)),
            )

        def inv(it_, env, g):
            vis = g["vis"]
            nb = env.vars["new_blocks"]
            if isinstance(nb, dict):
                assert not nb
                nh = lambda q: z3.BoolVal(False)  # noqa: E731
                nv = lambda q: z3.Const("dflt_blk", BLK.sort())  # noqa: E731
            else:
                nh = lambda q: z3.Select(nb.has, q)  # noqa: E731
                nv = lambda q: z3.Select(nb.val, q)  # noqa: E731
            u = z3.Const("u!inv", K1.sort())
            out = [
                ("stored_keys_are_projections_of_visited_diagonal_sectors", z3.ForAll([u], nh(u) == nonempty(vis, u))),
                ("stored_values_are_the_sums_over_the_visited_contributors", z3.ForAll([u], z3.Implies(nh(u), nv(u) == SUM(vis, u)))),
            ]
            if not pairs:
                # a pure permutation: every visited sector has its own key, holding the einsum of its block alone
                s1 = z3.Const("s!inv", K0.sort())
                out.append(("permutation_only.visited_sectors_hold_the_einsum_of_their_own_block", z3.ForAll([s1], z3.Implies(z3.Select(vis, s1), nv(proj(s1)) == f(z3.Select(B0[1], s1))))))
            return out

        def step_lemmas(it_, env, g):
            # the sum recursion for the sector visited in this iteration, for every output key
            vis, cur = g["vis"], g["cur"]
            u = z3.Const("u!sl", K1.sort())
            return [z3.ForAll([u], sum_step(vis, cur, u))]

        it.loop_specs[("abelian_core.AbelianArray.einsum", 2)] = LoopSpec(carried={"new_blocks": ("dict", K1, BLK)}, invariant=inv, step_lemmas=step_lemmas, target=("sector", "array"))
        m, _ = x.cls.lookup("einsum")
        ALL = B0[0]

        def post(r):
            out = []
            u = z3.Const("u!post", K1.sort())
            if rhs or preserve:
                ok = isinstance(r, SymObj) and r is not x
                out.append(("returns_a_new_array", ok))
                if not ok:
                    return out
                rb = r.fields["_blocks"]
                okb = isinstance(rb, SymDict) and rb.kty == K1
                out.append(("result_sectors_have_the_output_rank", okb))
                if okb:
                    out += [
                        ("stored_sectors_are_exactly_the_projections_of_the_stored_diagonal_sectors", z3.ForAll([u], z3.Select(rb.has, u) == nonempty(ALL, u))),
                        ("every_block_is_the_sum_of_the_einsums_of_its_contributing_blocks", z3.ForAll([u], z3.Implies(z3.Select(rb.has, u), z3.Select(rb.val, u) == SUM(ALL, u)))),
                    ]
                    if not pairs:
                        s0 = z3.Const("s!post", K0.sort())
                        out.append(("permutation_only.each_block_is_the_einsum_of_its_one_source_block", z3.ForAll([s0], z3.Implies(z3.Select(B0[0], s0), z3.Select(rb.val, proj(s0)) == f(z3.Select(B0[1], s0))))))
                inds = r.fields["_indices"]
                out.append(("indices_are_those_of_the_kept_axes_in_output_order", isinstance(inds, tuple) and len(inds) == no and all(a is idx[p] for a, p in zip(inds, perm))))
                out.append(("total_charge_unchanged", z3.eq(r.fields["_charge"].t, ch) if isinstance(r.fields["_charge"], SV) else False))
            else:
                e = K1.make()
                if isinstance(r, SV) and r.ty == BLK:
                    out += [("scalar_returned_only_if_a_diagonal_block_is_stored", nonempty(ALL, e)), ("scalar_is_the_sum_over_the_stored_diagonal_blocks", r.t == SUM(ALL, e))]
                elif isinstance(r, float) and r == 0.0:
                    out.append(("zero_returned_only_if_no_diagonal_block_is_stored", z3.Not(nonempty(ALL, e))))
                else:
                    out.append(("scalar_result_is_a_number", False))
            out += [("operand_blocks_untouched", x.fields["_blocks"] is bl and z3.And(bl.has == B0[0], bl.val == B0[1])), ("operand_indices_untouched", x.fields["_indices"] == idx)]
            return out

        check_call(it, f"einsum[{eq},preserve_array={preserve}]", m, [x, eq], {"preserve_array": preserve}, post=post)

    return Task(
        f"C02.einsum.{eq.replace('->', '_to_')}.preserve_{preserve}",
        ["C02", "C08", "C01", "C14"],
        ["abelian_core.AbelianArray.einsum", "abelian_core.AbelianArray.copy_with"],
        body,
        bounded_rank=f"equation {eq!r} (rank {nd} -> {no}); blocks / sectors / tables symbolic",
        assumes=["A-numpy: numpy.einsum(eq, block) uninterpreted per equation", "finite sum over a set of sectors given by its defining recursion (abstract commutative monoid; A-float: no reassociation error)", "debug-mode audit (DEBUG) off"],
        timeout_ms=30000,
    )


def _trace_task(nd):
    def body(it):
        install(it)
        ctx = it.ctx
        x, bl, idx, ch = mk_array(it, nd)
        B0 = (bl.has, bl.val)
        K0 = KT(nd)

        def get_lib_fn(it_, a, k):
            if a[1] != "trace":
                raise Unsupported(f"get_lib_fn {a[1]!r}")
            return BuiltinVal("np.trace", lambda i2, a2, k2: SV(np_trace(a2[0].t), NUM))

        it.externals["ar.get_lib_fn"] = get_lib_fn
        it.summaries["block_core.BlockBase.backend"] = lambda it_, a, k: "numpy"
        m, _ = x.cls.lookup("trace")
        if nd != 2:
            check_call(it, f"trace[ndim={nd}]", m, [x], post=lambda r: [("rank_other_than_two_must_raise", False)], raises={"ValueError": lambda it_: z3.BoolVal(True)})
            return
        SETS = z3.ArraySort(K0.sort(), z3.BoolSort())
        NSUM = z3.Function("SUM_of_block_traces_over_diagonal_sectors", SETS, NUM.sort())
        log = []

        def dictgen_sum(it_, dg, start):
            # python sum() of a generator over the items of a symbolic dict: the finite sum over the SET of stored
            # items passing the filter; what is summed and which items pass are checked below as obligations
            log.append((dg, start))
            return SV(NSUM(dg.ki.has), NUM)

        it.dictgen_sum = dictgen_sum

        def post(r):
            return [("trace_is_one_sum_over_the_stored_blocks", isinstance(r, SV) and r.ty == NUM and len(log) == 1 and z3.eq(r.t, NSUM(B0[0])))]

        res, exc = check_call(it, "trace[ndim=2]", m, [x], post=post)
        if len(log) == 1:
            dg, start = log[0]
            s, b = dg.key, dg.val
            ctx.oblige("trace[ndim=2].sum_runs_over_the_items_of_the_block_dict", dg.ki.mode == "items" and z3.eq(dg.ki.has, B0[0]) and z3.eq(dg.ki.val, B0[1]))
            ctx.oblige("trace[ndim=2].sum_starts_at_zero", isinstance(start, int) and start == 0)
            ctx.oblige("trace[ndim=2].summand_is_the_numpy_trace_of_the_block", isinstance(dg.elem, SV) and dg.elem.ty == NUM and z3.ForAll([s, b], dg.elem.t == np_trace(b)))
            ctx.oblige("trace[ndim=2].exactly_the_diagonal_sectors_are_summed", z3.ForAll([s, b], dg.cond == (K0.get(s, "f0") == K0.get(s, "f1"))))

    return Task(
        f"C02.trace.ndim{nd}",
        ["C02", "C08"],
        ["abelian_core.AbelianArray.trace"],
        body,
        bounded_rank=f"rank {nd}; blocks / sectors symbolic",
        assumes=["A-numpy: numpy.trace(block) uninterpreted", "python sum() of a filtered generator over dict items == finite sum over the set of items passing the filter (start 0)"],
    )


def equations():
    eqs = [("ab->ba", False), ("ab->ab", False), ("abc->cab", False), ("aa->", False), ("aa->", True), ("abb->a", False), ("aba->b", False), ("abcb->ca", False), ("abab->", False), ("abba->", True)]
    if thorough():
        eqs += [("abcd->dbca", False), ("aabb->", False), ("abca->cb", False), ("abcc->ba", True), ("a->a", False)]
    return eqs


def tasks():
    out = [_einsum_task(eq, pres) for eq, pres in equations()]
    out += [_trace_task(nd) for nd in (1, 2, 3)]
    return out
