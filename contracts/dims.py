"""Sidecar contracts for AbelianArray.expand_dims and AbelianArray.squeeze (C08, C01, C14, C16), with the real
BlockBase._map_blocks, AbelianArray.copy / modify.

Rank-bounded: arrays of rank 1 and 2 (expand_dims) / rank 2 and 3 (squeeze), every axis position incl. negative
ones; any number of blocks, symbolic charge tables, directions, charges (U1; the code does not branch on the
symmetry except through combine / sign, which are interpreted).

expand_dims(axis, c, dual):
  * every stored sector gets the new charge inserted at `axis` (c, or the identity charge if c is None); the block
    is the old block with a unit axis inserted; no two entries collapse; nothing else is stored
  * the new index is BlockIndex({c: 1}) whose direction is `dual`, or -- if not given -- that of the axis to the
    left, else of the axis to the right, else False; the other indices are the old objects in order
  * total charge: unchanged for c None, else combine(charge, sign(c, dual))
  * out of place: new array, operand untouched; in place: receiver returned
  * FERMIONIC arrays inherit this method: the parity of the total charge must stay equal to the parity of the number
    of odd-position labels.  That obligation is refuted for an explicitly given odd charge: known finding F12.

squeeze(axis) for a single given axis (int, also negative):
  * ValueError exactly when the axis has size > 1 or carries a non-identity charge
  * otherwise every sector loses that component, blocks are indexed with 0 on that axis, the index is dropped,
    the total charge is unchanged
"""

import z3

from pyvc.builtins_model import tuple_type
from pyvc.core import SV, SymDict, SymObj, TBool, TInt, TOpaque, TStruct, Unsupported
from pyvc.interp import BuiltinVal, I, SliceVal
from pyvc.task import Task, check_call

from .linalg_bonds import mk_index
from .util import ok_scalar, sym_obj

BLK = TOpaque("NdBlock")
expand_at = z3.Function("insert_unit_axis", BLK.sort(), z3.IntSort(), BLK.sort())
take0_at = z3.Function("take_index_0_on_axis", BLK.sort(), z3.IntSort(), BLK.sort())
ODD = TOpaque("OddLabels")
nlabels_parity = z3.Function("number_of_labels_mod_2", ODD.sort(), z3.IntSort())
_types = {}


def KT(n):
    # the generic tuple sort: the code builds the new sectors as plain tuples (sector keys of different arity have
    # different sorts; no other tuple-valued role occurs in these tasks)
    return tuple_type([TInt] * n)


def mk_array(it, nd, fermionic=False):
    ctx = it.ctx
    cls = it.get_class("fermionic_core", "FermionicArray") if fermionic else it.get_class("abelian_core", "AbelianArray")
    x = SymObj(cls, tag="x")
    K = KT(nd)
    bl = SymDict(z3.Const("x_has", z3.ArraySort(K.sort(), z3.BoolSort())), z3.Const("x_val", z3.ArraySort(K.sort(), BLK.sort())), K, BLK, "x_blocks")
    idx = tuple(mk_index(it, f"x_i{i}") for i in range(nd))
    ch = ctx.fresh("charge", TInt)
    x.fields.update({"_blocks": bl, "_indices": idx, "_symmetry": sym_obj(it, "U1"), "_charge": SV(ch, TInt)})
    if fermionic:
        ph = SymDict(z3.Const("x_ph_has", z3.ArraySort(K.sort(), z3.BoolSort())), z3.Const("x_ph_val", z3.ArraySort(K.sort(), z3.IntSort())), K, TInt, "x_phases")
        x.fields["_phases"] = ph
        x.fields["_oddpos"] = SV(ctx.fresh("oddpos", ODD), ODD)
    s = z3.Const("s!valid", K.sort())
    ctx.assume(z3.ForAll([s], z3.Implies(z3.Select(bl.has, s), z3.And(*[z3.Select(idx[i].fields["_chargemap"].has, K.get(s, f"f{i}")) for i in range(nd)]))))
    return x, bl, idx, ch


def install(it):
    def index_ctor(it_, a, k):
        cm = a[0] if a else k.get("chargemap")
        dual = a[1] if len(a) > 1 else k.get("dual", False)
        if isinstance(cm, dict) and all(isinstance(k_, int) for k_ in cm):
            has, val = z3.K(z3.IntSort(), z3.BoolVal(False)), z3.K(z3.IntSort(), z3.IntVal(0))
            for k_, v_ in cm.items():
                has, val = z3.Store(has, z3.IntVal(k_), z3.BoolVal(True)), z3.Store(val, z3.IntVal(k_), I(v_))
            cm = SymDict(has, val, TInt, TInt, "literal")
        if not isinstance(cm, SymDict):
            raise Unsupported("BlockIndex summary expects a symbolic chargemap")
        ix = SymObj(it_.get_class("abelian_core", "BlockIndex"), tag=it_.ctx.fresh_name("newix"))
        ix.fields["_chargemap"] = SymDict(cm.has, cm.val, cm.kty, cm.vty, "newix_cm")
        t = it_.truth(dual)
        ix.fields["_dual"] = SV(t, TBool) if not isinstance(t, bool) else t
        ix.fields["_subinfo"] = k.get("subinfo", a[2] if len(a) > 2 else None)
        ix.fields["_hashkey"] = None
        return ix

    it.summaries["abelian_core.BlockIndex"] = index_ctor
    it.debug_flag = False

    def og(it_, obj, key):
        # block[selector]: a tuple of full slices with exactly one None (new unit axis) or exactly one 0
        if isinstance(key, tuple):
            nones = [i for i, z in enumerate(key) if z is None]
            zeros = [i for i, z in enumerate(key) if isinstance(z, int) and not isinstance(z, bool) and z == 0]
            rest = [z for z in key if isinstance(z, SliceVal) and z.lo is None and z.hi is None and z.step is None]
            if len(nones) == 1 and not zeros and len(rest) == len(key) - 1:
                return SV(expand_at(obj.t, z3.IntVal(nones[0])), BLK)
            if len(zeros) == 1 and not nones and len(rest) == len(key) - 1:
                return SV(take0_at(obj.t, z3.IntVal(zeros[0])), BLK)
        raise Unsupported("unexpected subscript of a block")

    it.opaque_getitem = dict(getattr(it, "opaque_getitem", {}), NdBlock=og)


def dual_of(ix):
    d = ix.fields["_dual"]
    return d.t if isinstance(d, SV) else z3.BoolVal(bool(d))


def _expand_task(nd, axis, with_c, with_dual, inplace, fermionic=False):
    pos = axis if axis >= 0 else axis + nd + 1

    def body(it):
        install(it)
        ctx = it.ctx
        x, bl, idx, ch = mk_array(it, nd, fermionic)
        B0 = (bl.has, bl.val)
        K0, K1 = KT(nd), KT(nd + 1)
        c = ctx.fresh("c", TInt) if with_c else None
        dl = ctx.fresh("dual_arg", TBool) if with_dual else None

        def rekey_inverse(it_, kv, s, k2):
            # remove the inserted component
            comps = [K1.get(k2, f"f{i}") for i in range(nd + 1) if i != pos]
            return K0.make(*comps)

        it.rekey_inverse = rekey_inverse
        kw = {"inplace": inplace}
        if with_c:
            kw["c"] = SV(c, TInt)
        if with_dual:
            kw["dual"] = SV(dl, TBool)
        m, _ = x.cls.lookup("expand_dims")
        c_eff = c if with_c else z3.IntVal(0)
        if with_dual:
            d_eff = dl
        elif pos > 0:
            d_eff = dual_of(idx[pos - 1])
        elif pos < nd:
            d_eff = dual_of(idx[pos])
        else:
            d_eff = z3.BoolVal(False)

        def post(r):
            out = []
            ok = isinstance(r, SymObj)
            out.append(("returns_an_array", ok))
            if not ok:
                return out
            rb = r.fields["_blocks"]
            k1 = z3.Const("k!post", K1.sort())
            s0 = z3.Const("s!post", K0.sort())
            rem = K0.make(*[K1.get(k1, f"f{i}") for i in range(nd + 1) if i != pos])
            ins = K1.make(*([K0.get(s0, f"f{i}") for i in range(pos)] + [c_eff] + [K0.get(s0, f"f{i}") for i in range(pos, nd)]))
            okb = isinstance(rb, SymDict) and rb.kty == K1
            out.append(("result_sectors_have_one_more_component", okb))
            if okb:
                out += [
                    ("stored_sectors_are_the_old_ones_with_the_new_charge_inserted", z3.ForAll([k1], z3.Select(rb.has, k1) == z3.And(K1.get(k1, f"f{pos}") == c_eff, z3.Select(B0[0], rem)))),
                    ("every_block_gets_a_unit_axis_at_the_position", z3.ForAll([s0], z3.Implies(z3.Select(B0[0], s0), z3.Select(rb.val, ins) == expand_at(z3.Select(B0[1], s0), z3.IntVal(pos))))),
                ]
            inds = r.fields["_indices"]
            oki = isinstance(inds, tuple) and len(inds) == nd + 1 and all(inds[i] is idx[i] for i in range(pos)) and all(inds[i + 1] is idx[i] for i in range(pos, nd))
            out.append(("old_indices_kept_in_order_around_the_new_one", oki))
            if oki:
                nix = inds[pos]
                cm = nix.fields["_chargemap"]
                q = z3.Int("q!post")
                out += [
                    ("new_index_has_exactly_the_inserted_charge_with_size_one", z3.ForAll([q], z3.And(z3.Select(cm.has, q) == (q == c_eff), z3.Implies(q == c_eff, z3.Select(cm.val, q) == 1)))),
                    ("new_index_direction_given_or_inherited_from_left_then_right_neighbour", dual_of(nix) == d_eff),
                ]
            want_charge = ch if not with_c else ch + z3.If(d_eff, -c, c)
            out.append(("total_charge_updated_by_the_signed_new_charge", I(r.fields["_charge"]) == want_charge))
            if inplace:
                out.append(("in_place_returns_the_receiver", r is x))
            else:
                out += [
                    ("out_of_place_returns_a_new_array", r is not x),
                    ("operand_blocks_untouched", x.fields["_blocks"] is bl and z3.And(bl.has == B0[0], bl.val == B0[1])),
                    ("operand_indices_and_charge_untouched", x.fields["_indices"] == idx and z3.eq(x.fields["_charge"].t, ch)),
                ]
            if fermionic:
                # Valid(x): parity(charge) == number of labels mod 2; must still hold for the result
                lp = nlabels_parity(r.fields["_oddpos"].t) if isinstance(r.fields.get("_oddpos"), SV) else None
                ok_l = lp is not None
                out.append(("labels_present", ok_l))
                if ok_l:
                    par = lambda v: v % 2  # noqa: E731  (U1 parity)
                    claim = par(I(r.fields["_charge"])) == lp
                    if with_c:
                        out.append(("fermionic.charge_parity_matches_label_count.new_charge_even", z3.Implies(c % 2 == 0, claim)))
                        out.append(("fermionic.charge_parity_matches_label_count.new_charge_odd", z3.Implies(c % 2 == 1, claim)))
                    else:
                        out.append(("fermionic.charge_parity_matches_label_count.identity_charge", claim))
            return out

        if fermionic:
            ctx.assume(ch % 2 == nlabels_parity(x.fields["_oddpos"].t))
        check_call(it, f"expand_dims[ndim={nd},axis={axis},c={'given' if with_c else 'None'},dual={'given' if with_dual else 'None'},inplace={inplace}]", m, [x, axis], kw, post=post)

    return Task(
        f"C08.expand_dims.{'fermionic.' if fermionic else ''}ndim{nd}.axis{axis}.c_{'given' if with_c else 'none'}.dual_{'given' if with_dual else 'none'}.inplace_{inplace}",
        ["C01"] if fermionic else ["C08", "C01", "C14", "C16"],  # the fermionic instances isolate known finding F12 (a C01 matter)
        ["abelian_core.AbelianArray.expand_dims", "block_core.BlockBase._map_blocks", "abelian_core.AbelianArray.modify"],
        body,
        bounded_rank=f"rank {nd} array, axis {axis}; blocks / tables / charges symbolic",
        assumes=["A-numpy: block[(:, .., None, .., :)] inserts a unit axis at that position", "U1 charges (combine / sign interpreted from the real class)"],
    )


def _squeeze_task(nd, axis, inplace):
    pos = axis if axis >= 0 else axis + nd

    def body(it):
        install(it)
        ctx = it.ctx
        x, bl, idx, ch = mk_array(it, nd)
        B0 = (bl.has, bl.val)
        K0, K1 = KT(nd), KT(nd - 1)
        cm = idx[pos].fields["_chargemap"]
        # Valid: sizes positive; the ghost size of the table is its number of charges
        q, q2 = z3.Int("q!sq"), z3.Int("q2!sq")
        ctx.assume(z3.ForAll([q], z3.Implies(z3.Select(cm.has, q), z3.Select(cm.val, q) >= 1)))
        single = ctx.fresh("the_only_charge", TInt)
        is_single = z3.ForAll([q], z3.Select(cm.has, q) == (q == single))
        squeezable = z3.And(is_single, z3.Select(cm.val, single) == 1, single == 0)

        def rekey_inverse(it_, kv, s, k2):
            comps = [K1.get(k2, f"f{i}") for i in range(nd - 1)]
            comps.insert(pos, z3.IntVal(0))
            return K0.make(*comps)

        it.rekey_inverse = rekey_inverse
        # size_total == 1 and `(charge,) = ix.chargemap` need the table as a whole: summarised
        it.summaries["abelian_core.BlockIndex.size_total"] = lambda it_, a, k: (_ for _ in ()).throw(Unsupported("size_total of another index")) if a[0] is not idx[pos] else SV(z3.If(z3.And(is_single, z3.Select(cm.val, single) == 1), 1, 2), TInt)
        m, _ = x.cls.lookup("squeeze")

        def post(r):
            out = []
            ok = isinstance(r, SymObj)
            out.append(("returns_an_array", ok))
            if not ok:
                return out
            rb = r.fields["_blocks"]
            k1 = z3.Const("k!post", K1.sort())
            s0 = z3.Const("s!post", K0.sort())
            ins = K0.make(*([K1.get(k1, f"f{i}") for i in range(pos)] + [z3.IntVal(0)] + [K1.get(k1, f"f{i}") for i in range(pos, nd - 1)]))
            rem = K1.make(*[K0.get(s0, f"f{i}") for i in range(nd) if i != pos])
            okb = isinstance(rb, SymDict) and rb.kty == K1
            out.append(("result_sectors_have_one_component_less", okb))
            if okb:
                out += [
                    ("stored_sectors_are_the_old_ones_without_that_component", z3.ForAll([k1], z3.Select(rb.has, k1) == z3.Select(B0[0], ins))),
                    ("every_block_is_indexed_with_0_on_that_axis", z3.ForAll([s0], z3.Implies(z3.Select(B0[0], s0), z3.Select(rb.val, rem) == take0_at(z3.Select(B0[1], s0), z3.IntVal(pos))))),
                ]
            inds = r.fields["_indices"]
            out.append(("the_index_is_dropped_the_others_kept_in_order", isinstance(inds, tuple) and len(inds) == nd - 1 and all(a is b for a, b in zip(inds, idx[:pos] + idx[pos + 1 :]))))
            out.append(("total_charge_unchanged", z3.eq(r.fields["_charge"].t, ch) or I(r.fields["_charge"]) == ch))
            if inplace:
                out.append(("in_place_returns_the_receiver", r is x))
            else:
                out += [("out_of_place_returns_a_new_array", r is not x), ("operand_blocks_untouched", x.fields["_blocks"] is bl and z3.And(bl.has == B0[0], bl.val == B0[1])), ("operand_indices_untouched", x.fields["_indices"] == idx)]
            return out

        res, exc = check_call(it, f"squeeze[ndim={nd},axis={axis},inplace={inplace}]", m, [x, axis], {"inplace": inplace}, post=post, raises={"ValueError": lambda it_: z3.Not(squeezable)})
        if exc is None:
            ctx.oblige(f"squeeze[ndim={nd},axis={axis},inplace={inplace}].returns_only_for_a_size_one_identity_charge_axis", squeezable)

    return Task(
        f"C08.squeeze.ndim{nd}.axis{axis}.inplace_{inplace}",
        ["C08", "C01", "C14"],
        ["abelian_core.AbelianArray.squeeze", "block_core.BlockBase._map_blocks", "abelian_core.AbelianArray.modify"],
        body,
        bounded_rank=f"rank {nd} array, axis {axis}; blocks / tables symbolic",
        assumes=["A-numpy: block[(:, .., 0, .., :)] takes index 0 on that axis", "BlockIndex.size_total summarised as 'exactly one charge of size one' vs 'larger'", "Valid(x): stored sectors use charges of the tables, sizes >= 1"],
    )


def tasks():
    out = []
    for nd in (1, 2):
        for axis in range(-(nd + 1), nd + 1):
            for with_c in (False, True):
                for with_dual in (False, True):
                    out.append(_expand_task(nd, axis, with_c, with_dual, inplace=(axis + nd + with_c) % 2 == 0))
    out.append(_expand_task(1, 0, False, False, True))
    out.append(_expand_task(1, 1, True, True, False))
    for axis, with_c in ((0, True), (1, False), (-1, True), (2, True)):
        out.append(_expand_task(2 if axis == 2 else 1, axis, with_c, False, False, fermionic=True))
    for nd in (2, 3):
        for axis in range(-nd, nd):
            out.append(_squeeze_task(nd, axis, inplace=bool((axis + nd) % 2)))
    return out
