"""Sidecar contract for AbelianArray.unfuse (C05, C06, C07, C01, C14): splitting a fused axis according to the fused
index's own sub-index table.

Array of rank 2 whose axis `axis` (0 or 1) is a fused index with two constituents; ANY number of stored blocks, any
table.  The sub-index table `extents` (fused charge -> ordered {sub-sector: size}) is modelled by ghost functions
  n(c)            number of sub-sectors of fused charge c
  sub(c, j), size(c, j)   the j-th sub-sector (a pair of charges) and its extent, 0 <= j < n(c)
  off(c, j)       = size(c, 0) + ... + size(c, j-1)                     (prefix sums: off(c,0) = 0)
with the validity assumptions of a fused index: every sub-sector occurs once, under one fused charge
(ghost inverses ch(sub), pos(sub)).

  for every stored sector s with fused charge c = s[axis] and every j < n(c):
      result[s with s[axis] replaced by sub(c, j)] == reshape(block(s)[..., off(c,j) : off(c,j) + size(c,j)],
                                                              block shape with that axis replaced by the sizes the
                                                              constituent indices give to the charges of sub(c, j))
  and nothing else is stored; indices = the old ones with the fused index replaced by its constituents in order;
  total charge unchanged; out of place: new array, operand untouched; in place: the receiver.
accum_for_split is used through its contract (contracts/splits.py): the j-th slice is [off(c,j), off(c,j+1)).
"""

import z3

from pyvc.builtins_model import SLICE, LoopSpec, zlen
from pyvc.core import SV, SymDict, SymObj, SymSeq, TInt, TOpaque, Unsupported
from pyvc.interp import BuiltinVal, SliceVal
from pyvc.task import Task, check_call

from .dims import KT
from .linalg_bonds import mk_index
from .util import sym_obj

Q = "abelian_core.AbelianArray.unfuse"
UB = TOpaque("UBlock")
K2, K3 = KT(2), KT(3)
Nf = z3.Function("n_subsectors", z3.IntSort(), z3.IntSort())
SUB = z3.Function("subsector", z3.IntSort(), z3.IntSort(), K2.sort())
SIZE = z3.Function("extent", z3.IntSort(), z3.IntSort(), z3.IntSort())
OFF = z3.Function("offset", z3.IntSort(), z3.IntSort(), z3.IntSort())
CH = z3.Function("fused_charge_of", K2.sort(), z3.IntSort())
POS = z3.Function("position_of", K2.sort(), z3.IntSort())
SZ0 = z3.Function("size_of_in_constituent_0", z3.IntSort(), z3.IntSort())
SZ1 = z3.Function("size_of_in_constituent_1", z3.IntSort(), z3.IntSort())
DIM = z3.Function("block_dim", UB.sort(), z3.IntSort(), z3.IntSort())
SL = z3.Function("block_slice_on_axis", UB.sort(), z3.IntSort(), z3.IntSort(), z3.IntSort(), UB.sort())
RS = z3.Function("np_reshape3", UB.sort(), z3.IntSort(), z3.IntSort(), z3.IntSort(), UB.sort())


def axioms():
    c, j = z3.Int("c!ux"), z3.Int("j!ux")
    return [
        z3.ForAll([c], Nf(c) >= 0, patterns=[Nf(c)]),
        z3.ForAll([c], OFF(c, 0) == 0, patterns=[OFF(c, 0)]),
        z3.ForAll([c, j], z3.Implies(z3.And(j >= 0, j < Nf(c)), z3.And(OFF(c, j + 1) == OFF(c, j) + SIZE(c, j), CH(SUB(c, j)) == c, POS(SUB(c, j)) == j)), patterns=[SUB(c, j)]),
    ]


def inrange(sg):
    return z3.And(POS(sg) >= 0, POS(sg) < Nf(CH(sg)), SUB(CH(sg), POS(sg)) == sg)


def _task(axis, inplace):
    other = 1 - axis

    def body(it):
        ctx = it.ctx
        for ax in axioms():
            ctx.assume(ax)
        cls = it.get_class("abelian_core", "AbelianArray")
        x = SymObj(cls, tag="x")
        bl = SymDict(z3.Const("x_has", z3.ArraySort(K2.sort(), z3.BoolSort())), z3.Const("x_val", z3.ArraySort(K2.sort(), UB.sort())), K2, UB, "x_blocks")
        B0 = (bl.has, bl.val)
        plain = mk_index(it, "plain")
        sx0, sx1 = SymObj(None, tag="constituent0"), SymObj(None, tag="constituent1")
        sx0.fields["size_of"] = BuiltinVal("sx0.size_of", lambda it_, a, k: SV(SZ0(a[0].t if isinstance(a[0], SV) else z3.IntVal(a[0])), TInt))
        sx1.fields["size_of"] = BuiltinVal("sx1.size_of", lambda it_, a, k: SV(SZ1(a[0].t if isinstance(a[0], SV) else z3.IntVal(a[0])), TInt))

        def CE(c):
            """the ordered dict extents[c]: iterates as its sub-sectors, .values() are the extents in the same order"""
            j = z3.Int(ctx.fresh_name("cej"))
            o = SymObj(None, tag="charge_extent")
            o.fields["$seq"] = SymSeq(Nf(c), z3.Lambda([j], SUB(c, j)), K2, "tuple")
            o.fields["values"] = BuiltinVal("charge_extent.values", lambda it_, a, k: SymSeq(Nf(c), z3.Lambda([j], SIZE(c, j)), TInt, "tuple"))
            o.fields["$charge"] = c
            return o

        def slices_of(c):
            j = z3.Int(ctx.fresh_name("slj"))
            return SymSeq(Nf(c), z3.Lambda([j], SLICE.make(OFF(c, j), OFF(c, j + 1))), SLICE, "tuple")

        ITEMS = SymObj(None, tag="extents.items()")
        EXT = SymObj(None, tag="extents")
        EXT.fields["items"] = BuiltinVal("extents.items", lambda it_, a, k: ITEMS)
        EXT.fields["$getitem"] = lambda it_, obj, key: CE(key.t if isinstance(key, SV) else z3.IntVal(key))
        sub = SymObj(None, {"extents": EXT, "indices": (sx0, sx1)}, tag="subinfo")
        fused = SymObj(None, {"subinfo": sub}, tag="fused_index")
        idx = (plain, fused) if axis == 1 else (fused, plain)
        ch = ctx.fresh("charge", TInt)
        x.fields.update({"_blocks": bl, "_indices": idx, "_symmetry": sym_obj(it, "U1"), "_charge": SV(ch, TInt)})
        it.debug_flag = False
        it.summaries["block_core.BlockBase.backend"] = lambda it_, a, k: "numpy"

        # accum_for_split through its contract: one slice per size, the j-th is [prefix(j), prefix(j+1))
        acc_calls = []

        def accum(it_, a, k):
            seq = a[0]
            if not isinstance(seq, SymSeq):
                raise Unsupported("accum_for_split of something else")
            acc_calls.append(seq)
            return ("ACCUM", seq)

        it.summaries["abelian_core.accum_for_split"] = accum

        def comp_hook(it_, e, env, kind, it0):
            if it0 is not ITEMS:
                return None
            from pyvc.interp import Env

            if kind != "dict":
                raise Unsupported("extents.items() consumed by something else than the slice table")
            c = ctx.fresh("generic_fused_charge", TInt)
            env3 = Env(env)
            it_.assign(e.generators[0].target, (SV(c, TInt), CE(c)), env3)
            kv = it_.eval_expr(e.key, env3)
            vv = it_.eval_expr(e.value, env3)
            ok = isinstance(vv, tuple) and len(vv) == 2 and vv[0] == "ACCUM" and not e.generators[0].ifs
            ctx.oblige("unfuse.slice_table.one_entry_per_fused_charge_keyed_by_it", isinstance(kv, SV) and z3.eq(kv.t, c) and ok)
            if not ok:
                raise Unsupported("slice table is not built by accum_for_split")
            seq = vv[1]
            j = z3.Int("j!st")
            ctx.oblige("unfuse.slice_table.split_sizes_are_the_extents_of_that_charge_in_table_order", z3.And(zlen(seq.length) == Nf(c), z3.ForAll([j], z3.Implies(z3.And(j >= 0, j < Nf(c)), z3.Select(seq.arr, j) == SIZE(c, j)))))
            tab = SymObj(None, tag="subindex_slices")
            tab.fields["$getitem"] = lambda it2, obj, key: slices_of(key.t if isinstance(key, SV) else z3.IntVal(key))
            return tab

        it.comp_hook = comp_hook

        def og(it_, obj, key):
            # array[(:, ..., slc)] : full slices on the axes before `axis`, then one slice
            if isinstance(key, tuple) and len(key) == axis + 1 and all(isinstance(z, SliceVal) and z.lo is None and z.hi is None and z.step is None for z in key[:-1]) and isinstance(key[-1], SliceVal) and key[-1].step is None:
                lo, hi = key[-1].lo, key[-1].hi
                return SV(SL(obj.t, z3.IntVal(axis), lo.t if isinstance(lo, SV) else z3.IntVal(lo), hi.t if isinstance(hi, SV) else z3.IntVal(hi)), UB)
            raise Unsupported("unexpected subscript of a block")

        it.opaque_getitem = dict(getattr(it, "opaque_getitem", {}), UBlock=og)
        it.externals["ar.shape"] = lambda it_, a, k: (SV(DIM(a[0].t, 0), TInt), SV(DIM(a[0].t, 1), TInt))

        def get_lib_fn(it_, a, k):
            if a[1] != "reshape":
                raise Unsupported(f"get_lib_fn {a[1]!r}")

            def rs(i2, a2, k2):
                sh = a2[1]
                if not (isinstance(sh, tuple) and len(sh) == 3):
                    raise Unsupported("reshape to a shape that is not a 3-tuple")
                t = [z.t if isinstance(z, SV) else z3.IntVal(z) for z in sh]
                return SV(RS(a2[0].t, *t), UB)

            return BuiltinVal("np.reshape", rs)

        it.externals["ar.get_lib_fn"] = get_lib_fn

        # ---- specification
        def comps(u):
            return [K3.get(u, f"f{i}") for i in range(3)]

        def src(u):
            """(source sector, sub-sector) of a result key"""
            c_ = comps(u)
            sg = K2.make(c_[axis], c_[axis + 1])
            o = c_[0] if axis == 1 else c_[2]
            s = K2.make(o, CH(sg)) if axis == 1 else K2.make(CH(sg), o)
            return s, sg

        def want_block(u):
            s, sg = src(u)
            c, p = CH(sg), POS(sg)
            b = z3.Select(B0[1], s)
            c_ = comps(u)
            d_other = DIM(b, other)
            shp = (d_other, SZ0(c_[1]), SZ1(c_[2])) if axis == 1 else (SZ0(c_[0]), SZ1(c_[1]), d_other)
            return RS(SL(b, z3.IntVal(axis), OFF(c, p), OFF(c, p + 1)), *shp)

        def table_ok(has, val, member):
            u = z3.Const("u!uf", K3.sort())
            s, sg = src(u)
            return [
                ("stored_keys_are_the_sub_sectors_of_the_fused_charges_of_stored_sectors", z3.ForAll([u], z3.Select(has, u) == z3.And(member(s, sg), inrange(sg)))),
                ("every_block_is_the_reshaped_slice_the_table_assigns", z3.ForAll([u], z3.Implies(z3.Select(has, u), z3.Select(val, u) == want_block(u)))),
            ]

        def nb_view(nb):
            if isinstance(nb, dict):
                assert not nb
                return z3.K(K3.sort(), z3.BoolVal(False)), z3.K(K3.sort(), z3.Const("dflt_ub", UB.sort()))
            return nb.has, nb.val

        def inv_outer(it_, env, g):
            vis = g["vis"]
            has, val = nb_view(env.vars["new_blocks"])
            return table_ok(has, val, lambda s, sg: z3.Select(vis, s))

        def cur_of(env):
            sec = env.vars["sector"]
            return K2.make(*[z.t if isinstance(z, SV) else z3.IntVal(z) for z in sec]) if isinstance(sec, tuple) else sec.t

        def inv_slices(it_, env, g):
            k = g["k"]
            na = env.vars["new_arrays"]
            arr = env.vars["array"].t
            c = env.vars["old_charge"].t
            j = z3.Int("j!sl")
            if isinstance(na, list):
                assert not na
                return [("no_pieces_before_the_first_slice", k == 0)]
            return [
                ("one_piece_per_slice_so_far", zlen(na.length) == k),
                ("piece_j_is_the_jth_interval_of_the_block", z3.ForAll([j], z3.Implies(z3.And(j >= 0, j < k), z3.Select(na.arr, j) == SL(arr, z3.IntVal(axis), OFF(c, j), OFF(c, j + 1))))),
            ]

        def cap_store(it_, env):
            return {"outer_vis": None}

        def inv_store(it_, env, g):
            k = g["k"]
            has, val = nb_view(env.vars["new_blocks"])
            cur = cur_of(env)
            vis = it.unfuse_outer_vis
            return table_ok(has, val, lambda s, sg: z3.Or(z3.Select(vis, s), z3.And(s == cur, POS(sg) < k)))

        def outer_steps(it_, env, g):
            return []

        it.loop_specs[(Q, 0)] = LoopSpec(carried={"new_blocks": ("dict", K3, UB)}, invariant=inv_outer, target=("sector", "array"))
        it.loop_specs[(Q, 1)] = LoopSpec(carried={"new_arrays": ("list", UB)}, invariant=inv_slices, target="slc")
        it.loop_specs[(Q, 2)] = LoopSpec(carried={"new_blocks": ("dict", K3, UB)}, invariant=inv_store, target=("subsector", "new_array"))

        # the inner store loop states its invariant relative to the outer loop's visited set: remember it
        orig_outer = it.loop_specs[(Q, 0)].invariant

        def inv_outer_rec(it_, env, g):
            it.unfuse_outer_vis = g["vis"]
            return orig_outer(it_, env, g)

        it.loop_specs[(Q, 0)].invariant = inv_outer_rec
        m, _ = cls.lookup("unfuse")

        def post(r):
            ok = isinstance(r, SymObj)
            out = [("returns_an_array", ok)]
            if not ok:
                return out
            rb = r.fields["_blocks"]
            okb = isinstance(rb, SymDict) and rb.kty == K3
            out.append(("result_sectors_have_one_more_component", okb))
            if okb:
                out += table_ok(rb.has, rb.val, lambda s, sg: z3.Select(B0[0], s))
            inds = r.fields["_indices"]
            want = (plain, sx0, sx1) if axis == 1 else (sx0, sx1, plain)
            out.append(("fused_index_replaced_by_its_constituents_in_order", isinstance(inds, tuple) and len(inds) == 3 and all(a is b for a, b in zip(inds, want))))
            out.append(("total_charge_unchanged", isinstance(r.fields["_charge"], SV) and z3.eq(r.fields["_charge"].t, ch)))
            if inplace:
                out.append(("in_place_returns_the_receiver", r is x))
            else:
                out += [("out_of_place_returns_a_new_array", r is not x), ("operand_blocks_untouched", x.fields["_blocks"] is bl and z3.And(bl.has == B0[0], bl.val == B0[1])), ("operand_indices_untouched", x.fields["_indices"] == idx)]
            return out

        check_call(it, f"unfuse[axis={axis},inplace={inplace}]", m, [x, axis], {"inplace": inplace}, post=post)

    return Task(
        f"C05.unfuse.axis{axis}.inplace_{inplace}",
        ["C05", "C06", "C07", "C01", "C14", "C02"],
        [Q, "abelian_core.replace_with_seq", "abelian_core.AbelianArray.copy_with", "abelian_core.AbelianArray.modify"],
        body,
        bounded_rank="rank 2, fused axis with two constituents at axis 0 / 1; blocks, charges, table entries unbounded",
        assumes=[
            "Valid(fused index): every sub-sector is listed once, under one fused charge (ghost inverses); the ordered dict extents[c] iterates its keys and values in the same (insertion) order",
            "callee contract accum_for_split (contracts/splits.py): j-th slice = [sum of the first j sizes, + size j)",
            "A-numpy: basic slicing on one axis and reshape are uninterpreted",
        ],
        timeout_ms=40000,
    )


def tasks():
    return [_task(1, False), _task(1, True), _task(0, False)]
