"""Sidecar contracts for AbelianArray.is_valid_sector / gen_valid_sectors (C17, C01, C16),
at ARBITRARY rank, for each of the five built-in symmetries.

Modular: the symmetry methods are replaced by their contracts proved in
contracts/symmetries.py  (combine(*cs) = norm(sum cs), sign(c, d) = norm(-c if d else c)).
Signed sums are ghost folds; the fold lemmas used (each instance: hypothesis obliged,
conclusion assumed) are LS_lin (pointwise A[i] = s*B[i] (mod m) => SUM A = s*SUM B (mod m)),
and the definitional unfolding of the last summand.
"""

import z3

from pyvc.builtins_model import SUM_fn, zlen
from pyvc.core import SV, PathEnd, SymObj, SymSeq, TBool, TInt, TOpaque, TStruct, Unsupported
from pyvc.interp import BuiltinVal, GenVal, I, StarSeq
from pyvc.task import Task, check_call

from .symmetries import SP
from .util import MOD, PAIR, SYMS, TUP2, norm, ok_scalar

CM = TOpaque("ChargeMap")
CSET = TOpaque("ChargeSet")
IX = TStruct("BIx", [("_chargemap", CM), ("_dual", TBool)], cls="abelian_core.BlockIndex")
S = SUM_fn()
cset_of = z3.Function("cset_of", CM.sort(), CSET.sort())
mem1 = z3.Function("mem1", CSET.sort(), z3.IntSort(), z3.BoolSort())
mem2 = z3.Function("mem2", CSET.sort(), TUP2.sort(), z3.BoolSort())


def ety(sym):
    return TUP2 if sym in PAIR else TInt


def comps_of_term(sym, t):
    return [TUP2.get(t, "f0"), TUP2.get(t, "f1")] if sym in PAIR else [t]


def folds(sym, arr, n):
    """component-wise ghost fold of a charge sequence"""
    if sym in PAIR:
        return [SP("f0")(arr, n), SP("f1")(arr, n)]
    return [S(arr, n)]


def mk_term(sym, comps):
    return TUP2.make(*comps) if sym in PAIR else comps[0]


def to_comps(sym, v):
    if sym in PAIR:
        return [I(v[0]), I(v[1])]
    return [I(v)]


def from_comps(sym, cs):
    if sym in PAIR:
        return (SV(z3.simplify(cs[0]), TInt), SV(z3.simplify(cs[1]), TInt))
    return SV(z3.simplify(cs[0]), TInt)


def mem(sym, cset, comps):
    return mem2(cset, TUP2.make(*comps)) if sym in PAIR else mem1(cset, comps[0])


def congr(sym, a, b):
    """a == b as charges, given integer components (a, b lists of unreduced ints)"""
    m = MOD[sym]
    if m is None:
        return z3.And(*[x == y for x, y in zip(a, b)])
    return z3.And(*[(x - y) % m == 0 for x, y in zip(a, b)])


class Model:
    """installs the contracts of the symmetry methods and records the fold arguments"""

    def __init__(self, it, sym):
        self.it, self.sym = it, sym
        self.combine_args = []
        s = SymObj(None, tag="symmetry")
        s.fields["sign"] = BuiltinVal("sym.sign", self.sign)
        s.fields["combine"] = BuiltinVal("sym.combine", self.combine)
        self.obj = s

    def sign(self, it, a, k):
        c = a[0]
        d = a[1] if len(a) > 1 else k.get("dual", True)
        dt = it.truth(d)
        dt = z3.BoolVal(dt) if isinstance(dt, bool) else dt
        cs = to_comps(self.sym, c)
        return from_comps(self.sym, [norm(self.sym, z3.If(dt, -x, x)) for x in cs])

    def combine(self, it, a, k):
        sym = self.sym
        if len(a) == 1 and isinstance(a[0], StarSeq):
            seq = a[0].seq
            self.combine_args.append(seq)
            return from_comps(sym, [norm(sym, f) for f in folds(sym, seq.arr, zlen(seq.length))])
        tot = [z3.IntVal(0)] * (2 if sym in PAIR else 1)
        for v in a:
            tot = [x + y for x, y in zip(tot, to_comps(sym, v))]
        return from_comps(sym, [norm(sym, x) for x in tot])


def mk_array(it, sym, model):
    ctx = it.ctx
    cls = it.get_class("abelian_core", "AbelianArray")
    n = ctx.fresh("ndim", TInt)
    ctx.assume(n >= 0)
    x = SymObj(cls, tag="x")
    inds = SymSeq(n, z3.Const("indices", z3.ArraySort(z3.IntSort(), IX.sort())), IX, "tuple")
    x.fields["_indices"] = inds
    x.fields["_symmetry"] = model.obj
    if sym in PAIR:
        c = [ctx.fresh("charge0", TInt), ctx.fresh("charge1", TInt)]
    else:
        c = [ctx.fresh("charge", TInt)]
    ctx.assume(z3.And(*[ok_scalar(sym, v) for v in c]))
    x.fields["_charge"] = from_comps(sym, c)
    it.summaries["abelian_core.BlockIndex.charges"] = lambda it_, a, k: SV(cset_of(IX.get(a[0].t, "_chargemap")), CSET)
    it.opaque_contains = {"ChargeSet": lambda it_, cont, v: mem(sym, cont.t, to_comps(sym, v))}
    return x, n, inds, c


def dual_at(inds, i):
    return IX.get(z3.Select(inds.arr, i), "_dual")


def signed_lambda(sym, seq_arr, inds, nm):
    """array  i |-> (-c_i if index i is dual else c_i)  (per component for pair symmetries; as a charge term)"""
    i = z3.Int(f"i!{nm}")
    cs = comps_of_term(sym, z3.Select(seq_arr, i))
    return z3.Lambda([i], mk_term(sym, [z3.If(dual_at(inds, i), -x, x) for x in cs]))


def lemma_LS_lin(it, sym, A, B, n, sgn, name):
    """(forall i in [0,n): A[i] == sgn*B[i] (mod m) componentwise) => SUM A == sgn*SUM B (mod m)"""
    j = z3.Int(f"j!{name}")
    a, b = comps_of_term(sym, z3.Select(A, j)), comps_of_term(sym, z3.Select(B, j))
    hyp = z3.ForAll([j], z3.Implies(z3.And(j >= 0, j < n), congr(sym, a, [sgn * y for y in b])))
    it.ctx.oblige(f"lemma.LS_lin.{name}.hypothesis", hyp)
    it.ctx.assume(congr(sym, folds(sym, A, n), [sgn * f for f in folds(sym, B, n)]))


def _is_valid_sector_task(sym):
    def body(it):
        model = Model(it, sym)
        x, n, inds, charge = mk_array(it, sym, model)
        sec = SymSeq(n, z3.Const("sector", z3.ArraySort(z3.IntSort(), ety(sym).sort())), ety(sym), "tuple")
        j = z3.Int("j!ok")
        it.ctx.assume(z3.ForAll([j], z3.Implies(z3.And(j >= 0, j < n), z3.And(*[ok_scalar(sym, v) for v in comps_of_term(sym, z3.Select(sec.arr, j))]))))
        spec_arr = signed_lambda(sym, sec.arr, inds, "spec")

        def post(r):
            if len(model.combine_args) != 1:
                return [("combines_signed_sector_once", False)]
            code_arr = model.combine_args[0]
            out = [("combines_all_entries", zlen(code_arr.length) == n)]
            lemma_LS_lin(it, sym, code_arr.arr, spec_arr, n, 1, "signed_sector")
            t = it.truth(r)
            t = z3.BoolVal(t) if isinstance(t, bool) else t
            out.append(("true_iff_signed_charges_combine_to_total_charge", t == congr(sym, folds(sym, spec_arr, n), charge)))
            return out

        check_call(it, f"is_valid_sector[{sym}]", it.getattr(x, "is_valid_sector"), [sec], post=post)

    return Task(
        f"C17.is_valid_sector.{sym}",
        ["C17", "C01"],
        ["abelian_core.AbelianArray.is_valid_sector"],
        body,
        assumes=["callee contracts of Symmetry.sign / combine (proved: contracts/symmetries.py)", "requires len(sector) == ndim (zip truncation otherwise)", "fold lemma LS_lin (Lean: contracts/lean)"],
    )


def _gen_valid_sectors_task(sym):
    Q = "abelian_core.AbelianArray.gen_valid_sectors"

    def body(it):
        ctx = it.ctx
        model = Model(it, sym)
        x, n, inds, charge = mk_array(it, sym, model)
        state = {"yields": []}

        def product_hook(it_, a, k):
            if not (len(a) == 1 and isinstance(a[0], StarSeq)):
                raise Unsupported("unexpected itertools.product call")
            sets = a[0].seq
            m = zlen(sets.length)
            p = SymSeq(sets.length, z3.Const("partial_sector", z3.ArraySort(z3.IntSort(), ety(sym).sort())), ety(sym), "tuple")
            jj = z3.Int("j!prod")
            cj = comps_of_term(sym, z3.Select(p.arr, jj))
            # an ARBITRARY element of the Cartesian product (A-builtins: product yields each tuple of the product exactly once)
            ctx.assume(z3.ForAll([jj], z3.Implies(z3.And(jj >= 0, jj < m), z3.And(mem(sym, z3.Select(sets.arr, jj), cj), *[ok_scalar(sym, v) for v in cj]))))
            state["partial"] = p
            state["sets"] = sets
            return [p]

        it.product_hook = product_hook

        def on_yield(it_, v):
            state["yields"].append(v)
            return None

        it.on_yield = on_yield
        g = it.call(it.getattr(x, "gen_valid_sectors"), [])
        ctx.oblige("gen_valid_sectors.is_generator", isinstance(g, GenVal))
        try:
            it.expand_generator(g)
        finally:
            it.on_yield = None
        ys = state["yields"]
        nm = f"gen_valid_sectors[{sym}]"
        if "partial" not in state:
            # rank-0 branch
            ctx.oblige(f"{nm}.rank0_branch_only_for_rank0", n == 0)
            zero = [z3.IntVal(0)] * len(charge)
            is_id = z3.And(*[c == z for c, z in zip(charge, zero)])
            ctx.oblige(f"{nm}.rank0_yields_empty_sector_iff_identity_charge", z3.BoolVal(len(ys) == 1 and ys[0] == ()) == is_id if len(ys) <= 1 else False)
            ctx.oblige(f"{nm}.rank0_at_most_one", len(ys) <= 1)
            return
        p = state["partial"]
        sets = state["sets"]
        ctx.oblige(f"{nm}.enumerates_product_of_all_but_last_index", z3.And(n >= 1, zlen(p.length) == n - 1))
        jj = z3.Int("j!sets")
        ctx.oblige(f"{nm}.product_over_index_charge_sets_in_order", z3.ForAll([jj], z3.Implies(z3.And(jj >= 0, jj < n - 1), z3.Select(sets.arr, jj) == cset_of(IX.get(z3.Select(inds.arr, jj), "_chargemap")))))
        last_set = cset_of(IX.get(z3.Select(inds.arr, n - 1), "_chargemap"))
        last_dual = dual_at(inds, n - 1)
        # the signed partial sum in the statement's orientation
        spec_partial = signed_lambda(sym, p.arr, inds, "sp")
        if len(model.combine_args) != 1:
            ctx.oblige(f"{nm}.one_variadic_combine_per_partial_sector", False)
            return
        code = model.combine_args[0]
        ctx.oblige(f"{nm}.partial_combine_covers_all_but_last", zlen(code.length) == n - 1)
        # code builds sign(c, not dual): pointwise the negation of the statement's signed charge
        lemma_LS_lin(it, sym, code.arr, spec_partial, n - 1, -1, "negated_partial")
        X = folds(sym, spec_partial, n - 1)

        def valid_with_last(rc):
            return congr(sym, [xx + z3.If(last_dual, -r, r) for xx, r in zip(X, rc)], charge)

        ctx.oblige(f"{nm}.at_most_one_sector_per_partial_sector", len(ys) <= 1)
        if len(ys) == 1:
            y = ys[0]
            ok = isinstance(y, SymSeq)
            ctx.oblige(f"{nm}.yields_tuple", ok and y.kind == "tuple")
            if not ok:
                return
            ctx.oblige(f"{nm}.sound.length", zlen(y.length) == n)
            ctx.oblige(f"{nm}.sound.prefix_is_partial_sector", z3.ForAll([jj], z3.Implies(z3.And(jj >= 0, jj < n - 1), z3.Select(y.arr, jj) == z3.Select(p.arr, jj))))
            r = comps_of_term(sym, z3.Select(y.arr, n - 1))
            ctx.oblige(f"{nm}.sound.last_charge_available", mem(sym, last_set, r))
            ctx.oblige(f"{nm}.sound.conserves_total_charge", valid_with_last(r))
            ctx.oblige(f"{nm}.sound.last_charge_canonical", z3.And(*[ok_scalar(sym, v) for v in r]))
        # completeness + uniqueness: any available last charge that makes the sector valid is the one yielded
        rp = [ctx.fresh(f"r_any{i}", TInt) for i in range(len(charge))]
        hyp = z3.And(mem(sym, last_set, rp), *[ok_scalar(sym, v) for v in rp], valid_with_last(rp))
        if len(ys) == 1 and isinstance(ys[0], SymSeq):
            r = comps_of_term(sym, z3.Select(ys[0].arr, n - 1))
            ctx.oblige(f"{nm}.complete_and_unique.valid_last_charge_is_the_yielded_one", z3.Implies(hyp, z3.And(*[a == b for a, b in zip(r, rp)])))
        else:
            ctx.oblige(f"{nm}.complete.no_valid_last_charge_when_nothing_yielded", z3.Not(hyp))

    return Task(
        f"C17.gen_valid_sectors.{sym}",
        ["C17", "C01", "C16"],
        [Q],
        body,
        assumes=[
            "A-builtins: itertools.product(*sets) yields every tuple of the Cartesian product exactly once (the loop body is verified for an arbitrary such tuple)",
            "callee contracts of Symmetry.sign / combine (proved: contracts/symmetries.py)",
            "fold lemma LS_lin (Lean: contracts/lean)",
            "Valid indices: every available charge is a canonical charge of the symmetry",
        ],
    )


def _init_charge_task(sym):
    """AbelianArray.__init__: charge=None is inferred from the first stored sector (signed
    combination, so that the stored sector conserves it) or is the identity when empty;
    an explicit charge is kept."""
    Q = "abelian_core.AbelianArray.__init__"

    def body(it):
        ctx = it.ctx
        model = Model(it, sym)
        x, n, inds, charge = mk_array(it, sym, model)
        cls = it.get_class("abelian_core", "AbelianArray")
        it.summaries["abelian_core.AbelianArray.get_class_symmetry"] = lambda it_, a, k: model.obj
        sec = SymSeq(n, z3.Const("sector", z3.ArraySort(z3.IntSort(), ety(sym).sort())), ety(sym), "tuple")
        j = z3.Int("j!ok")
        ctx.assume(z3.ForAll([j], z3.Implies(z3.And(j >= 0, j < n), z3.And(*[ok_scalar(sym, v) for v in comps_of_term(sym, z3.Select(sec.arr, j))]))))
        spec_arr = signed_lambda(sym, sec.arr, inds, "spec")
        blk = SymObj(None, {}, tag="block")
        # (a) inferred from the first sector
        model.combine_args.clear()
        obj = it.instantiate(cls, [], {"indices": inds, "blocks": {sec: blk}, "symmetry": "tok"})
        got = obj.fields.get("_charge")
        if len(model.combine_args) == 1:
            lemma_LS_lin(it, sym, model.combine_args[0].arr, spec_arr, n, 1, "first_sector")
            ctx.oblige(f"AbelianArray.__init__[{sym}].inferred_charge_is_conserved_by_first_sector", congr(sym, folds(sym, spec_arr, n), to_comps(sym, got)))
            ctx.oblige(f"AbelianArray.__init__[{sym}].inferred_charge_canonical", z3.And(*[ok_scalar(sym, v) for v in to_comps(sym, got)]))
        else:
            ctx.oblige(f"AbelianArray.__init__[{sym}].infers_from_first_sector", False)
        ctx.oblige(f"AbelianArray.__init__[{sym}].blocks_copied_into_new_dict", isinstance(obj.fields.get("_blocks"), dict) and list(obj.fields["_blocks"].items()) == [(sec, blk)])
        # (b) no blocks: identity
        obj2 = it.instantiate(cls, [], {"indices": inds, "symmetry": "tok"})
        ctx.oblige(f"AbelianArray.__init__[{sym}].empty_array_gets_identity_charge", z3.And(*[v == 0 for v in to_comps(sym, obj2.fields.get("_charge"))]))
        # (c) explicit charge kept
        given = from_comps(sym, charge)
        obj3 = it.instantiate(cls, [], {"indices": inds, "charge": given, "blocks": {sec: blk}, "symmetry": "tok"})
        ctx.oblige(f"AbelianArray.__init__[{sym}].explicit_charge_kept", obj3.fields.get("_charge") is given)

    return Task(f"C16.AbelianArray.__init__.charge.{sym}", ["C16", "C01"], [Q], body, assumes=["callee contracts of Symmetry.sign / combine", "fold lemma LS_lin"])


def tasks():
    out = []
    for sym in SYMS:
        out.append(_init_charge_task(sym))
        out.append(_is_valid_sector_task(sym))
        out.append(_gen_valid_sectors_task(sym))
    return out
