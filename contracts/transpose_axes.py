"""Sidecar contract for AbelianArray.transpose with CONCRETE axes (C08, C02, C14, C01): every permutation of rank 2 and
3 (rank 4: a sample) in every spelling -- each axis given from the front or counted from the end (numpy convention) --
plus the default.  Complements contracts/abelian_ops.py, where the permutation is an opaque bijection.

  p = the permutation the spelling denotes (axis % ndim)
  keys(result) == { (s[p[0]], ..., s[p[-1]]) : s stored };  result[s o p] == numpy.transpose(block(s), axes as given)
  indices == (indices[p[0]], ...);  charge unchanged;  in place: receiver returned, out of place: operand untouched.
"""

import itertools

import z3

from pyvc.core import SV, SymDict, SymObj, Unsupported
from pyvc.interp import BuiltinVal
from pyvc.task import Task, check_call, thorough

from .dims import BLK, KT, install, mk_array

TR = {}


def tr_fn(p):
    if p not in TR:
        TR[p] = z3.Function("np_transpose" + repr(p).replace(" ", ""), BLK.sort(), BLK.sort())
    return TR[p]


def spellings(nd):
    perms = list(itertools.permutations(range(nd)))
    out = []
    for ip, p in enumerate(perms):
        masks = range(2**nd) if nd <= 3 else [0, 2**nd - 1, (5 * ip + 3) % 2**nd]
        for m in masks:
            if nd == 3 and not thorough() and m not in (0, 7) and (ip + m) % 3:
                continue
            out.append((p, tuple(ax - nd if (m >> i) & 1 else ax for i, ax in enumerate(p))))
    return out


def _task(nd, cases, inplace, label):
    def body(it):
        install(it)
        ctx = it.ctx
        p, axes = cases[ctx.decide(len(cases), None, "axes")]
        x, bl, idx, ch = mk_array(it, nd)
        B0 = (bl.has, bl.val)
        K = KT(nd)
        inv = [p.index(j) for j in range(nd)]

        def rekey_inverse(it_, kv, s, k2):
            return K.make(*[K.get(k2, f"f{inv[j]}") for j in range(nd)])

        it.rekey_inverse = rekey_inverse

        def get_lib_fn(it_, a, k):
            if a[1] != "transpose":
                raise Unsupported(f"get_lib_fn {a[1]!r}")

            def call(i2, a2, k2):
                ax = a2[1] if len(a2) > 1 else k2.get("axes")
                if not (isinstance(ax, tuple) and all(isinstance(z, int) for z in ax) and len(ax) == nd and tuple(z % nd for z in ax) == p):
                    raise Unsupported("numpy.transpose called with axes that do not denote the requested permutation")
                return SV(tr_fn(p)(a2[0].t), BLK)

            return BuiltinVal("np.transpose", call)

        it.externals["ar.get_lib_fn"] = get_lib_fn
        it.summaries["block_core.BlockBase.backend"] = lambda it_, a, k: "numpy"
        m, _ = x.cls.lookup("transpose")
        tag = f"transpose[ndim={nd},axes={axes},inplace={inplace}]".replace(" ", "")

        def post(r):
            ok = isinstance(r, SymObj)
            out = [("returns_an_array", ok)]
            if not ok:
                return out
            rb = r.fields["_blocks"]
            okb = isinstance(rb, SymDict) and rb.kty == K
            out.append(("result_sectors_have_the_same_rank", okb))
            if okb:
                s, k2 = z3.Const("s!tp", K.sort()), z3.Const("k!tp", K.sort())
                fwd = K.make(*[K.get(s, f"f{p[i]}") for i in range(nd)])
                back = K.make(*[K.get(k2, f"f{inv[j]}") for j in range(nd)])
                out += [
                    ("stored_sectors_are_exactly_the_permuted_ones", z3.ForAll([k2], z3.Select(rb.has, k2) == z3.Select(B0[0], back))),
                    ("block_of_the_permuted_sector_is_the_transposed_block", z3.ForAll([s], z3.Implies(z3.Select(B0[0], s), z3.Select(rb.val, fwd) == tr_fn(p)(z3.Select(B0[1], s))))),
                ]
            inds = r.fields["_indices"]
            out.append(("indices_permuted", isinstance(inds, tuple) and len(inds) == nd and all(inds[i] is idx[p[i]] for i in range(nd))))
            out.append(("charge_kept", isinstance(r.fields["_charge"], SV) and z3.eq(r.fields["_charge"].t, ch)))
            if inplace:
                out.append(("in_place_returns_the_receiver", r is x))
            else:
                out += [("out_of_place_returns_a_new_array", r is not x), ("operand_blocks_untouched", x.fields["_blocks"] is bl and z3.And(bl.has == B0[0], bl.val == B0[1])), ("operand_indices_untouched", x.fields["_indices"] == idx)]
            return out

        args = [x] if axes is None else [x, axes]
        check_call(it, tag, m, args, {"inplace": inplace}, post=post)

    return Task(
        f"C08.AbelianArray.transpose.concrete_axes.ndim{nd}.{label}.inplace_{inplace}",
        ["C08", "C02", "C14", "C01", "C03"],
        ["abelian_core.AbelianArray.transpose", "abelian_core.permuted", "abelian_core.AbelianArray.modify", "abelian_core.AbelianArray.copy"],
        body,
        bounded_rank=f"rank {nd}; every listed spelling of the axes (front / end counted); blocks, sectors, tables symbolic",
        assumes=["A-numpy: numpy.transpose(block, axes) uninterpreted per permutation (numpy normalises negative axes)"],
    )


def tasks():
    out = []
    for nd in (2, 3, 4):
        sp = spellings(nd)
        default = [(tuple(range(nd - 1, -1, -1)), None)]
        for inplace in (False, True):
            out.append(_task(nd, sp + default, inplace, "all"))
    return out
