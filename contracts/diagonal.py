"""Sidecar contract for AbelianArray.multiply_diagonal (C08, C14, C01):
  keys' = {s in keys(x) : s[axis] in keys(v)},  blocks'[s] = blocks[s] * reshape(v[s[axis]]),
  v never modified, x only when inplace.  The per-charge caching of the reshaped vector block
  must be transparent (the order in which sectors are visited is arbitrary in the model)."""

import z3

from pyvc.builtins_model import LoopSpec, zlen
from pyvc.core import SV, SymDict, SymList, SymObj, SymSeq, TInt, TOpaque, Unsupported
from pyvc.interp import BuiltinVal, I
from pyvc.task import Task, check_call

from .arrays import BLK, SEC, Snapshot, block_axioms, fresh_dict, fresh_result_clauses, install_hooks, mk_farray, sec_at

VB = TOpaque("VecBlock")
RB = TOpaque("ReshapedVecBlock")
SHP = TOpaque("Shape")
rs = z3.Function("np_reshape", VB.sort(), SHP.sort(), RB.sort())
mulf = z3.Function("np_mul", BLK.sort(), RB.sort(), BLK.sort())
pos = z3.Function("sorted_pos", SEC.sort(), z3.IntSort())
Q = "abelian_core.AbelianArray.multiply_diagonal"


def _task(inplace):
    def body(it):
        install_hooks(it)
        ctx = it.ctx
        x = mk_farray(it, "x", fermionic=False)
        nd = ctx.fresh("ndim", TInt)
        ctx.assume(nd >= 1)
        x.fields["_indices"] = SymObj(None, {"$len": SV(nd, TInt)}, tag="indices")
        snap = Snapshot(x)
        B0 = (x.fields["_blocks"].has, x.fields["_blocks"].val)
        vcls = it.get_class("block_core", "BlockVector")
        v = SymObj(vcls, tag="v")
        v.fields["_blocks"] = fresh_dict(it, "v_blocks", TInt, VB)
        vsnap = Snapshot(v)
        V0 = (v.fields["_blocks"].has, v.fields["_blocks"].val)
        axis = ctx.fresh("axis", TInt)
        ctx.assume(z3.And(axis >= 0, axis < nd))
        shape_tok = z3.Const("new_shape", SHP.sort())
        it.summaries["block_core.BlockBase.backend"] = lambda it_, a, k: "numpy"

        def get_lib_fn(it_, a, k):
            if a[1] != "reshape":
                raise Unsupported("unexpected lib fn")
            return BuiltinVal("np.reshape", lambda i2, a2, k2: SV(rs(a2[0].t, shape_tok), RB))

        it.externals["ar.get_lib_fn"] = get_lib_fn

        def binop_hook(it_, op, a, b):
            import ast as _ast

            if op is _ast.Mult and isinstance(a, SV) and a.ty == BLK and isinstance(b, SV) and b.ty == RB:
                return SV(mulf(a.t, b.t), BLK)
            return None

        it.binop_hook = binop_hook
        n = ctx.fresh("n_sectors", TInt)
        ctx.assume(n >= 0)
        srt = z3.Const("sorted_sectors", z3.ArraySort(z3.IntSort(), SEC.sort()))
        j, s = z3.Int("j!srt"), z3.Const("s!srt", SEC.sort())
        # contract of sorted(x.sectors, key=...): a listing of the stored sectors, each exactly once
        # (A-builtins; the ORDER is left arbitrary: the contract below must hold for every order)
        ctx.assume(z3.ForAll([j], z3.Implies(z3.And(j >= 0, j < n), z3.And(z3.Select(B0[0], z3.Select(srt, j)), pos(z3.Select(srt, j)) == j))))
        ctx.assume(z3.ForAll([s], z3.Implies(z3.Select(B0[0], s), z3.And(pos(s) >= 0, pos(s) < n, z3.Select(srt, pos(s)) == s))))
        it.builtins["sorted"].fn = (lambda orig: (lambda it_, a, k: SymList(n, srt, SEC) if "key" in k else orig(it_, a, k)))(it.builtins["sorted"].fn)

        def c_of(t):
            return sec_at(t, axis)

        def inv(it_, env, g):
            k = g["k"]
            xx = env.vars["x"]
            bl = xx.fields["_blocks"]
            vc, vb = env.vars["v_charge"], env.vars.get("v_block")
            t = z3.Const("s!inv", SEC.sort())
            done = z3.And(z3.Select(B0[0], t), pos(t) < k)
            out = [
                ("processed_sectors_scaled_or_dropped", z3.ForAll([t], z3.Implies(done, z3.And(z3.Select(bl.has, t) == z3.Select(V0[0], c_of(t)), z3.Implies(z3.Select(V0[0], c_of(t)), z3.Select(bl.val, t) == mulf(z3.Select(B0[1], t), rs(z3.Select(V0[1], c_of(t)), shape_tok))))))),
                ("other_sectors_untouched", z3.ForAll([t], z3.Implies(z3.Not(done), z3.And(z3.Select(bl.has, t) == z3.Select(B0[0], t), z3.Select(bl.val, t) == z3.Select(B0[1], t))))),
            ]
            if vc is None:
                out.append(("no_cached_charge_only_before_first_sector", k == 0))
            else:
                c = I(vc)
                if vb is None:
                    out.append(("cached_none_iff_vector_lacks_cached_charge", z3.Not(z3.Select(V0[0], c))))
                else:
                    out.append(("cached_block_is_reshaped_vector_block_of_cached_charge", z3.And(z3.Select(V0[0], c), vb.t == rs(z3.Select(V0[1], c), shape_tok))))
            return out

        it.loop_specs[(Q, 0)] = LoopSpec(carried={"v_charge": ("optional", "int"), "v_block": ("optional", RB)}, cells=[lambda env: env.vars["x"].fields["_blocks"]], invariant=inv)

        def post(res):
            out = []
            if inplace:
                out.append(("inplace_returns_receiver", res is x))
            else:
                out += fresh_result_clauses(res, x, snap)
                out += [("operand_" + nm, t) for nm, t in snap.unchanged()]
            out += [("vector_" + nm, t) for nm, t in vsnap.unchanged()]
            if isinstance(res, SymObj):
                rb = res.fields["_blocks"]
                t = z3.Const("s!post", SEC.sort())
                out += [
                    ("keeps_exactly_sectors_whose_axis_charge_is_in_vector", z3.ForAll([t], z3.Select(rb.has, t) == z3.And(z3.Select(B0[0], t), z3.Select(V0[0], c_of(t))))),
                    ("kept_blocks_scaled_by_their_charges_vector_block", z3.ForAll([t], z3.Implies(z3.And(z3.Select(B0[0], t), z3.Select(V0[0], c_of(t))), z3.Select(rb.val, t) == mulf(z3.Select(B0[1], t), rs(z3.Select(V0[1], c_of(t)), shape_tok))))),
                ]
            return out

        check_call(it, f"multiply_diagonal[inplace={inplace}]", it.getattr(x, "multiply_diagonal"), [v, SV(axis, TInt)], {"inplace": inplace}, post=post)

    return Task(
        f"C08.multiply_diagonal.inplace_{inplace}",
        ["C08", "C14", "C01"],
        [Q],
        body,
        axioms=block_axioms,
        assumes=["A-builtins: sorted(sectors, key=...) lists every stored sector exactly once (order abstracted to arbitrary)", "A-numpy: reshape / broadcasting multiply are pure functions of their arguments"],
    )


def tasks():
    return [_task(False), _task(True)]
