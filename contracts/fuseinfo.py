"""Sidecar contract for abelian_core.calc_fuse_group_info (C05, C06): pure bookkeeping over
axis numbers.  Proved for EVERY ordered family of disjoint non-empty groups of an array
with ndim <= 4 (the directions are symbolic booleans) -- a rank-bounded proof, complete
up to that bound; the bound is the only assumption.

Spec (from the property statement): the fused axes are inserted, in the order the groups
are given, at the position of the lowest fused axis; ungrouped axes keep their relative
order before / after; the fused direction of a group is the direction of its FIRST axis.
"""

import itertools

import z3

from pyvc.core import SV, TBool
from pyvc.task import Task, thorough

MAXDIM = 4
Q = "abelian_core.calc_fuse_group_info"


def families(ndim):
    """all ordered families of disjoint non-empty ordered groups over range(ndim)"""
    out = []
    axes = list(range(ndim))
    for k in range(1, ndim + 1):
        for sub in itertools.permutations(axes, k):
            # split the ordered selection into consecutive non-empty groups
            for cuts in range(2 ** (k - 1)):
                groups, cur = [], [sub[0]]
                for i in range(1, k):
                    if (cuts >> (i - 1)) & 1:
                        groups.append(tuple(cur))
                        cur = []
                    cur.append(sub[i])
                groups.append(tuple(cur))
                out.append(tuple(groups))
    return out


def spec(groups, ndim):
    grouped = {ax: g for g, gr in enumerate(groups) for ax in gr}
    position = min(grouped)
    before = tuple(ax for ax in range(ndim) if ax not in grouped and ax < position)
    after = tuple(ax for ax in range(ndim) if ax not in grouped and ax >= position)
    perm = before + tuple(ax for gr in groups for ax in gr) + after
    new_axes = {}
    for i, ax in enumerate(before):
        new_axes[ax] = i
    for g, gr in enumerate(groups):
        for ax in gr:
            new_axes[ax] = len(before) + g
    for i, ax in enumerate(after):
        new_axes[ax] = len(before) + len(groups) + i
    return {
        "num_groups": len(groups),
        "group_singlets": [g for g, gr in enumerate(groups) if len(gr) == 1],
        "new_ndim": len(before) + len(groups) + len(after),
        "perm": perm,
        "position": position,
        "axes_before": before,
        "axes_after": after,
        "ax2group": {ax: grouped.get(ax) for ax in range(ndim)},
        "first_axis": [gr[0] for gr in groups],
        "new_axes": new_axes,
    }


def _task(ndim):
    def body(it):
        fn = it.module_lookup("abelian_core", "calc_fuse_group_info")
        d = [z3.Bool(f"dual{i}") for i in range(ndim)]
        duals = tuple(SV(x, TBool) for x in d)
        for groups in families(ndim):
            r = it.call(fn, [groups, duals])
            nm = f"calc_fuse_group_info[ndim={ndim},groups={groups}]".replace(" ", "")
            ok_shape = isinstance(r, tuple) and len(r) == 10
            if not ok_shape:
                it.ctx.oblige(nm + ".returns_ten_fields", False)
                continue
            num_groups, singlets, new_ndim, perm, position, before, after, ax2group, group_duals, new_axes = r
            s = spec(groups, ndim)
            structural = (
                num_groups == s["num_groups"]
                and list(singlets) == s["group_singlets"]
                and new_ndim == s["new_ndim"]
                and tuple(perm) == s["perm"]
                and position == s["position"]
                and tuple(before) == s["axes_before"]
                and tuple(after) == s["axes_after"]
                and dict(ax2group) == s["ax2group"]
                and dict(new_axes) == s["new_axes"]
            )
            it.ctx.oblige(nm + ".axis_bookkeeping", bool(structural))
            okd = len(group_duals) == len(groups)
            it.ctx.oblige(nm + ".one_direction_per_group", okd)
            if okd:
                terms = [it.unwrap(gd, TBool) == d[fa] for gd, fa in zip(group_duals, s["first_axis"])]
                it.ctx.oblige(nm + ".fused_direction_is_that_of_first_axis", z3.And(*terms))

    return Task(f"C05.calc_fuse_group_info.ndim{ndim}", ["C05", "C06"], [Q], body, bounded_rank=f"every ordered family of disjoint groups for ndim = {ndim} (ndim <= {MAXDIM} overall), directions symbolic")


def tasks():
    return [_task(n) for n in range(1, MAXDIM + 1 + (1 if thorough() else 0))]
