"""Sidecar contract for block_core.BlockBase._binary_blockwise_op (C08, C14) and the
fermionic wrapper FermionicArray._binary_blockwise_op (C09).

Key-set algebra (from the property statement: the block form of the dense operation
where an absent block is zero):
  missing=None    : key sets equal or ValueError;  result[s] = fn(x[s], y[s])
  missing="outer" : keys' = keys(x) | keys(y);  fn on the intersection, lone operand elsewhere
  missing="inner" : keys' = keys(x) & keys(y);  fn on the intersection
Frame: `other` is never modified; `self` only when inplace.
"""

import z3

from pyvc.builtins_model import LoopSpec
from pyvc.core import SV, SymDict, SymObj, TInt
from pyvc.interp import BuiltinVal
from pyvc.task import Task, check_call

from .arrays import BLK, SEC, Snapshot, block_axioms, eff, fresh_dict, fresh_result_clauses, install_hooks, mk_farray, smul

Q = "block_core.BlockBase._binary_blockwise_op"
FN = z3.Function("FN", BLK.sort(), BLK.sort(), BLK.sort())


def sv(n):
    return z3.Const(n, SEC.sort())


def fn_val(it):
    return BuiltinVal("fn", lambda it_, a, k: SV(FN(a[0].t, a[1].t), BLK))


def mk_vector(it, name):
    cls = it.get_class("block_core", "BlockVector")
    v = SymObj(cls, tag=name)
    v.fields["_blocks"] = fresh_dict(it, name + "_blocks", SEC, BLK)
    return v


def _specs(it, X0, Y0):
    """loop invariants of the three loops (ordinals 0: strict, 1: outer, 2: inner)"""

    def common(env, g):
        xy, oth = env.vars["xy_blocks"], env.vars["other_blocks"]
        return xy, oth, g["vis"], sv("s!inv")

    def inv_strict(it_, env, g):
        xy, oth, vis, s = common(env, g)
        return [
            ("keys_fixed", z3.ForAll([s], z3.Select(xy.has, s) == z3.Select(X0[0], s))),
            ("visited_combined", z3.ForAll([s], z3.Implies(z3.Select(vis, s), z3.And(z3.Select(xy.val, s) == FN(z3.Select(X0[1], s), z3.Select(Y0[1], s)), z3.Select(Y0[0], s), z3.Not(z3.Select(oth.has, s)))))),
            ("unvisited_untouched", z3.ForAll([s], z3.Implies(z3.Not(z3.Select(vis, s)), z3.And(z3.Select(xy.val, s) == z3.Select(X0[1], s), z3.Select(oth.has, s) == z3.Select(Y0[0], s))))),
            ("right_values_fixed", z3.ForAll([s], z3.Select(oth.val, s) == z3.Select(Y0[1], s))),
        ]

    def inv_outer(it_, env, g):
        xy, oth, vis, s = common(env, g)
        both = z3.And(z3.Select(X0[0], s), z3.Select(Y0[0], s))
        return [
            ("keys_fixed", z3.ForAll([s], z3.Select(xy.has, s) == z3.Select(X0[0], s))),
            ("visited", z3.ForAll([s], z3.Implies(z3.Select(vis, s), z3.And(z3.Select(xy.val, s) == z3.If(z3.Select(Y0[0], s), FN(z3.Select(X0[1], s), z3.Select(Y0[1], s)), z3.Select(X0[1], s)), z3.Not(z3.Select(oth.has, s)))))),
            ("unvisited_untouched", z3.ForAll([s], z3.Implies(z3.Not(z3.Select(vis, s)), z3.And(z3.Select(xy.val, s) == z3.Select(X0[1], s), z3.Select(oth.has, s) == z3.Select(Y0[0], s))))),
            ("right_values_fixed", z3.ForAll([s], z3.Select(oth.val, s) == z3.Select(Y0[1], s))),
        ]

    def inv_inner(it_, env, g):
        xy, oth, vis, s = common(env, g)
        return [
            ("visited", z3.ForAll([s], z3.Implies(z3.Select(vis, s), z3.And(z3.Select(xy.has, s) == z3.Select(Y0[0], s), z3.Implies(z3.Select(Y0[0], s), z3.Select(xy.val, s) == FN(z3.Select(X0[1], s), z3.Select(Y0[1], s))))))),
            ("unvisited_untouched", z3.ForAll([s], z3.Implies(z3.Not(z3.Select(vis, s)), z3.And(z3.Select(xy.has, s) == z3.Select(X0[0], s), z3.Select(xy.val, s) == z3.Select(X0[1], s), z3.Select(oth.has, s) == z3.Select(Y0[0], s))))),
            ("right_values_fixed", z3.ForAll([s], z3.Select(oth.val, s) == z3.Select(Y0[1], s))),
        ]

    cells = {"xy_blocks": "inplace", "other_blocks": "inplace"}
    return {
        0: LoopSpec(carried=dict(cells), invariant=inv_strict),
        1: LoopSpec(carried=dict(cells), invariant=inv_outer),
        2: LoopSpec(carried=dict(cells), invariant=inv_inner),
    }


def result_clauses(res, X0, Y0, missing):
    rb = res.fields["_blocks"]
    s = sv("s!post")
    inX, inY = z3.Select(X0[0], s), z3.Select(Y0[0], s)
    f = FN(z3.Select(X0[1], s), z3.Select(Y0[1], s))
    if missing is None:
        return [
            ("key_sets_were_equal", z3.ForAll([s], inX == inY)),
            ("result_keys", z3.ForAll([s], z3.Select(rb.has, s) == inX)),
            ("result_values", z3.ForAll([s], z3.Implies(inX, z3.Select(rb.val, s) == f))),
        ]
    if missing == "outer":
        return [
            ("result_keys_are_union", z3.ForAll([s], z3.Select(rb.has, s) == z3.Or(inX, inY))),
            ("result_values", z3.ForAll([s], z3.Implies(z3.Or(inX, inY), z3.Select(rb.val, s) == z3.If(z3.And(inX, inY), f, z3.If(inX, z3.Select(X0[1], s), z3.Select(Y0[1], s)))))),
        ]
    return [
        ("result_keys_are_intersection", z3.ForAll([s], z3.Select(rb.has, s) == z3.And(inX, inY))),
        ("result_values", z3.ForAll([s], z3.Implies(z3.And(inX, inY), z3.Select(rb.val, s) == f))),
    ]


def _task(kind, missing, inplace):
    def body(it):
        install_hooks(it)
        if kind == "array":
            x, y = mk_farray(it, "x", fermionic=False), mk_farray(it, "y", fermionic=False)
        else:
            x, y = mk_vector(it, "x"), mk_vector(it, "y")
        sx, sy = Snapshot(x), Snapshot(y)
        X0 = (x.fields["_blocks"].has, x.fields["_blocks"].val)
        Y0 = (y.fields["_blocks"].has, y.fields["_blocks"].val)
        for o, sp in _specs(it, X0, Y0).items():
            it.loop_specs[(Q, o)] = sp

        def post(res):
            out = []
            if inplace:
                out.append(("inplace_returns_receiver", res is x))
            else:
                out += fresh_result_clauses(res, x, sx)
                out += [("left_operand_" + n, t) for n, t in sx.unchanged()]
            out += [("right_operand_" + n, t) for n, t in sy.unchanged()]
            if isinstance(res, SymObj):
                out += result_clauses(res, X0, Y0, missing)
                if kind == "array":
                    for f in ("_indices", "_charge", "_symmetry"):
                        a, b = res.fields.get(f), sx.vals.get(f)
                        out.append((f"result{f}_same", (a.t == b.t) if isinstance(a, SV) and isinstance(b, SV) else a is b))
            return out

        s = sv("s!r")
        differ = z3.Not(z3.ForAll([s], z3.Select(X0[0], s) == z3.Select(Y0[0], s)))
        raises = {"ValueError": differ} if missing is None else {}
        kw = {"fn": fn_val(it), "inplace": inplace}
        if missing is not None:
            kw["missing"] = missing
        res, exc = check_call(it, f"_binary_blockwise_op[{kind},missing={missing},inplace={inplace}]", it.getattr(x, "_binary_blockwise_op"), [y], kw, post=post, raises=raises)
        if exc is not None:
            # the right operand must be untouched also when the call raises
            for n, t in sy.unchanged():
                it.ctx.oblige(f"_binary_blockwise_op[{kind},missing={missing},inplace={inplace}].on_raise_right_operand_{n}", t)

    tg = [Q, "abelian_core.AbelianArray.copy"] if kind == "array" else [Q, "block_core.BlockBase.copy", "block_core.BlockBase.__init__"]
    return Task(f"C08.binary_blockwise.{kind}.{missing}.inplace_{inplace}", ["C08", "C14"], tg, body, axioms=block_axioms, assumes=["fn is a pure function of the two blocks (numpy elementwise operator: A-numpy)"])


def _dunder_task():
    """__add__/__sub__/__mul__ select the documented missing-mode (outer / strict / inner)."""

    def body(it):
        install_hooks(it)
        x, y = mk_farray(it, "x", fermionic=False), mk_farray(it, "y", fermionic=False)
        seen = {}

        def summary(it_, a, k):
            seen["args"] = (a, k)
            return a[0]

        it.summaries[Q] = summary
        import ast as _ast

        cls = it.get_class("block_core", "BlockBase")
        for dunder, opname, want_missing, want_inplace in [
            ("__add__", "add", "outer", False),
            ("__iadd__", "add", "outer", True),
            ("__sub__", "sub", None, False),
            ("__isub__", "sub", None, True),
            ("__mul__", "mul", "inner", False),
            ("__imul__", "mul", "inner", True),
        ]:
            seen.clear()
            m, _ = cls.lookup(dunder)
            it.call(m, [x, y])
            a, k = seen.get("args", ([], {}))
            fnv = k.get("fn")
            it.ctx.oblige(f"BlockBase.{dunder}.delegates_to_blockwise_op", bool(a) and a[0] is x and a[1] is y)
            it.ctx.oblige(f"BlockBase.{dunder}.missing_mode_is_{want_missing}", k.get("missing", None) == want_missing)
            it.ctx.oblige(f"BlockBase.{dunder}.inplace_is_{want_inplace}", bool(k.get("inplace", False)) == want_inplace)
            it.ctx.oblige(f"BlockBase.{dunder}.operator_is_{opname}", getattr(fnv, "name", "") == f"operator.{ {'add': 'Add', 'sub': 'Sub', 'mul': 'Mult'}[opname] }")

    return Task("C08.BlockBase.arithmetic_dispatch", ["C08"], ["block_core.BlockBase." + d for d in ("__add__", "__iadd__", "__sub__", "__isub__", "__mul__", "__imul__")], body)


def tasks():
    out = []
    for kind in ("array", "vector"):
        for missing in (None, "outer", "inner"):
            for inplace in (False, True):
                out.append(_task(kind, missing, inplace))
    out.append(_dunder_task())
    return out
