"""Sidecar contract for the per-block part of abelian_core.calc_fuse_block_info (C05, C06): the first loop,
which decides for every stored block where it goes when axes are fused.

Instances (rank-bounded): arrays of rank 2 .. 4 with a CONCRETE family of axis groups (all axes in one group in
every order; one group plus free axes before / after it; two groups; a group next to a single-axis group),
symmetries Z2 / Z4 / U1 -- the list is in `instances()`; any number of stored blocks, any charge tables,
symbolic directions.  The real function is interpreted from its first statement (with the real
calc_fuse_group_info, Symmetry.sign / combine, BlockIndex.size_of) until the first loop has been left; the
accumulation into charge tables and extents that follows (a dict of dicts) is NOT interpreted here -- bounded
tier C05.

Contract (from the property statement: "the fused axes are inserted, in the order the groups are given, at the
position of the lowest fused axis; the fused charge of a block is the combination of its charges, each counted
with the direction of its axis relative to the fused direction, which is that of the first axis of the group;
blocks are laid out in the order of the group"):  for every stored sector s

  blockmap[s] = ( shape', sector', subsectors )   with, for every new axis j
       j an unfused axis / a single-axis group of old axis a:   shape'[j] = size_a(s[a]),   sector'[j] = s[a]
       j the fused axis of group g = (a_0, ..., a_k):            shape'[j] = prod_i size_{a_i}(s[a_i])
                                                                 sector'[j] = F_g(s)
       subsectors[g] = (s[a_0], ..., s[a_k])  in GROUP order
  F_g(s) = normalise( sum_i  (+1 if dual(a_i) == dual(a_0) else -1) * s[a_i] )
  every fused group's sub-sector table maps exactly the sub-sectors of stored blocks to (F_g, size); blockmap has
  exactly the stored sectors; the (axis, charge) memo only ever holds correct entries.
"""

import itertools

import z3

from pyvc.builtins_model import OPTINT, LoopSpec, opt_none, opt_some
from pyvc.core import SV, KeyIter, PathEnd, SymDict, SymObj, TBool, TInt, TStruct, Unsupported
from pyvc.interp import BuiltinVal
from pyvc.task import Task, check_call, thorough

from .fuseinfo import spec as group_spec
from .linalg_bonds import mk_index
from .util import norm, ok_scalar, sym_obj

Q = "abelian_core.calc_fuse_block_info"
MULI = z3.Function("int_mul", z3.IntSort(), z3.IntSort(), z3.IntSort())
_types = {}


def exact_mul():
    a, b = z3.Ints("a!em b!em")
    return [z3.ForAll([a, b], MULI(a, b) == a * b)]


def _named(name, types):
    """distinct sorts for distinct roles (structurally equal tuple types would share one sort and make the
    quantified invariants about sector keys, memo keys and table entries interfere in the solver)"""
    if name not in _types:
        _types[name] = TStruct(name, [(f"f{i}", t) for i, t in enumerate(types)])
    return _types[name]


def _task(sym, nd, groups):
    gi = group_spec(groups, nd)
    new_ndim, position, new_axes = gi["new_ndim"], gi["position"], gi["new_axes"]
    ax2g = gi["ax2group"]
    singlets = set(gi["group_singlets"])
    fusedg = [g for g in range(len(groups)) if g not in singlets]
    tag = "_".join("".join(map(str, g)) for g in groups)
    KT = _named(f"TupSector{nd}", [TInt] * nd)
    SH = _named(f"TupShape{new_ndim}", [TInt] * new_ndim)
    NS = _named(f"TupNewSector{new_ndim}", [TInt] * new_ndim)
    SUBg = [_named(f"TupSub{len(g)}of{k}", [TInt] * len(g)) for k, g in enumerate(groups)]
    SUBS = _named(f"TupSubs{nd}_" + tag, SUBg)
    BM = _named(f"TupBlockmap{nd}_" + tag, [SH, NS, SUBS])
    SI = _named("TupChargeSize", [TInt, TInt])
    LK = _named("TupAxisCharge", [TInt, TInt])
    LV = _named("TupMemo", [TInt, OPTINT, TBool, TInt, OPTINT])

    def body(it):
        ctx = it.ctx
        cls = it.get_class("abelian_core", "AbelianArray")
        x = SymObj(cls, tag="x")
        bl = SymDict(z3.Const("x_has", z3.ArraySort(KT.sort(), z3.BoolSort())), z3.Const("x_val", z3.ArraySort(KT.sort(), z3.IntSort())), KT, TInt, "x_blocks")
        idx = tuple(mk_index(it, f"x_i{i}") for i in range(nd))
        x.fields.update({"_blocks": bl, "_indices": idx, "_symmetry": sym_obj(it, sym), "_charge": SV(ctx.fresh("charge", TInt), TInt)})
        s = z3.Const("s!fl", KT.sort())
        comp = lambda t, i: KT.get(t, f"f{i}")  # noqa: E731
        # Valid(x): stored sectors use charges of the tables, which are valid charges of the symmetry
        ctx.assume(z3.ForAll([s], z3.Implies(z3.Select(bl.has, s), z3.And(*[z3.And(z3.Select(idx[i].fields["_chargemap"].has, comp(s, i)), ok_scalar(sym, comp(s, i)), z3.Select(idx[i].fields["_chargemap"].val, comp(s, i)) >= 1) for i in range(nd)]))))
        dual = [idx[i].fields["_dual"].t for i in range(nd)]
        size = lambda i, c: z3.Select(idx[i].fields["_chargemap"].val, c)  # noqa: E731
        it.int_mul = MULI

        def F(g, t):
            first = groups[g][0]
            tot = z3.IntVal(0)
            for a in groups[g]:
                tot = tot + z3.If(dual[a] == dual[first], comp(t, a), -comp(t, a))
            return norm(sym, tot)

        def SZ(g, t):
            # left fold in group order, as an uninterpreted product (the code multiplies in the same order)
            p = size(groups[g][0], comp(t, groups[g][0]))
            for a in groups[g][1:]:
                p = MULI(p, size(a, comp(t, a)))
            return p

        def SUB(g, t):
            return SUBg[g].make(*[comp(t, a) for a in groups[g]])

        def spec_entry(t):
            shape, sector = [None] * new_ndim, [None] * new_ndim
            for a in range(nd):
                g = ax2g[a]
                if g is None or g in singlets:
                    shape[new_axes[a]] = size(a, comp(t, a))
                    sector[new_axes[a]] = comp(t, a)
            for g in fusedg:
                shape[position + g] = SZ(g, t)
                sector[position + g] = F(g, t)
            return BM.make(SH.make(*shape), NS.make(*sector), SUBS.make(*[SUB(g, t) for g in range(len(groups))]))

        st = {}

        def prepare(it_, env):
            # the empty python dicts created before the loop become empty symbolic dicts (same objects for the body)
            empty = lambda kty, vty, nm: SymDict(z3.K(kty.sort(), z3.BoolVal(False)), z3.K(kty.sort(), it_.default_term(vty)), kty, vty, nm)  # noqa: E731
            if env.vars["blockmap"] != {} or env.vars["lookup"] != {} or env.vars["subinfos"] != [{} for _ in groups]:
                raise Unsupported("state before the first loop is not the expected empty one")
            env.vars["blockmap"] = st["blockmap"] = empty(KT, BM, "blockmap")
            env.vars["lookup"] = st["lookup"] = empty(LK, LV, "lookup")
            st["subinfo"] = {g: empty(SUBg[g], SI, f"subinfo{g}") for g in fusedg}
            env.vars["subinfos"] = [st["subinfo"].get(g, {}) for g in range(len(groups))]

        def havoc_more(it_, env):
            # scratch lists reused by every iteration: arbitrary content left by earlier iterations
            for nm in ("new_shape", "new_sector"):
                lst = env.vars[nm]
                for q in range(len(lst)):
                    lst[q] = SV(ctx.fresh(nm + "_old", TInt), TInt)
            for nm in ("subsectors", "grouped_charges"):
                for inner in env.vars[nm]:
                    inner.append(SV(ctx.fresh(nm + "_old", TInt), TInt))

        def memo_value(a, cc):
            g = ax2g[a]
            fused = g is not None and g not in singlets
            signed = opt_some(z3.If(dual[a] == dual[groups[g][0]], cc, norm(sym, -cc))) if fused else opt_none()
            return LV.make(size(a, cc), opt_none() if g is None else opt_some(z3.IntVal(g)), z3.BoolVal(g in singlets), z3.IntVal(new_axes[a]), signed)

        def inv(it_, env, g_):
            vis = g_["vis"]
            bm, lk = st["blockmap"], st["lookup"]
            t = z3.Const("t!inv", KT.sort())
            k = z3.Const("k!inv", LK.sort())
            ax, cc = LK.get(k, "f0"), LK.get(k, "f1")
            out = [
                ("blockmap_has_exactly_the_visited_sectors", z3.ForAll([t], z3.Select(bm.has, t) == z3.Select(vis, t))),
                ("blockmap_entries", z3.ForAll([t], z3.Implies(z3.Select(vis, t), z3.Select(bm.val, t) == spec_entry(t)))),
            ]
            for g in fusedg:
                si = st["subinfo"][g]
                u = z3.Const(f"u{g}!inv", SUBg[g].sort())
                out += [
                    (f"group{g}_subsector_table_keys", z3.ForAll([u], z3.Select(si.has, u) == z3.Exists([t], z3.And(z3.Select(vis, t), SUB(g, t) == u)))),
                    (f"group{g}_subsector_table_entries", z3.ForAll([t], z3.Implies(z3.Select(vis, t), z3.Select(si.val, SUB(g, t)) == SI.make(F(g, t), SZ(g, t))))),
                ]
            ents = [z3.Implies(ax == a, z3.Select(lk.val, k) == memo_value(a, cc)) for a in range(nd)]
            out.append(("memo_entries_are_correct", z3.ForAll([k], z3.Implies(z3.Select(lk.has, k), z3.And(ax >= 0, ax < nd, ok_scalar(sym, cc), *ents)))))
            return out

        cells = [lambda env: st["blockmap"], lambda env: st["lookup"]] + [(lambda env, g=g: st["subinfo"][g]) for g in fusedg]
        it.loop_specs[(Q, 0)] = LoopSpec(carried={}, cells=cells, invariant=inv, prepare=prepare, havoc_more=havoc_more)
        orig_sorted = it.builtins["sorted"]
        nm = f"calc_fuse_block_info[{sym},ndim={nd},groups={tag}]"

        def sorted_(it_, a, kw):
            if a and isinstance(a[0], KeyIter) and st.get("subinfo") and any(a[0].has is si.has for si in st["subinfo"].values()):
                # the first loop has been left: state the result and stop (the accumulation that follows is not interpreted)
                bm = st["blockmap"]
                t = z3.Const("t!post", KT.sort())
                ctx.oblige(nm + ".blockmap_has_exactly_the_stored_sectors", z3.ForAll([t], z3.Select(bm.has, t) == z3.Select(bl.has, t)))
                ctx.oblige(nm + ".fused_shape_sector_and_subsectors_of_every_block", z3.ForAll([t], z3.Implies(z3.Select(bl.has, t), z3.Select(bm.val, t) == spec_entry(t))))
                for g in fusedg:
                    si = st["subinfo"][g]
                    u = z3.Const(f"u{g}!post", SUBg[g].sort())
                    ctx.oblige(nm + f".group{g}_subsector_table_has_exactly_the_subsectors_of_stored_blocks", z3.ForAll([u], z3.Select(si.has, u) == z3.Exists([t], z3.And(z3.Select(bl.has, t), SUB(g, t) == u))))
                    ctx.oblige(nm + f".group{g}_subsector_table_gives_fused_charge_and_size", z3.ForAll([t], z3.Implies(z3.Select(bl.has, t), z3.Select(si.val, SUB(g, t)) == SI.make(F(g, t), SZ(g, t)))))
                ctx.oblige(nm + ".operand_blocks_untouched", x.fields["_blocks"] is bl)
                raise PathEnd()
            return it_.call(orig_sorted, a, kw)

        it.builtins = dict(it.builtins, sorted=BuiltinVal("sorted", sorted_))
        fn = it.module_lookup("abelian_core", "calc_fuse_block_info")
        check_call(it, nm, fn, [x, tuple(tuple(g) for g in groups)])
        ctx.oblige(nm + ".reaches_the_accumulation_phase", False)

    return Task(
        f"C05.calc_fuse_block_info.first_loop.{sym}.ndim{nd}.groups_{tag}",
        ["C05", "C06"],
        [Q, "abelian_core.calc_fuse_group_info", "abelian_core.BlockIndex.size_of"],
        body,
        bounded_rank=f"rank {nd} array, axis groups {groups}; blocks / tables / directions symbolic",
        refine_axioms=exact_mul,
        assumes=[
            "prefix of calc_fuse_block_info only: the accumulation of sub-sectors into charge tables and extents after the first loop (dict of dicts) is not interpreted (bounded tier C05)",
            "scratch lists reused across iterations are havocked entry-wise (their lengths are fixed by the code before the loop)",
            "products of block sizes are an uninterpreted binary function applied in the order of the group (the code multiplies in the same order); refutations are re-checked with the exact product",
        ],
        timeout_ms=30000,
    )


def instances():
    quick = [
        ("U1", 2, ((0, 1),)),
        ("U1", 2, ((1, 0),)),
        ("U1", 3, ((0, 1, 2),)),
        ("U1", 3, ((2, 0, 1),)),
        ("Z2", 2, ((0, 1),)),
        ("Z4", 2, ((1, 0),)),
        ("U1", 3, ((0, 1),)),  # free axis after the group
        ("U1", 3, ((2, 1),)),  # free axis before the group, reversed order
        ("U1", 3, ((0, 2), (1,))),  # non-adjacent group next to a single-axis group
    ]
    if not thorough():
        return quick
    more = [("U1", 4, ((0, 1), (2, 3)))]  # two groups (slow: 37 paths)
    more += [(sym, nd, (order,)) for sym in ("Z2", "U1", "Z4") for nd in (2, 3) for order in itertools.permutations(range(nd))]
    more += [
        ("Z4", 3, ((0, 1),)),
        ("Z2", 3, ((2, 1),)),
        ("U1", 3, ((1, 2),)),
        ("U1", 3, ((2, 0),)),
        ("U1", 4, ((3, 1), (0, 2))),
        ("U1", 4, ((1, 2),)),
        ("Z4", 4, ((2, 3), (1, 0))),
        ("U1", 4, ((0, 3), (2,))),
    ]
    seen, out = set(), []
    for c in quick + more:
        if c not in seen:
            seen.add(c)
            out.append(c)
    return out


def tasks():
    return [_task(*c) for c in instances()]
