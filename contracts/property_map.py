"""Single table: property id -> (bounded drivers, frame obligations, claimed level,
explanation, standing assumptions).  Proof-tier tasks are selected by the `props` list
each task carries (all modules of PYVC_MODULES are scanned)."""

import os

A_NUMPY = "A-numpy: numpy/autoray/LAPACK primitives are uninterpreted in the proof tier (shape / linearity level only) and executed for real in the bounded tier"
A_BUILTINS = "A-builtins: pyvc's models of CPython builtins (len sum all any tuple list dict range zip enumerate reversed min max isinstance, dict/list methods, comprehension = map/filter); cross-checked against CPython by pyvc/crosscheck.py"
A_TERM = "termination not proved (partial correctness)"
A_INT = "Python int is a mathematical integer (exact, no assumption); float treated as real where it enters kernel code (A-float)"
A_BOUNDED = "bounded tier: small-scope universe (stated per contract in the evidence); labelled bounded, never counted as proved"
A_USER = "user-defined Symmetry subclasses and non-numpy backends are outside the claim"

# every contract module; a task serves the properties listed in its `props`
PYVC_MODULES = [
    "contracts.symmetries",
    "contracts.oddpos",
    "contracts.phases",
    "contracts.blockwise",
    "contracts.splits",
    "contracts.hamiltonians",
    "contracts.modes",
    "contracts.contraction",
    "contracts.koszul",
    "contracts.sectors",
    "contracts.constructors",
    "contracts.fermi_ops",
    "contracts.linalg_bonds",
    "contracts.fuseinfo",
    "contracts.diagonal",
    "contracts.linalg_fermi",
    "contracts.fermi_contract",
    "contracts.abelian_ops",
    "contracts.alignment",
    "contracts.fusecache",
    "contracts.indexops",
    "contracts.truncation",
    "contracts.reshape",
    "contracts.fuse_entry",
    "contracts.fuselayout",
    "contracts.dims",
    "contracts.einsum",
    "contracts.fermi_structural",
    "contracts.interface_dispatch",
    "contracts.transpose_axes",
    "contracts.reshape_driver",
    "contracts.reductions",
    "contracts.abelian_misc",
    "contracts.unfuse",
    "contracts.local_ops",
    "contracts.local_sort",
    "contracts.missing_blocks",
    "contracts.dense_dispatch",
]

# Dependency closure: a property also rests on the functions its anchored code CALLS.  A contract task is run
# (and its obligations are reported) for every property listed in its own `props` and, in addition, for the
# properties given here by task-name prefix -- e.g. reshape (C07) works by fusing and unfusing, so every
# contract about fusing, the layout memo and the index classes is also an obligation of C07.  (Introduced after
# seeded changes were caught by the right obligation attached to the wrong property.)
FUSE_USERS = ["C02", "C05", "C06", "C07"]  # contraction through the fused path, fusing itself, reshape
LABEL_USERS = ["C01", "C03", "C04", "C09", "C10", "C16"]  # everything that reads / combines odd-position labels
EXTRA_PROPS = [
    ("C05.calc_fuse_group_info", FUSE_USERS),
    ("C05.calc_fuse_block_info", FUSE_USERS),
    ("C05._fuse_core", FUSE_USERS),
    ("C05.fuse.", FUSE_USERS),
    ("C05.accum_for_split", FUSE_USERS),
    ("C05.unfuse", FUSE_USERS),  # unfuse / unfuse_all: the way back of every fuse (fused contraction, reshape)
    ("C05.fermionic_fuse", ["C07"]),
    ("C05.fermionic_unfuse", ["C07"]),
    ("C15.cached_fuse_block_info", FUSE_USERS + ["C15"]),
    ("C01.BlockIndex", FUSE_USERS + ["C08", "C11"]),  # conj / copy_with of index trees (structural ops, bond indices)
    ("C05.BlockIndex", FUSE_USERS + ["C08"]),
    ("C06.drop_misaligned_sectors", ["C02", "C06"]),
    ("C04.FermionicOperator", LABEL_USERS),
    ("C10.oddpos_dag", LABEL_USERS),
    ("C04.oddpos_parse", LABEL_USERS),
    ("C04.resolve_combined_oddpos", LABEL_USERS),
    ("C03.tensordot_fermionic", ["C03", "C04", "C09", "C10", "C14"]),
    ("C10.dagger", ["C08"]),
    ("C10.conj", ["C08"]),
    ("C03.transpose", ["C08"]),
    ("C11.svd.", ["C13"]),  # svd_truncated starts from svd
    ("C11.svd_fermionic", ["C13"]),
    ("C08.AbelianArray", ["C10"]),  # abelian conj / transpose underlie the fermionic ones
]
# frame analyses added per property in _ALL (immutable + key_covers for every user of the fuse machinery)


def props_of(task_name, props):
    out = list(props)
    for prefix, extra in EXTRA_PROPS:
        if task_name.startswith(prefix):
            out += [p for p in extra if p not in out]
    return out


BASE = [A_BUILTINS, A_INT, A_TERM, A_NUMPY, A_BOUNDED, A_USER]


def _p(bounded, level, explanation, frames=(), extra=()):
    return {"bounded": list(bounded), "frames": list(frames), "level": level, "explanation": explanation, "assumptions": BASE + list(extra)}


_ALL = {
    "C01": _p(
        ["bounded.run_C01", "bounded.run_history"],
        "other",
        "Proof core: the representation invariant is carried by per-operation contracts on the real code (sign-table operations keep table values +-1 and touch only stored sectors; blockwise ops keep key sets inside the operands' key sets; label-count parity of resolve_combined_oddpos; canonical charges from the symmetry contracts), which closes over arbitrary programs by induction on program length. Bounded: an independent Valid audit after every step of generated programs of public operations.",
        frames=['immutable', 'key_covers'],
    ),
    "C02": _p(
        ["bounded.run_C02", "bounded.run_history"],
        "other",
        "Proof core: axes parsing / pairing bookkeeping obligations of the contraction code, matmul axis convention and scalar unwrapping, the fused strategy's orchestration, sector alignment (rank 2; rank 3 with two contracted pairs), single-array einsum for enumerated equations of rank <= 4 with any number of blocks (stored keys = projections of the stored diagonal sectors, every block the finite sum of the einsums of exactly its contributing blocks, indices, scalar / zero result) and trace (sum of the block traces over exactly the diagonal sectors), transpose for every spelling of the axes incl. axes counted from the end, unfuse (rank 2, see C05), the function-style entry points, and -- by dependency closure -- every contract about fusing, the layout memo and the index classes (the fused path is a fuse / matmul / unfuse). Element-level equality with the dense contraction is numpy semantics and is decided by the bounded tier: exact comparison (integer data) against np.tensordot/np.einsum/np.trace on an independent densifier, all modes.",
        frames=['immutable', 'key_covers'],
    ),
    "C03": _p(
        ["bounded.run_C03", "bounded.run_koszul"],
        "other",
        "Proof core: the fermionic wrappers trace / @ / einsum put the parity sign on exactly the contracted pairs that meet as ket-then-bra, bring traced pairs adjacent as (bra, ket) by one fermionic transpose, read raw blocks only from synchronised copies and never touch the operands; each sign-table operation multiplies the pending sign of exactly the stored sectors by the specified factor (parity sum for phase_flip, ghost Koszul sign for phase_transpose) and leaves everything else untouched, out of place with frames; calc_phase_permutation reversal branch. Bounded: element-exact comparison with an independent graded (Grassmann) tensor calculator validated against a brute-force anticommuting-polynomial evaluator.",
    ),
    "C04": _p(
        ["bounded.run_C04"],
        "other",
        "Proof core (unbounded number of labels): resolve_combined_oddpos is a sequence of legal Grassmann rewrites (R1 swap, R2 pair contraction) ending in the sorted pair-free normal form, with the accumulated sign applied exactly once; the label order is a strict total order compatible with conjugation. Bounded: all routes through 2-4 tensor networks agree with each other and with the graded oracle.",
        extra=["A-grass: uniqueness of the normal form of a word under R1/R2 (mathematics)"],
    ),
    "C05": _p(
        ["bounded.run_C05", "bounded.run_history"],
        "other",
        "Proof core: unfuse (rank 2, fused axis of two constituents at either position, ANY number of blocks and table entries): every stored block is cut at exactly the offsets the fused index's own table assigns (prefix sums of the extents of its fused charge, in table order), each piece reshaped to the sizes of the constituent charges and filed under the sector with the fused charge replaced by that sub-sector, nothing else stored, indices replaced by the constituents, frames; unfuse_all unfuses exactly the fused axes from last to first; the fermionic fuse / unfuse wrappers: one transpose making the groups contiguous, parity flip of exactly the non-dual members and virtual reversal of exactly the positions of every dual group, synchronise, then the abelian operation (unfuse: synchronise, split, the same flip set and reversal back); accum_for_split returns exactly the consecutive prefix-sum intervals (unbounded length); calc_fuse_group_info axis bookkeeping and fused direction for every family of groups (ndim <= 4; 5 thorough); the per-block layout loop of calc_fuse_block_info (fused charge = signed sum relative to the first axis of the group, fused size = product, sub-sectors in group order, sub-sector tables, memo correctness) for nine (thorough: 35) rank / group instances with any number of blocks; fuse / _fuse_core hand the cached layout, the stored blocks and the backend functions to exactly one strategy and build the result from what comes back (frames, dtype of the zero blocks); the layout memo returns what the uncached computation returns for every cache content; index trees: conj / drop_charges at every nesting level, hash memos reset. The accumulation of sub-sectors into charge tables / extents (second half of calc_fuse_block_info) and the two block-moving strategies: bounded (element-relocation oracle, exact zeros, bit-for-bit round trips, insert==concat, cache on/off).",
        frames=['immutable', 'key_covers'],
    ),
    "C06": _p(
        ["bounded.run_C06", "bounded.run_history"],
        "other",
        "Proof core: the fused strategy aligns, exits early with the combined charge, fuses the contracted / free legs in the layout the partner uses and unfuses exactly the legs fused here; drop_misaligned_sectors keeps exactly the aligned sectors and used charges (rank 2, and rank 3 with two contracted pairs in any order; any number of blocks); fermionic fuse / unfuse sign pipelines and abelian unfuse as in C05; layout memo and fuse entry points as in C05. Bounded tier decides values: modes agree in rank, index structure incl. sub-index info and values; contraction of fused operands equals contraction.",
        frames=['immutable', 'key_covers'],
    ),
    "C07": _p(
        ["bounded.run_C07"],
        "other",
        "Proof core: the reshape driver computes its plan once from the current shape, the completed request and the constituent sizes of fused axes, and executes exactly unfuse..., fuse..., expand_dims... in plan order in place on a copy (or the receiver if asked); (rank-bounded, every size symbolic) the axis matcher calc_reshape_args returns, for every drop / merge / add-size-one recipe over shapes with <= 4 axes and for the trip back from the shape its own plan produces (merged axes block-sparse: 1 <= size <= product), a well-formed plan whose application gives exactly the requested shape, and the empty plan for a request of the current shape (the two known findings F16, F17 are the only refuted obligations; their solver inputs replay natively). The array-level content (norm, stored magnitudes, exact round trip of blocks) is numpy / fuse machinery: bounded tier, which also runs the matcher exhaustively over shapes with <=5 axes of sizes {1,2,3,4,6}. By dependency closure (reshape works by fusing and unfusing) every contract about fusing, the layout memo and the index classes is also an obligation of this property.",
        frames=['immutable', 'key_covers'],
    ),
    "C08": _p(
        ["bounded.run_C08"],
        "other",
        "Proof core: key-set algebra of _binary_blockwise_op for the three missing-modes with whole-view postconditions and frames (right operand never modified, left only in place), arithmetic dunder dispatch; reductions max / min / sum / all / any (the same-named backend reduction of every stored block exactly once, then of the stack), norm (root of the sum over every stored block of sum |b|^2), abs / sqrt / isfinite / clip (new array, same sectors, backend function of that name on every block, bounds in order); transpose with concrete axes in every spelling (front / end counted) for rank 2-4; dagger = conj then in-place default transpose, H, T; every function-style entry point of symmray.interface forwards all arguments to the method of the same name once and returns its result, fallbacks go to autoray under the same name. Bounded: op(dense) == dense(op) exactly, three call routes.",
    ),
    "C09": _p(
        ["bounded.run_C09"],
        "other",
        "Proof core: phase_sync preserves the val view of every sector, empties the table, is idempotent; every sign-introducing operation acts on the val view by a key-determined factor (hence commutes with sync). Bounded: op(x) == op(x.phase_sync()) for every public operation over lazily signed arrays.",
        frames=['typestate'],
    ),
    "C10": _p(
        ["bounded.run_C10", "bounded.run_history"],
        "other",
        "Proof core: conjugation of label words (reversal + dag) is an involution that preserves the normal form and reverses the order; FermionicOperator.dag laws. Bounded: norms of arrays and locally conjugated networks, involutions, dagger == conj then reversal for both flag values.",
        frames=['immutable', 'key_covers'],
    ),
    "C11": _p(
        ["bounded.run_C11"],
        "other",
        "Proof core (structure, any number of blocks; Z2, Z4, U1): qr / svd -- one factor block per input block, bond table with one charge per input block and sizes from the factor shapes, opposite bond directions, charges, shapes, conservation; eigh -- eigenvector block per input block, eigenvalues keyed by the column charge, ValueError exactly for a non-identity charge; solve -- solution blocks exactly where a right-hand-side block exists, conjugated column index, charge c_b - c_a; fermionic wrappers synchronise before raw blocks are read and put the ket-bra sign on the inner leg of the fresh right factor. Numerical content (reconstruction, orthonormality, triangularity, ordering; tolerance 1e-9, single precision 1e-4): bounded tier; LAPACK and floating point are outside deductive reach.",
    ),
    "C12": _p(
        ["bounded.run_C12"],
        "exploration",
        "The numerical statement (spectra, norms, solutions equal the dense ones) has no deductive content (LAPACK, floating point): bounded exploration against dense numpy. The only obligations discharged are structural: which blocks eigh / solve produce, keyed how, with which index and charge (contracts/linalg_bonds.py).",
    ),
    "C13": _p(
        ["bounded.run_C13"],
        "other",
        "Proof core: (1) positive cutoff -- the truncation threshold computed by svd_truncated (the real code up to the per-sector counts) keeps exactly the values permitted by the selected cutoff rule and the bond limit, for all six modes, any number of singular values (reals, numpy primitives as ghost folds); every kept value >= every discarded one; a larger cutoff never keeps more; the known findings F8 (cutoff above the total weight) and F11 (ties at the bond limit) are the only refuted obligations and their solver counterexamples replay natively. (2) the rest of svd_truncated for any number of sectors: sectors without a surviving value are removed from U, s and VH together, kept blocks are the first columns / values / rows, both factors get the same new bond table whose sizes are the kept counts (shapes match: the factors stay valid), and absorb = left / right / both scales exactly the columns of U / rows of VH by the kept values (their square roots), anything else raises. (3) no cutoff -- calc_sub_max_bonds returns a split with sum == max_bond and 0 <= part <= sector size. Error identity, equality of the absorb variants as products, largest-first within a charge (LAPACK order): bounded tier (kept-set oracle for six modes x cutoffs x bond limits x absorb options).",
        extra=["fold lemmas LS_store / LS_scale / LS_floor assumed at the instances used (Lean: contracts/lean)"],
    ),
    "C14": _p(
        ["bounded.run_C14"],
        "other",
        "Proof core: frame clauses of the contracts under verification - every out-of-place sign-table operation, copy/copy_with and the blockwise binary operation leave every field of every operand exactly as it was and return objects whose dicts are not shared; in-place variants return the receiver. Bounded: operand snapshots around every public call and call pair; inplace == out-of-place.",
        frames=['ownership', 'immutable'],
    ),
    "C15": _p(
        ["bounded.run_C15", "bounded.run_history"],
        "other",
        "Proof core: default_tensordot_mode restores the previous mode on normal and exceptional exit; the fuse-layout memo returns, for EVERY cache content satisfying its invariant and every size limit, exactly what the uncached computation returns, keyed by index hash keys + stored sectors + symmetry + groups, and re-establishes the invariant (induction over every history of calls); hash keys cover every slot, memos are reset by every copy at every nesting level, the hash is a digest of the pickle. Bounded: cold/warm/evicting/bypassing histories over near-identical arrays. The thread clause is outside this technique family: only a bounded stress run.",
        extra=["schedules (threads) are NOT covered by any contract: bounded stress run only"],
        frames=['key_covers', 'immutable'],
    ),
    "C16": _p(
        ["bounded.run_C16"],
        "other",
        "Proof core: symmetry registry and class-symmetry resolution; the symmetry-name dispatch helper utils.from_dense picks the static class of the symmetry asked for (fermionic exactly when asked) and forwards array, maps, directions and charge unchanged; fill_missing_blocks adds exactly the valid sectors as zeros like the stored data. Bounded: four construction routes agree, both dense round trips, every combination of omitted optional arguments.",
    ),
    "C17": _p(
        ["bounded.run_C17"],
        "proof",
        "Group laws, parity homomorphism and canonical-representative clauses for Z2, Z4, U1, Z2Z2, U1U1 are obligations over symbolic executions of the real method bodies (all of Z for U1-type charges, every arity through the ghost fold). The bounded run re-executes the same laws exhaustively over the box named by the property and checks sector enumeration against brute force, as a cross-check of the encoder.",
    ),
    "C18": _p(
        ["bounded.run_C18"],
        "other",
        "Proof core: the phased sort of build_local_fermionic_elements (any number of operators): on exit the word is sorted by label, has the same length and phase * G(sorted) == G(original) using only exchanges of adjacent operators with different labels (stable), the word being bra-basis, term, ket-basis operators in this order; build_local_fermionic_array gives leg i and leg n+i the charge map of site i, kets non-dual then bras dual; charge index maps equal particle number / parity of the documented basis; model term lists. Bounded: elements equal Jordan-Wigner vacuum expectation values; action on states, Hermiticity, spectrum, composition.",
    ),
    "C19": _p(
        ["bounded.run_C19"],
        "other",
        "Proof core (unbounded graphs): the coordination loops compute exactly the degree of every site (ghost DEG with loop invariant), every edge's local term receives that bond's coefficient from scalar / dict-in-either-orientation / callable inputs and the final degrees; the literal term lists carry -t on both hoppings and U/z, -mu/z on-site; z*(c/z)=c. Bounded: sum of embedded edge terms equals the Jordan-Wigner lattice Hamiltonian on all graphs with <=4 sites.",
    ),
    "C20": _p(
        ["bounded.run_C20"],
        "other",
        "Bounded tier decides (dtype audit of every result block for four dtypes with sparsity forcing zero-block creation); dtype-flow obligations at the zero-creation sites.",
        frames=['dtype_flow'],
    ),
}

# a property is registered only when its bounded driver is present in this revision
_HERE = os.path.dirname(os.path.dirname(os.path.abspath(__file__)))
PROPERTY_MAP = {}
NOT_APPLICABLE = {}
PENDING = []
for _pid, _pm in _ALL.items():
    if _pid not in PENDING and all(os.path.exists(os.path.join(_HERE, *d.split(".")) + ".py") for d in _pm["bounded"]) and _pid not in os.environ.get("VERIF_DISABLE", "").split(","):
        PROPERTY_MAP[_pid] = _pm
    else:
        NOT_APPLICABLE[_pid] = "check not yet registered in this revision of /verif (driver under construction; planned contract in DESIGN.md section 4)"
