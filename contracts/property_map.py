"""Single table: property id -> (contract modules whose tasks serve it, frame obligations,
bounded drivers, claimed level, explanation, standing assumptions)."""

A_NUMPY = "A-numpy: numpy/autoray/LAPACK primitives are uninterpreted in the proof tier (shape/linearity axioms only) and executed in the bounded tier"
A_BUILTINS = "A-builtins: pyvc's models of CPython builtins (len sum all any tuple list dict range zip enumerate reversed min max isinstance, dict/list methods); cross-checked against CPython by pyvc/crosscheck.py"
A_TERM = "termination not proved (partial correctness)"
A_INT = "Python int is a mathematical integer (exact, no assumption); float treated as real where it enters kernel code (A-float)"

# every contract module; a task serves the properties listed in its `props`
PYVC_MODULES = [
    "contracts.symmetries",
    "contracts.oddpos",
    "contracts.phases",
]

PROPERTY_MAP = {
    "C17": {
        "pyvc": True,
        "bounded": ["bounded.run_C17"],
        "level": "proof",
        "explanation": "Group laws, parity homomorphism and canonical-representative clauses for Z2, Z4, U1, Z2Z2, U1U1 are obligations over symbolic executions of the real method bodies (all of Z for U1-type, every arity through the ghost fold); sector enumeration is proved sound/complete/duplicate-free for arbitrary rank from the loop body of gen_valid_sectors. The bounded run re-executes the same laws exhaustively as a cross-check of the encoder.",
        "assumptions": [A_BUILTINS, A_INT, A_TERM, "user-defined Symmetry subclasses are outside the claim"],
    },
}

# properties not (yet) claimed, each with the reason
NOT_APPLICABLE = {
    pid: "check not yet registered in this revision of /verif (machinery under construction; see DESIGN.md section 4 for the planned contract)"
    for pid in ["C%02d" % i for i in range(1, 21)]
    if pid not in PROPERTY_MAP
}
