"""Sidecar contracts for class-symmetry resolution and the classmethod constructors (C16)."""

import z3

from pyvc.core import SV, PyRaise, SymObj, TInt
from pyvc.interp import BuiltinVal
from pyvc.task import Task, check_call

from .util import SYMS, sym_obj

STATIC = {
    "abelian_core": {"Z2Array": "Z2", "U1Array": "U1", "Z2Z2Array": "Z2Z2", "U1U1Array": "U1U1"},
    "fermionic_core": {"Z2FermionicArray": "Z2", "U1FermionicArray": "U1", "Z2Z2FermionicArray": "Z2Z2", "U1U1FermionicArray": "U1U1"},
}
GENERIC = [("abelian_core", "AbelianArray"), ("fermionic_core", "FermionicArray")]


def _class_symmetry_task(mod, clsname, symname):
    def body(it):
        cls = it.get_class(mod, clsname)
        gcs = it.getattr(cls, "get_class_symmetry")
        nm = f"{clsname}.get_class_symmetry"

        def is_sym(r, s):
            return isinstance(r, SymObj) and r.cls is not None and r.cls.name == s

        if symname is not None:
            check_call(it, nm + "[default]", gcs, [], post=lambda r: [("class_symmetry", is_sym(r, symname))])
            check_call(it, nm + "[None]", gcs, [None], post=lambda r: [("class_symmetry", is_sym(r, symname))])
            check_call(it, nm + "[own name]", gcs, [symname], post=lambda r: [("class_symmetry", is_sym(r, symname))])
            check_call(it, nm + "[own object]", gcs, [sym_obj(it, symname)], post=lambda r: [("class_symmetry", is_sym(r, symname))])
            for other in SYMS:
                if other == symname:
                    continue
                check_call(it, nm + f"[name {other}]", gcs, [other], post=lambda r: [("must_raise", False)], raises={"ValueError": True})
                check_call(it, nm + f"[object {other}]", gcs, [sym_obj(it, other)], post=lambda r: [("must_raise", False)], raises={"ValueError": True})
            # the class is flagged static
            sv, _ = cls.lookup("static_symmetry")
            it.ctx.oblige(f"{clsname}.static_symmetry_flag", sv is True)
        else:
            check_call(it, nm + "[default]", gcs, [], post=lambda r: [("must_raise", False)], raises={"ValueError": True})
            check_call(it, nm + "[None]", gcs, [None], post=lambda r: [("must_raise", False)], raises={"ValueError": True})
            for s in SYMS:
                check_call(it, nm + f"[name {s}]", gcs, [s], post=lambda r, s=s: [("named_symmetry", is_sym(r, s))])
                check_call(it, nm + f"[object {s}]", gcs, [sym_obj(it, s)], post=lambda r, s=s: [("same_symmetry", is_sym(r, s))])
            check_call(it, nm + "[unknown name]", gcs, ["Z3"], post=lambda r: [("must_raise", False)], raises={"ValueError": True})
            sv, _ = cls.lookup("static_symmetry")
            it.ctx.oblige(f"{clsname}.static_symmetry_flag", sv is False)
        fv, _ = cls.lookup("fermionic")
        it.ctx.oblige(f"{clsname}.fermionic_flag", fv is (mod == "fermionic_core"))

    tq = f"{mod}.{clsname}.get_class_symmetry" if symname is not None else "abelian_core.AbelianArray.get_class_symmetry"
    return Task(f"C16.get_class_symmetry.{clsname}", ["C16"], [tq, "symmetries.get_symmetry", "symmetries.Symmetry.__eq__"], body)


def _from_fill_fn_task(mod, clsname, symname):
    Q = "abelian_core.AbelianArray.from_fill_fn"

    def body(it):
        cls = it.get_class(mod, clsname)
        sectors = [SymObj(None, {}, tag=f"sector{i}") for i in range(3)]
        made = {}

        def ctor(it_, a, k):
            made["kw"] = k
            new = SymObj(cls, tag="new")
            new.fields["_blocks"] = {}
            new.fields["gen_valid_sectors"] = BuiltinVal("gen_valid_sectors", lambda i2, a2, k2: list(sectors))
            new.fields["get_block_shape"] = BuiltinVal("get_block_shape", lambda i2, a2, k2: ("shape_of", a2[0]))
            made["new"] = new
            return new

        it.summaries[f"{mod}.{clsname}"] = ctor
        fill = BuiltinVal("fill_fn", lambda i2, a2, k2: ("filled", a2[0]))
        indices = SymObj(None, {}, tag="indices")
        fn = it.getattr(cls, "from_fill_fn")
        for given_charge in (False, True):
            made.clear()
            charge = SV(it.ctx.fresh("charge", TInt), TInt) if given_charge else None
            kw = {"charge": charge} if given_charge else {}
            if symname is None:
                kw["symmetry"] = "U1"
            want_sym = symname or "U1"
            tag = f"{clsname}.from_fill_fn[charge {'given' if given_charge else 'omitted'}]"

            def post(r):
                out = [("constructs_via_class", "new" in made and r is made.get("new"))]
                if "new" not in made:
                    return out
                k = made["kw"]
                s = k.get("symmetry")
                out.append(("symmetry_resolved", isinstance(s, SymObj) and s.cls is not None and s.cls.name == want_sym))
                out.append(("indices_forwarded", k.get("indices") is indices))
                c = k.get("charge")
                if given_charge:
                    out.append(("charge_forwarded", c is charge))
                else:
                    out.append(("default_charge_is_identity", c == 0 or (isinstance(c, tuple) and all(v == 0 for v in c))))
                blocks = r.fields["_blocks"]
                out.append(("fills_exactly_the_valid_sectors_in_order", list(blocks.keys()) == sectors))
                out.append(("each_block_is_fill_fn_of_its_block_shape", all(blocks[s_] == ("filled", ("shape_of", s_)) for s_ in sectors if s_ in blocks)))
                return out

            check_call(it, tag, fn, [fill, indices], kw, post=post)

    return Task(f"C16.from_fill_fn.{clsname}", ["C16"], [Q], body, assumes=["callee contract gen_valid_sectors (proved: contracts/sectors.py)", "BlockBase.blocks returns the block dict itself"])


def _from_blocks_task(mod, clsname, symname):
    Q = "abelian_core.AbelianArray.from_blocks"

    def body(it):
        ctx = it.ctx
        cls = it.get_class(mod, clsname)
        d = [SV(ctx.fresh(f"d{i}", TInt), TInt) for i in range(6)]
        for v in d:
            ctx.assume(v.t >= 1)
        blkA = SymObj(None, {"shape": (d[0], d[1])}, tag="A")
        blkB = SymObj(None, {"shape": (d[2], d[3])}, tag="B")
        blkC = SymObj(None, {"shape": (d[4], d[5])}, tag="C")
        # sectors (0,1), (1,1), (0,0): axis0 charge 0 appears twice, axis1 charge 1 appears twice
        blocks = {(0, 1): blkA, (1, 1): blkB, (0, 0): blkC}
        it.externals["ar.shape"] = lambda it_, a, k: a[0].fields["shape"]
        made = {}

        def ctor(it_, a, k):
            made["kw"] = k
            made["new"] = SymObj(cls, tag="new")
            return made["new"]

        it.summaries[f"{mod}.{clsname}"] = ctor
        fn = it.getattr(cls, "from_blocks")
        kw = {} if symname is not None else {"symmetry": "Z2"}
        want_sym = symname or "Z2"
        consistent = z3.And(d[0].t == d[4].t, d[1].t == d[3].t)

        def post(r):
            out = [("constructs_via_class", "new" in made and r is made.get("new"))]
            if "new" not in made:
                return out
            k = made["kw"]
            s = k.get("symmetry")
            out.append(("default_symmetry_resolves_to_class_symmetry", isinstance(s, SymObj) and s.cls is not None and s.cls.name == want_sym))
            out.append(("blocks_forwarded", k.get("blocks") is blocks))
            c = k.get("charge")
            out.append(("default_charge_is_identity", c == 0 or (isinstance(c, tuple) and all(v == 0 for v in c))))
            inds = k.get("indices")
            ok = isinstance(inds, tuple) and len(inds) == 2 and all(isinstance(ix, SymObj) for ix in inds)
            out.append(("one_index_per_axis", ok))
            out.append(("sizes_consistent", consistent))
            if ok:
                cm0, cm1 = inds[0].fields["_chargemap"], inds[1].fields["_chargemap"]
                out.append(("axis0_table_sorted_keys", list(cm0) == [0, 1]))
                out.append(("axis1_table_sorted_keys", list(cm1) == [0, 1]))
                if list(cm0) == [0, 1] and list(cm1) == [0, 1]:
                    out.append(("axis0_sizes", z3.And(cm0[0].t == d[0].t, cm0[1].t == d[2].t)))
                    out.append(("axis1_sizes", z3.And(cm1[1].t == d[1].t, cm1[0].t == d[5].t)))
                out.append(("directions_as_given", inds[0].fields["_dual"] is False and inds[1].fields["_dual"] is True))
            return out

        check_call(it, f"{clsname}.from_blocks[defaults]", fn, [blocks, (False, True)], kw, post=post, raises={"ValueError": z3.Not(consistent)})
        # wrong number of directions
        made.clear()
        check_call(it, f"{clsname}.from_blocks[wrong duals length]", fn, [blocks, (False,)], kw, post=lambda r: [("must_raise", False)], raises={"ValueError": True})

    return Task(
        f"C16.from_blocks.{clsname}",
        ["C16"],
        [Q, "abelian_core.BlockIndex.__init__"],
        body,
        assumes=["A-numpy: ar.shape(block) is the block's shape tuple; int(d) of an int is d"],
    )


def tasks():
    out = []
    for mod, classes in STATIC.items():
        for c, s in classes.items():
            out.append(_class_symmetry_task(mod, c, s))
    for mod, c in GENERIC:
        out.append(_class_symmetry_task(mod, c, None))
    for mod, c, s in [("abelian_core", "Z2Array", "Z2"), ("abelian_core", "U1U1Array", "U1U1"), ("abelian_core", "AbelianArray", None), ("fermionic_core", "U1FermionicArray", "U1")]:
        out.append(_from_fill_fn_task(mod, c, s))
        out.append(_from_blocks_task(mod, c, s))
    return out
